#!/usr/bin/env python3
"""Regenerates MANIFEST.json from the table below (keeps it valid at all times)."""
import json, os
V = os.path.dirname(os.path.dirname(os.path.abspath(__file__)))
props = [json.loads(l) for l in open(os.path.join(V, "properties.jsonl"))]

CHECKS = {}
MD = os.path.join(V, "checks", "manifest")
# only properties the coordinator has accepted (reviewed, committed, passing) are claimed
ENABLED = open(os.path.join(MD, "ENABLED")).read().split()
for f in sorted(os.listdir(MD)):
    if f.endswith(".json") and f[:-5] in ENABLED:
        CHECKS[f[:-5]] = json.load(open(os.path.join(MD, f)))
PENDING = "not yet built in this round (claimed in DESIGN.md; check under construction)"

checks, na = [], []
for p in props:
    i = p["id"]
    if i in CHECKS:
        c = CHECKS[i]
        checks.append({
            "property_id": i,
            "quick_cmd": "bin/check %s --tier quick" % i,
            "thorough_cmd": "bin/check %s --tier thorough" % i,
            "evidence_file": "/verif/evidence/%s.json" % i,
            "replay_cmd_template": "bin/check %s --replay {path}" % i,
            "engine": "lean4-proof+correspondence",
            "level_claimed": {"category": c.get("category", "proof"), "text": c["text"], "design_ref": "DESIGN.md " + c["ref"]},
            "level_note": c["note"],
            "technique": c["technique"],
        })
    else:
        na.append({"property_id": i, "reason": PENDING})
m = {
 "version": 1,
 "setup_cmd": "bin/setup.sh",
 "hooks": {
   "guard": "verif",
   "enable": "go build/test -tags verif (harness module /verif/harness with replace => /repo, GOTOOLCHAIN=local go1.26.8)",
   "baseline_off_cmd": "cd /repo && go test -vet=off -count=1 -timeout 25m ./...",
   "source_commits": [l.split()[0] for l in os.popen("git -C /repo log --format='%h %s' 138f36b..HEAD").read().splitlines() if "verif hook" in l],
   "add_only": True,
 },
 "engines": [{"name": "lean4-proof+correspondence", "path": "/verif/bin/check",
              "serves_properties": [c["property_id"] for c in checks],
              "kind_free_text": "Lean 4 theorems about executable models (lean/CoapVerif), tied to /repo by a regenerating extractor (harness/cmd/extract) and a differential correspondence harness (harness/, Lean driver exe)"}],
 "checks": checks,
 "not_applicable": na,
 "notes": "See DESIGN.md. fix: commits in /repo and known findings are listed in known_findings.json.",
}
json.dump(m, open(os.path.join(V, "MANIFEST.json"), "w"), indent=1)
print("checks:", [c["property_id"] for c in checks], "pending:", len(na))
