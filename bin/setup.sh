#!/bin/sh
# MANIFEST.setup_cmd: build everything from files on disk only (offline).
set -e
cd "$(dirname "$0")/.."
export GOFLAGS=-mod=mod GOPROXY=off GOSUMDB=off GOTOOLCHAIN=local CGO_ENABLED=0
mkdir -p work evidence
cp /repo/go.sum harness/go.sum 2>/dev/null || true
(cd harness && go1.26.8 build -tags verif -o ../work/extract ./cmd/extract && ../work/extract /repo ../lean/CoapVerif/Generated >/dev/null)
(cd lean && lake build CoapVerif $(sed -n "s/^name = \"\(drv_c[0-9]*\)\"/\1/p" lakefile.toml) 2>&1 | tail -5)
(cd harness && go1.26.8 vet -tags verif ./... >/dev/null 2>&1 || true)
echo setup done
