#!/bin/sh
# MANIFEST.setup_cmd: build everything from files on disk only (offline).
set -e
cd "$(dirname "$0")/.."
export GOFLAGS=-mod=mod GOPROXY=off GOSUMDB=off GOTOOLCHAIN=local CGO_ENABLED=0
mkdir -p work evidence
cp /repo/go.sum harness/go.sum 2>/dev/null || true
(cd harness && go1.26.8 build -tags verif -o ../work/extract ./cmd/extract && ../work/extract /repo ../lean/CoapVerif/Generated >/dev/null)
(cd lean && lake build CoapVerif driver 2>&1 | tail -5)
(cd harness && go1.26.8 build -tags verif -o ../work/hx ./cmd/hx)
(cd harness && for p in $(ls -d h*/ 2>/dev/null); do go1.26.8 test -c -tags verif -o ../work/$(basename $p).test ./$p || exit 1; done)
echo setup done
