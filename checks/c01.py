"""C01 — wire codecs are exact inverses on every well-formed message (DESIGN.md §5 C01).

Proof: lean/CoapVerif/Props/C01.lean over Model/{OptionCodec,UdpCoder,TcpCoder,PoolMessage}.lean, constants and
option tables regenerated from /repo (Generated/CodecConsts.lean, Generated/OptionDefs.lean).
Correspondence: seeded structured messages (boundary products of delta/length/stream-length classes, known and
unknown option numbers, repeated options, every token length, every code) are pushed through the real
Size/Encode/Decode and the pooled marshal/unmarshal (harness/c01), through the Lean model (drv_c01 model) and
through the judge written from RFC 7252 §3 / RFC 8323 §3.2 (drv_c01 judge).  `encall` encodes into every buffer
length 0..size inside a canary window.
"""
import concurrent.futures as cf
import glob
import hashlib
import json
import os
import random

from . import codecgen as G
from . import common

MODULES = ["CoapVerif.Props.C01", "CoapVerif.Findings.C01"]
GENERATED = ["CodecConsts.lean", "OptionDefs.lean", "PoolRetry.lean"]
PROP = "C01"


def par_pipe(cmd, lines, par=8):
    if not lines:
        return []
    if len(lines) < 64:
        rc, out, err = common.pipe_lines(cmd, lines)
        return out if rc == 0 and len(out) == len(lines) else None
    parts = [lines[i::par] for i in range(par)]
    with cf.ThreadPoolExecutor(par) as ex:
        res = list(ex.map(lambda p: common.pipe_lines(cmd, p), parts))
    out = [None] * len(lines)
    for i, (rc, o, err) in enumerate(res):
        if rc != 0 or len(o) != len(parts[i]):
            return None
        out[i::par] = o
    return out


def norm(o):
    return "panic" if o.startswith("panic") else o


def evaluate(art, lines, par=8, want_model=True):
    """(impl, model, verdicts) for input lines; model/verdicts None when the driver is missing."""
    impl = par_pipe([art["hx"]], lines, par)
    if impl is None:
        return None, None, None
    impl = [norm(o) for o in impl]
    model = verdicts = None
    if art.get("driver"):
        if want_model:
            model = par_pipe([art["driver"], "model"], lines, par)
        verdicts = par_pipe([art["driver"], "judge"], ["%s => %s" % (l, o) for l, o in zip(lines, impl)], par)
    return impl, model, verdicts


def ops_for(rng, coder, m, thorough, big):
    s = G.fmt_msg(m)
    size_est = len(G.encode_udp(m)) if coder == "udp" else len(G.encode_tcp(m))
    L = ["size %s %s" % (coder, s)]
    if size_est <= (400 if thorough else 300):
        L.append("encall %s %s" % (coder, s))
        if coder == "udp" and m["opts"]:
            L.append("omar x %s" % s)
    else:
        for cap in sorted({0, 1, 4, size_est - 1, size_est, size_est + 1, size_est + 9, rng.randrange(size_est + 1)}):
            if cap >= 0:
                L.append("enc %s %d %s" % (coder, cap, s))
    n = len(m["opts"])
    L.append("rt %s %d %s" % (coder, rng.choice([n, n + 1, max(n, 16), max(n, 64)]), s))
    if n > 500:
        # many options: the pooled retry loop has to pass every capacity step
        L.append("pool %s fresh 0 %s" % (coder, s))
        L.append("pool %s recycled 0 %s" % (coder, s))
    elif not big or rng.random() < 0.3:
        kind, cap = rng.choice([("fresh", 0), ("recycled", 0), ("recycled", 1), ("recycled", 16), ("recycled", 3)])
        L.append("pool %s %s %d %s" % (coder, kind, cap, s))
    return L


def gen_cases(ctx):
    """[(coder, message dict, class)]"""
    rng = random.Random(ctx.seed * 1000003 + 17)
    thorough = ctx.tier == "thorough"
    cases = []
    for coder in ("udp", "tcp"):
        for m in G.boundary_msgs(rng, coder):
            cases.append((coder, m, "boundary"))
        for code in range(256):
            cases.append((coder, dict(typ=code % 4, mid=code * 257 % 65536, code=code, tok=G.rbytes(rng, code % 9),
                                      opts=[(11, b"c")] if code not in G.SIGNAL else [], pay=b"z" if code % 2 else b""), "code"))
    nrand = 40000 if thorough else 2200
    for k in range(nrand):
        coder = "udp" if rng.random() < 0.5 else "tcp"
        big = (k % 50 == 0)
        if k % 6 == 5:
            cases.append((coder, G.gen_invalid(rng, coder), "invalid"))
        else:
            cases.append((coder, G.gen_wf(rng, coder, big), "big" if big else "wf"))
    return cases, rng


STABLE = {"refuses-type-above-reset": "udp/coder.Encode accepts Type 4..255"}   # one call site = one finding (DESIGN §6-F15)


def signature(clause, line, prop=PROP):
    if clause in STABLE:
        return "%s:%s:%s" % (prop, clause, STABLE[clause])
    if len(line) > 300:
        line = line[:120] + "..sha1:" + hashlib.sha1(line.encode()).hexdigest()
    return "%s:%s:%s" % (prop, clause, line)


def shrink(art, line, clause):
    """Greedy shrinking of a message line while the judge still reports the same clause on the implementation."""
    f = line.split()
    op = f[0]
    nhead = {"size": 2, "encall": 2, "omar": 2, "enc": 3, "rt": 3, "pool": 4}.get(op)
    if nhead is None:
        return line
    head, mf = f[:nhead], f[nhead:]

    def parse(mf):
        k = int(mf[5])
        return mf[:5], mf[6:6 + k]

    def build(fix, opts):
        return " ".join(head + fix + [str(len(opts))] + opts)

    fix, opts = parse(mf)
    cur = build(fix, opts)
    for _ in range(12):
        cands = []
        for i in range(len(opts)):
            cands.append((fix, opts[:i] + opts[i + 1:]))
        for i, o in enumerate(opts):
            oid, _, v = o.partition(":")
            if v != "-":
                cands.append((fix, opts[:i] + ["%s:-" % oid] + opts[i + 1:]))
                if len(v) > 2:
                    cands.append((fix, opts[:i] + ["%s:%s" % (oid, v[:2])] + opts[i + 1:]))
        if fix[4] != "-":
            cands.append((fix[:4] + ["-"], opts))
            cands.append((fix[:4] + ["70"], opts))
        if fix[3] != "-" and len(fix[3]) <= 16:
            cands.append((fix[:3] + ["-"] + fix[4:], opts))
        if fix[1] not in ("0", "1") and 0 <= int(fix[1]) <= 65535:
            cands.append(([fix[0], "1"] + fix[2:], opts))
        if not cands:
            break
        lines = [build(a, b) for a, b in cands]
        impl, _, verd = evaluate(art, lines, par=4, want_model=False)
        if impl is None or verd is None:
            break
        hit = [i for i, v in enumerate(verd) if v == "violates " + clause]
        if not hit:
            break
        best = min(hit, key=lambda i: len(lines[i]))
        if len(lines[best]) >= len(cur):
            break
        fix, opts = cands[best]
        cur = lines[best]
    return cur


def process(ctx, art, lines, impl, model, verdicts, tag, shrinker=None, prop=PROP):
    """Correspondence diff + judge verdicts. Violations are grouped by clause, the shortest few inputs of each
    clause are minimised and reported once."""
    shrinker = shrinker or shrink
    by_clause = {}
    for i, (l, o) in enumerate(zip(lines, impl)):
        if o == "bad-op":
            ctx.broken.append(("correspondence", "%s harness rejected its input" % prop, l[:200]))
            continue
        if o == "hang-skipped":
            ctx.count("hang-skipped")
            continue
        if model is not None and model[i] != o and len([b for b in ctx.broken if b[0] == "correspondence"]) < 30:
            ctx.broken.append(("correspondence", "%s model vs implementation" % prop,
                               "%s: impl `%s` model `%s`" % (l[:300], o[:300], model[i][:300])))
        if verdicts is not None:
            v = verdicts[i]
            if v == "bad-op":
                ctx.broken.append(("model", "%s judge could not read the observation" % prop, "%s => %s" % (l[:200], o[:200])))
            elif v.startswith("violates"):
                by_clause.setdefault(v.split(" ", 1)[1], []).append((l, o))
            ctx.count("verdict-" + v.split()[0])
    seen = {v.signature for v in ctx.violations}
    for clause, hits in sorted(by_clause.items()):
        ctx.count("violations-" + clause, len(hits))
        hits.sort(key=lambda h: len(h[0]))
        for l, o in hits[:3]:
            small = shrinker(art, l, clause)
            sig = signature(clause, small, prop)
            if sig in seen:
                continue
            seen.add(sig)
            si, _, _ = evaluate(art, [small], want_model=False)
            ctx.violations.append(common.Violation(
                clause, sig, "%s: implementation `%s` violates %s" % (small[:300], (si or [o])[0][:300], clause),
                {"input": [small], "observed": (si or [o])[0], "judge": "violates " + clause, "found_in": tag,
                 "cases_with_this_clause": len(hits)}))


def explore(ctx, art):
    thorough = ctx.tier == "thorough"
    par = 16 if thorough else 8
    # 1. corpus first
    corpus = []
    for p in sorted(glob.glob(os.path.join(common.VERIF, "corpus", PROP, "*.json"))):
        corpus += json.load(open(p)).get("input", [])
    if corpus:
        impl, model, verd = evaluate(art, corpus, par=2)
        if impl is None:
            ctx.broken.append(("correspondence", "C01 harness run failed (corpus)", ""))
        else:
            process(ctx, art, corpus, impl, model, verd, "corpus")
            ctx.count("corpus-lines", len(corpus))
    # 2. generated cases
    cases, rng = gen_cases(ctx)
    lines = []
    distinct = set()
    for coder, m, cls in cases:
        ctx.count("class-" + cls)
        for k in G.classify(m, coder):
            ctx.count(coder + "-" + k)
        big = cls == "big" or len(G.body(m)) > 2000
        ops = ops_for(rng, coder, m, thorough, big)
        lines += ops
        for o in ops:
            ctx.count("op-" + o.split()[0])
        if G.nontrivial(m):
            distinct.add(coder + " " + G.fmt_msg(m))
    impl, model, verd = evaluate(art, lines, par=par)
    if impl is None:
        ctx.broken.append(("correspondence", "C01 harness run failed", ""))
        return
    if model is None or verd is None:
        ctx.broken.append(("model", "C01 driver run failed", ""))
    process(ctx, art, lines, impl, model, verd, "generated")
    ctx.cov["evaluations"] = len(lines) + len(corpus)
    ctx.cov["distinct_nontrivial"] = len(distinct)
    ctx.cov["traces_validated_against_impl"] = len(lines) if model is not None else 0
    ctx.cov["exhaustive"] = False
    ctx.cov["rule"] = ("messages: boundary products (delta x length over 0,1,12,13,14,268,269,270,.. for unknown option numbers, "
                       "every known option at its min/max length, stream length classes 0..12/13..268/269..65804/65805+, every "
                       "token length, every code byte) + seeded random well-formed messages (1 in 50 with 64 KiB values/payloads) "
                       "+ 1 in 6 outside the preconditions; per message: Size, Encode into every buffer length 0..size "
                       "(`encall`, canary window; sampled lengths for messages > 300 bytes), encode->decode, pooled "
                       "marshal/unmarshal (fresh and recycled with option capacity 0/1/3/16). distinct_nontrivial = distinct "
                       "(coder, message) with >= 1 option in a non-zero extension class or a payload.")
    for l, o in list(zip(lines, impl))[:2] + list(zip(lines, impl))[len(lines) // 2:len(lines) // 2 + 2] + list(zip(lines, impl))[-2:]:
        ctx.sample({"input": l[:400], "implementation": o[:400]})


def run(ctx):
    art = common.standard_prepare(ctx, MODULES, generated=GENERATED)
    if art.get("hx"):
        explore(ctx, art)
    return common.finish(ctx)


def replay(ctx, rep):
    art = common.standard_prepare(ctx, MODULES, generated=GENERATED)
    lines = rep.get("input") or []
    if not lines:
        print("replay file names no failing input:", rep.get("no_longer_checks"))
        return common.finish(ctx) if not art["proofs_ok"] else 0
    impl, model, verd = evaluate(art, lines)
    bad = 0
    for l, o, mo, v in zip(lines, impl or [], model or [""] * len(lines), verd or [""] * len(lines)):
        print("%s\n  implementation: %s\n  model:          %s\n  judge:          %s" % (l, o, mo, v))
        if v.startswith("violates"):
            bad += 1
    if bad:
        print("VIOLATION property=%s replay=(replayed) still reproduces" % PROP)
    return 1 if bad else 0
