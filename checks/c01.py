"""C01 — wire codecs are exact inverses on every well-formed message (DESIGN.md §5 C01).

Proof: lean/CoapVerif/Props/C01.lean over Model/{OptionCodec,UdpCoder,TcpCoder,PoolMessage}.lean, constants and
option tables regenerated from /repo (Generated/CodecConsts.lean, Generated/OptionDefs.lean).
Correspondence: seeded structured messages (boundary products of delta/length/stream-length classes, known and
unknown option numbers, repeated options, every token length, every code) are pushed through the real
Size/Encode/Decode and the pooled marshal/unmarshal (harness/c01), through the Lean model (drv_c01 model) and
through the judge written from RFC 7252 §3 / RFC 8323 §3.2 (drv_c01 judge).  `encall` encodes into every buffer
length 0..size inside a canary window.
"""
import concurrent.futures as cf
import glob
import hashlib
import json
import os
import random

from . import codecgen as G
from . import common

MODULES = ["CoapVerif.Props.C01", "CoapVerif.Findings.C01"]
GENERATED = ["CodecConsts.lean", "OptionDefs.lean", "PoolRetry.lean"]
PROP = "C01"


def par_pipe(cmd, lines, par=8):
    if not lines:
        return []
    if len(lines) < 64:
        rc, out, err = common.pipe_lines(cmd, lines)
        return out if rc == 0 and len(out) == len(lines) else None
    parts = [lines[i::par] for i in range(par)]
    with cf.ThreadPoolExecutor(par) as ex:
        res = list(ex.map(lambda p: common.pipe_lines(cmd, p), parts))
    out = [None] * len(lines)
    for i, (rc, o, err) in enumerate(res):
        if rc != 0 or len(o) != len(parts[i]):
            return None
        out[i::par] = o
    return out


def norm(o):
    return "panic" if o.startswith("panic") else o


def evaluate(art, lines, par=8, want_model=True):
    """(impl, model, verdicts) for input lines; model/verdicts None when the driver is missing."""
    impl = par_pipe([art["hx"]], lines, par)
    if impl is None:
        return None, None, None
    impl = [norm(o) for o in impl]
    model = verdicts = None
    if art.get("driver"):
        if want_model:
            model = par_pipe([art["driver"], "model"], lines, par)
        verdicts = par_pipe([art["driver"], "judge"], ["%s => %s" % (l, o) for l, o in zip(lines, impl)], par)
    return impl, model, verdicts


def ops_for(rng, coder, m, thorough, big):
    s = G.fmt_msg(m)
    size_est = len(G.encode_udp(m)) if coder == "udp" else len(G.encode_tcp(m))
    L = ["size %s %s" % (coder, s)]
    if size_est <= (400 if thorough else 300):
        L.append("encall %s %s" % (coder, s))
        if coder == "udp" and m["opts"]:
            L.append("omar x %s" % s)
    else:
        for cap in sorted({0, 1, 4, size_est - 1, size_est, size_est + 1, size_est + 9, rng.randrange(size_est + 1)}):
            if cap >= 0:
                L.append("enc %s %d %s" % (coder, cap, s))
    if size_est <= 2000:
        L.append("ptok %s %s" % (coder, s))     # token through pool.Message.SetToken, then MarshalWithEncoder
    n = len(m["opts"])
    L.append("rt %s %d %s" % (coder, rng.choice([n, n + 1, max(n, 16), max(n, 64)]), s))
    if n > 500:
        # many options: the pooled retry loop has to pass every capacity step
        L.append("pool %s fresh 0 %s" % (coder, s))
        L.append("pool %s recycled 0 %s" % (coder, s))
    elif not big or rng.random() < 0.3:
        kind, cap = rng.choice([("fresh", 0), ("recycled", 0), ("recycled", 1), ("recycled", 16), ("recycled", 3)])
        L.append("pool %s %s %d %s" % (coder, kind, cap, s))
    return L


def gen_cases(ctx):
    """[(coder, message dict, class)]"""
    rng = random.Random(ctx.seed * 1000003 + 17)
    thorough = ctx.tier == "thorough"
    cases = []
    for coder in ("udp", "tcp"):
        for m in G.boundary_msgs(rng, coder):
            cases.append((coder, m, "boundary"))
        for code in range(256):
            cases.append((coder, dict(typ=code % 4, mid=code * 257 % 65536, code=code, tok=G.rbytes(rng, code % 9),
                                      opts=[(11, b"c")] if code not in G.SIGNAL else [], pay=b"z" if code % 2 else b""), "code"))
    nrand = 40000 if thorough else 2200
    for k in range(nrand):
        coder = "udp" if rng.random() < 0.5 else "tcp"
        big = (k % 50 == 0)
        if k % 6 == 5:
            cases.append((coder, G.gen_invalid(rng, coder), "invalid"))
        else:
            cases.append((coder, G.gen_wf(rng, coder, big), "big" if big else "wf"))
    return cases, rng


STABLE = {"refuses-type-above-reset": "udp/coder.Encode accepts Type 4..255"}   # one call site = one finding (DESIGN §6-F15)


def signature(clause, line, prop=PROP):
    if clause in STABLE:
        return "%s:%s:%s" % (prop, clause, STABLE[clause])
    if len(line) > 300:
        line = line[:120] + "..sha1:" + hashlib.sha1(line.encode()).hexdigest()
    return "%s:%s:%s" % (prop, clause, line)


def shrink(art, line, clause):
    """Greedy shrinking of a message line while the judge still reports the same clause on the implementation."""
    f = line.split()
    op = f[0]
    nhead = {"size": 2, "encall": 2, "omar": 2, "ptok": 2, "enc": 3, "rt": 3, "pool": 4}.get(op)
    if nhead is None:
        return line
    head, mf = f[:nhead], f[nhead:]

    def parse(mf):
        k = int(mf[5])
        return mf[:5], mf[6:6 + k]

    def build(fix, opts):
        return " ".join(head + fix + [str(len(opts))] + opts)

    fix, opts = parse(mf)
    cur = build(fix, opts)
    for _ in range(12):
        cands = []
        for i in range(len(opts)):
            cands.append((fix, opts[:i] + opts[i + 1:]))
        for i, o in enumerate(opts):
            oid, _, v = o.partition(":")
            if v != "-":
                cands.append((fix, opts[:i] + ["%s:-" % oid] + opts[i + 1:]))
                if len(v) > 2:
                    cands.append((fix, opts[:i] + ["%s:%s" % (oid, v[:2])] + opts[i + 1:]))
        if fix[4] != "-":
            cands.append((fix[:4] + ["-"], opts))
            cands.append((fix[:4] + ["70"], opts))
        if fix[3] != "-" and len(fix[3]) <= 16:
            cands.append((fix[:3] + ["-"] + fix[4:], opts))
        if fix[1] not in ("0", "1") and 0 <= int(fix[1]) <= 65535:
            cands.append(([fix[0], "1"] + fix[2:], opts))
        if not cands:
            break
        lines = [build(a, b) for a, b in cands]
        impl, _, verd = evaluate(art, lines, par=4, want_model=False)
        if impl is None or verd is None:
            break
        hit = [i for i, v in enumerate(verd) if v == "violates " + clause]
        if not hit:
            break
        best = min(hit, key=lambda i: len(lines[i]))
        if len(lines[best]) >= len(cur):
            break
        fix, opts = cands[best]
        cur = lines[best]
    return cur


def process(ctx, art, lines, impl, model, verdicts, tag, shrinker=None, prop=PROP):
    """Correspondence diff + judge verdicts. Violations are grouped by clause, the shortest few inputs of each
    clause are minimised and reported once."""
    shrinker = shrinker or shrink
    by_clause = {}
    for i, (l, o) in enumerate(zip(lines, impl)):
        if o == "bad-op":
            ctx.broken.append(("correspondence", "%s harness rejected its input" % prop, l[:200]))
            continue
        if o == "hang-skipped":
            ctx.count("hang-skipped")
            continue
        if model is not None and model[i] != o and len([b for b in ctx.broken if b[0] == "correspondence"]) < 30:
            ctx.broken.append(("correspondence", "%s model vs implementation" % prop,
                               "%s: impl `%s` model `%s`" % (l[:300], o[:300], model[i][:300])))
        if verdicts is not None:
            v = verdicts[i]
            if v == "bad-op":
                ctx.broken.append(("model", "%s judge could not read the observation" % prop, "%s => %s" % (l[:200], o[:200])))
            elif v.startswith("violates"):
                by_clause.setdefault(v.split(" ", 1)[1], []).append((l, o))
            ctx.count("verdict-" + v.split()[0])
    seen = {v.signature for v in ctx.violations}
    for clause, hits in sorted(by_clause.items()):
        ctx.count("violations-" + clause, len(hits))
        hits.sort(key=lambda h: len(h[0]))
        for l, o in hits[:3]:
            small = shrinker(art, l, clause)
            sig = signature(clause, small, prop)
            if sig in seen:
                continue
            seen.add(sig)
            si, _, _ = evaluate(art, [small], want_model=False)
            ctx.violations.append(common.Violation(
                clause, sig, "%s: implementation `%s` violates %s" % (small[:300], (si or [o])[0][:300], clause),
                {"input": [small], "observed": (si or [o])[0], "judge": "violates " + clause, "found_in": tag,
                 "cases_with_this_clause": len(hits)}))


def explore(ctx, art):
    thorough = ctx.tier == "thorough"
    par = 16 if thorough else 8
    # 1. corpus first
    corpus = []
    for p in sorted(glob.glob(os.path.join(common.VERIF, "corpus", PROP, "*.json"))):
        corpus += [l for l in json.load(open(p)).get("input", []) if l.split()[0] not in ENTRY_OPS]
    if corpus:
        impl, model, verd = evaluate(art, corpus, par=2)
        if impl is None:
            ctx.broken.append(("correspondence", "C01 harness run failed (corpus)", ""))
        else:
            process(ctx, art, corpus, impl, model, verd, "corpus")
            ctx.count("corpus-lines", len(corpus))
    # 2. generated cases
    cases, rng = gen_cases(ctx)
    lines = []
    distinct = set()
    for coder, m, cls in cases:
        ctx.count("class-" + cls)
        for k in G.classify(m, coder):
            ctx.count(coder + "-" + k)
        big = cls == "big" or len(G.body(m)) > 2000
        ops = ops_for(rng, coder, m, thorough, big)
        lines += ops
        for o in ops:
            ctx.count("op-" + o.split()[0])
        if G.nontrivial(m):
            distinct.add(coder + " " + G.fmt_msg(m))
    impl, model, verd = evaluate(art, lines, par=par)
    if impl is None:
        ctx.broken.append(("correspondence", "C01 harness run failed", ""))
        return
    if model is None or verd is None:
        ctx.broken.append(("model", "C01 driver run failed", ""))
    process(ctx, art, lines, impl, model, verd, "generated")
    ctx.cov["evaluations"] = len(lines) + len(corpus)
    ctx.cov["distinct_nontrivial"] = len(distinct)
    ctx.cov["traces_validated_against_impl"] = len(lines) if model is not None else 0
    ctx.cov["exhaustive"] = False
    ctx.cov["rule"] = ("messages: boundary products (delta x length over 0,1,12,13,14,268,269,270,.. for unknown option numbers, "
                       "every known option at its min/max length, stream length classes 0..12/13..268/269..65804/65805+, every "
                       "token length, every code byte) + seeded random well-formed messages (1 in 50 with 64 KiB values/payloads) "
                       "+ 1 in 6 outside the preconditions; per message: Size, Encode into every buffer length 0..size "
                       "(`encall`, canary window; sampled lengths for messages > 300 bytes), encode->decode, pooled "
                       "marshal/unmarshal (fresh and recycled with option capacity 0/1/3/16). distinct_nontrivial = distinct "
                       "(coder, message) with >= 1 option in a non-zero extension class or a payload.")
    for l, o in list(zip(lines, impl))[:2] + list(zip(lines, impl))[len(lines) // 2:len(lines) // 2 + 2] + list(zip(lines, impl))[-2:]:
        ctx.sample({"input": l[:400], "implementation": o[:400]})


# ---------------------------------------------------------------- the same round trips through the real entry points

RX_OPTS = [4, 11, 11, 12, 15, 17, 2000, 2013, 300]
ENTRY_OPS = ("strm", "udpx", "usrv")


def rx_msg(rng, big=False):
    opts = []
    for oid in sorted(rng.sample(RX_OPTS, rng.randrange(0, 4))):
        ln = {4: rng.randrange(1, 9), 12: rng.randrange(0, 3), 17: rng.randrange(0, 3)}.get(oid, rng.choice([0, 1, 3, 13, 20]))
        opts.append((oid, G.rbytes(rng, ln)))
    pl = rng.choice([2100, 2500, 4096, 4100, 6000, 9000]) if big else rng.choice([0, 0, 1, 7, 40, 300])
    return {"typ": 0, "mid": 0, "code": rng.choice([1, 2, 3, 4, 65, 69, 132]), "tok": G.rbytes(rng, rng.randrange(9)),
            "opts": opts, "pay": bytes(rng.randrange(256) for _ in range(pl))}


def gen_entry_lines(ctx):
    """`strm`: streams of encoded messages through a real tcp session, chunk boundaries chosen around frame starts
    (0..20 bytes into the next frame), big messages (> connection cache) directly followed by others.
    `udpx`: request/response exchanges on a real udp connection with duplicates of earlier requests."""
    rng = random.Random(ctx.seed * 2750159 + 29)
    thorough = ctx.tier == "thorough"
    lines = []
    for k in range(900 if thorough else 120):
        n = rng.choice([2, 2, 3, 4, 6])
        msgs = [rx_msg(rng, big=(rng.random() < (0.6 if i < n - 1 else 0.2))) for i in range(n)]
        cache = rng.choice([2048, 2048, 2048, 1024, 300, 64])
        starts = []
        off = 0
        for m in msgs:
            starts.append(off)
            off += len(G.encode_tcp(m))
        cuts = set()
        for st in starts[1:]:
            r = rng.random()
            if r < 0.7:
                cuts.add(st + rng.choice([1, 2, 3, 5, 8, 12, 13, 14, 20, rng.randrange(1, 14)]))
            elif r < 0.85:
                cuts.add(st)
        for _ in range(rng.choice([0, 0, 1, 3])):
            cuts.add(rng.randrange(1, off))
        cuts = sorted(c for c in cuts if 0 < c < off)
        lines.append("strm %s %d %s %d %s" % (rng.choice(["client", "client", "server"]), cache,
                                              ",".join(map(str, cuts)) or "-", n, " ".join(G.fmt_msg(m) for m in msgs)))
    for k in range(600 if thorough else 100):
        nreq = rng.choice([2, 2, 3, 4, 6])
        steps = []
        mid0 = rng.randrange(1, 60000)
        made = 0
        while made < nreq:
            steps.append("r:%d:%s:%s" % (mid0 + made, G.hexs(G.rbytes(rng, rng.randrange(0, 9))),
                                         G.hexs(G.rbytes(rng, rng.choice([0, 1, 5, 5, 20, 100, 300])))))
            made += 1
            while made >= 2 and rng.random() < 0.5:
                steps.append("d:%d" % rng.randrange(made - 1))      # duplicate of an EARLIER request: another reply was sent since
        steps.append("d:0")
        lines.append("udpx %d %s" % (len(steps), " ".join(steps)))
    # a real udp.Server on a loopback socket: single datagrams around the MTU (1472) and the maximum message size
    for k in range(300 if thorough else 45):
        maxsize = rng.choice([0, 0, 0, 3000, 1600, 1473])
        top = 65000 if maxsize == 0 else maxsize
        sizes = [rng.choice([1400, 1471, 1472, 1473, 1474, 1500, 2000, 2048, 4096, 9000, 20000, 40000, top - 1, top,
                             rng.randrange(20, 3000)]) for _ in range(rng.choice([1, 2, 3]))]
        msgs = []
        for i, sz in enumerate(sizes):
            sz = max(20, min(sz, top))
            m = rx_msg(rng)
            m["typ"] = rng.randrange(2)
            m["mid"] = (7000 + 13 * k + i) % 65536
            m["code"] = rng.choice([1, 2, 3, 4])
            m["pay"] = b""
            base = len(G.encode_udp(m)) + 1
            m["pay"] = bytes(rng.randrange(256) for _ in range(max(1, sz - base)))
            msgs.append(m)
        lines.append("usrv %d %d %s" % (maxsize, len(msgs), " ".join(G.fmt_msg(m) for m in msgs)))
    return lines


def evaluate_entry(ctx, art, lines, tag="c01rx"):
    impl = common.run_test_harness(ctx, art["rx"], "TestC01RX", lines, tag=tag)
    if impl is None or len(impl) != len(lines):
        return None, None, None
    impl = [norm(o) for o in impl]
    model = verd = None
    if art.get("driver"):
        model = par_pipe([art["driver"], "model"], lines, 4)
        verd = par_pipe([art["driver"], "judge"], ["%s => %s" % (l, o) for l, o in zip(lines, impl)], 4)
    return impl, model, verd


def shrink_entry(ctx, art, line, clause):
    f = line.split()
    cands = [line]
    if f[0] == "udpx":
        st = f[2:]
        news = [x for x in st if x.startswith("r:")]
        for i in range(len(news)):
            for j in range(len(news)):
                if i != j:
                    cands.append("udpx 3 %s %s d:0" % (news[i], news[j]))
    cands = list(dict.fromkeys(cands))
    impl, _, verd = evaluate_entry(ctx, art, cands, tag="c01rxshrink")
    if impl is None or verd is None:
        return line
    hit = [c for c, v in zip(cands, verd) if v == "violates " + clause]
    return min(hit, key=len) if hit else line


def explore_entry(ctx, art):
    if not art.get("rx"):
        return 0
    corpus = []
    for p in sorted(glob.glob(os.path.join(common.VERIF, "corpus", PROP, "*.json"))):
        corpus += [l for l in json.load(open(p)).get("input", []) if l.split()[0] in ENTRY_OPS]
    lines = corpus + gen_entry_lines(ctx)
    impl, model, verd = evaluate_entry(ctx, art, lines)
    if impl is None:
        ctx.broken.append(("correspondence", "C01 entry-point harness run failed", ""))
        return 0
    if model is None or verd is None:
        ctx.broken.append(("model", "C01 driver run failed (entry points)", ""))
    hits = {}
    for i, (l, o) in enumerate(zip(lines, impl)):
        ctx.count("op-" + l.split()[0])
        if o.startswith("panic") or o in ("bad-op", "conn-error"):
            ctx.violations.append(common.Violation("no-crash", signature("no-crash", l), "%s -> %s" % (l[:200], o[:200]),
                                                   {"input": [l], "observed": o}))
            continue
        if model is not None and model[i] != o and len([b for b in ctx.broken if b[0] == "correspondence"]) < 30:
            ctx.broken.append(("correspondence", "C01 model vs implementation (entry points)",
                               "%s: impl `%s` model `%s`" % (l[:200], o[:300], model[i][:300])))
        if verd is not None:
            ctx.count("verdict-" + verd[i].split()[0])
            if verd[i] == "bad-op":
                ctx.broken.append(("model", "C01 judge could not read the observation", "%s => %s" % (l[:200], o[:200])))
            if verd[i].startswith("violates"):
                hits.setdefault(verd[i].split(" ", 1)[1], []).append((l, o))
    what = {"datagram-roundtrip": "a well-formed message sent as one datagram to a real udp server did not reach the handler as the same message",
            "stream-roundtrip": "a stream of encoded well-formed messages was not delivered as the same messages",
            "reply-roundtrip": "a datagram the connection sent does not decode to the message the application set for that exchange"}
    for clause, hs in sorted(hits.items()):
        ctx.count("violations-" + clause, len(hs))
        hs.sort(key=lambda h: len(h[0]))
        seen = set()
        for l, o in hs[:3]:
            small = shrink_entry(ctx, art, l, clause)
            if small in seen:
                continue
            seen.add(small)
            si, _, _ = evaluate_entry(ctx, art, [small], tag="c01rxone")
            ctx.violations.append(common.Violation(
                clause, signature(clause, small), "%s: %s: `%s`" % (small[:300], what.get(clause, clause), (si or [o])[0][:300]),
                {"input": [small], "observed": (si or [o])[0], "judge": "violates " + clause, "cases_with_this_clause": len(hs)}))
    return len(lines)


def prepare(ctx):
    art = common.standard_prepare(ctx, MODULES, generated=GENERATED)
    with common.Lock():
        art["rx"] = common.build_test(ctx, "c01rx")
    return art


def run(ctx):
    art = prepare(ctx)
    if art.get("hx"):
        explore(ctx, art)
        n = explore_entry(ctx, art)
        ctx.cov["evaluations"] += n
        ctx.cov["traces_validated_against_impl"] += n
        ctx.cov["rule"] += (" Entry points: %d cases — streams of 2..6 encoded messages (1 in 2 larger than the connection cache) "
                            "through a real tcp.Client / tcp.Server-made session in chunks cut 0..20 bytes into the following frame, "
                            "and request/response exchanges with duplicates on a real udp connection; judged for stream-roundtrip / "
                            "reply-roundtrip." % n)
    return common.finish(ctx)


def replay(ctx, rep):
    art = prepare(ctx)
    lines = rep.get("input") or []
    if not lines:
        print("replay file names no failing input:", rep.get("no_longer_checks"))
        return common.finish(ctx) if not art["proofs_ok"] else 0
    if lines[0].split()[0] in ENTRY_OPS:
        impl, model, verd = evaluate_entry(ctx, art, lines, tag="replay")
    else:
        impl, model, verd = evaluate(art, lines)
    bad = 0
    for l, o, mo, v in zip(lines, impl or [], model or [""] * len(lines), verd or [""] * len(lines)):
        print("%s\n  implementation: %s\n  model:          %s\n  judge:          %s" % (l, o, mo, v))
        if v.startswith("violates"):
            bad += 1
    if bad:
        print("VIOLATION property=%s replay=(replayed) still reproduces" % PROP)
    return 1 if bad else 0
