"""C02 — decoders are total, safe and canonicalising on arbitrary bytes (DESIGN.md §5 C02).

Proof: lean/CoapVerif/Props/C02.lean (no-panic over checked slicing for all byte strings, decoder = reference
parser, accepted => well-formed => re-encodes to a fixpoint, termination measure of the pooled retry, views own).
Correspondence / judge: byte strings — exhaustive short strings over a reduced alphabet (every first-byte /
nibble / marker class), truncations of valid encodings at every offset, bit / nibble / length-field mutations,
trailing bytes, delta chains crossing 65535, registry min-1/min/max/max+1 lengths — through Decode of both
coders (+ re-encode + decode again), DecodeHeader, and the pooled UnmarshalWithDecoder on fresh and recycled
messages (option capacity 0/1/16) with a per-operation watchdog and an overwrite-the-caller's-buffer aliasing test.
The judge is the RFC 7252 §3 / RFC 8323 §3.2 reference parser of Spec/Rfc7252Parse.lean, Spec/Rfc8323Parse.lean.
"""
import glob
import itertools
import json
import os
import random

from . import c01 as X
from . import codecgen as G
from . import common

MODULES = ["CoapVerif.Props.C02", "CoapVerif.Findings.C02"]
GENERATED = ["CodecConsts.lean", "OptionDefs.lean", "PoolRetry.lean"]
PROP = "C02"

ALPHA_Q = [0x00, 0x01, 0x0d, 0x10, 0x11, 0xd0, 0xe0, 0xf0, 0xff, 0x61]
ALPHA_T = [0x00, 0x01, 0x0d, 0x0e, 0x0f, 0x10, 0x11, 0xd0, 0xd1, 0xe0, 0xe1, 0xf0, 0xff, 0x61]
TCP_FIRST = [0x00, 0x01, 0x08, 0x09, 0x0f, 0x10, 0x20, 0x21, 0x30, 0xc0, 0xd0, 0xd1, 0xe0, 0xe8, 0xf0, 0xf1, 0xf9]
UDP_FIRST = [0x40, 0x41, 0x48, 0x49, 0x4f, 0x50, 0x60, 0x70, 0x00, 0x80, 0xc0]


def hx(b):
    return bytes(b).hex() or "-"


def exhaustive(thorough):
    """Byte strings: (bytes, coder)."""
    out = []
    # (alphabet, max length) grids; thorough adds a wider alphabet at one length less
    grids_udp = [(ALPHA_Q, 6), (ALPHA_T, 5)] if thorough else [(ALPHA_Q, 5)]
    grids_tcp = [(ALPHA_Q, 5), (ALPHA_T, 4)] if thorough else [(ALPHA_Q, 4)]
    # option areas behind a minimal datagram header, and behind a one-byte token
    for alpha, maxlen in grids_udp:
        for n in range(0, maxlen + 1):
            for t in itertools.product(alpha, repeat=n):
                out.append((bytes([0x40, 0x01, 0x12, 0x34]) + bytes(t), "udp"))
        for n in range(0, maxlen - 1):
            for t in itertools.product(alpha, repeat=n):
                out.append((bytes([0x51, 0x45, 0xff, 0xff, 0xaa]) + bytes(t), "udp"))
    # whole short datagrams: every first-byte class
    for fb in UDP_FIRST:
        for n in range(0, 4):
            for t in itertools.product(ALPHA_T[:8], repeat=n):
                out.append((bytes([fb]) + bytes(t), "udp"))
    # stream frames: every first-byte class, then everything over the alphabet
    for alpha, maxlen in grids_tcp:
        for fb in TCP_FIRST:
            for n in range(0, maxlen + 1):
                for t in itertools.product(alpha, repeat=n):
                    out.append((bytes([fb]) + bytes(t), "tcp"))
    out.append((b"", "udp"))
    out.append((b"", "tcp"))
    return out


def raw_opts(pairs):
    """Option area from raw (delta, value) pairs (deltas may make the number overflow)."""
    o = bytearray()
    for d, v in pairs:
        dn, dx = G.ext(d)
        ln, lx = G.ext(len(v))
        o.append(dn << 4 | ln)
        o += dx + lx + v
    return bytes(o)


def frame_tcp(body, tok=b"", code=1):
    return G.encode_tcp({"tok": tok, "code": code, "opts": [], "pay": b""})[:0] + _tcp(body, tok, code)


def _tcp(body, tok, code):
    n = len(body)
    if n < 13:
        nib, x = n, b""
    elif n < 269:
        nib, x = 13, bytes([n - 13])
    elif n < 65805:
        nib, x = 14, (n - 269).to_bytes(2, "big")
    else:
        nib, x = 15, (n - 65805).to_bytes(4, "big")
    return bytes([nib << 4 | len(tok)]) + x + bytes([code]) + tok + body


def shrinking_input(rng, coder, target, layout):
    """An encoding of exactly `target` bytes (where reachable) that decodes to a much smaller message."""
    def build(big):
        keep_tail = [(11, G.rbytes(rng, 3)), (2000, G.rbytes(rng, 5))]
        if layout == 0:      # oversize ETag (1..8 legal) in front, everything kept behind it
            pairs = [(4, bytes(big))] + [(7, keep_tail[0][1]), (1989, keep_tail[1][1])]
        elif layout == 1:    # option number 0 with a long value in front
            pairs = [(0, bytes(big))] + [(11, keep_tail[0][1]), (1989, keep_tail[1][1])]
        elif layout == 2:    # kept If-Match first, then an oversize Uri-Host (1..255 legal), kept options behind
            pairs = [(1, b"im"), (2, bytes(max(big, 256))), (8, keep_tail[0][1]), (1989, keep_tail[1][1])]
        else:                # two dropped options (Content-Format with > 2 bytes), no kept option, payload only
            pairs = [(12, bytes(big // 2 + 3)), (0, bytes(big - big // 2 + 3))]
        body = raw_opts(pairs) + b"\xff" + G.rbytes(rng, 7)
        if coder == "udp":
            return bytes([0x44, 0x02, 0x12, 0x34]) + b"tokn" + body
        return _tcp(body, b"tokn", 2)
    big = max(1, target - 40)
    for _ in range(80):
        b = build(big)
        if len(b) == target:
            return b
        big = max(1, big + (target - len(b)))
    return build(big)


def structured(rng, thorough):
    out = []
    # registry bounds: min-1 / min / max / max+1 for every known option; signalling tables under their codes
    for oid, (lo, hi) in sorted(G.KNOWN.items()):
        for ln in sorted({max(0, lo - 1), lo, hi, hi + 1}):
            body = raw_opts([(oid, G.rbytes(rng, ln))]) + b"\xffpp"
            out.append((bytes([0x42, 0x02, 0, 7, 1, 2]) + body, "udp"))
            out.append((_tcp(body, b"\x01", 2), "tcp"))
    for code, tbl in G.SIGNAL.items():
        for oid, (lo, hi) in tbl.items():
            for ln in sorted({max(0, lo - 1), lo, hi, hi + 1}):
                out.append((_tcp(raw_opts([(oid, G.rbytes(rng, ln))]), b"", code), "tcp"))
                out.append((_tcp(raw_opts([(oid, G.rbytes(rng, ln)), (2, b"")]), b"", code), "tcp"))
    # option number 0, delta chains around 65535
    for pairs in ([(0, b"zero")], [(0, b""), (0, b"a"), (11, b"x")], [(65535, b"")], [(65535, b"a"), (0, b"b")],
                  [(65535, b"a"), (1, b"b")], [(65000, b""), (535, b"q")], [(65000, b""), (536, b"q")],
                  [(300, b"")] * 218 + [(135, b"end")], [(300, b"")] * 218 + [(136, b"end")],
                  [(65535, b""), (65535, b"")], [(65804, b"")], [(13, b""), (269, b""), (12, b"")]):
        body = raw_opts(pairs)
        out.append((bytes([0x40, 0x01, 0, 1]) + body, "udp"))
        out.append((_tcp(body, b"", 1), "tcp"))
    # payload marker followed by nothing / marker only / double marker
    for body in (b"\xff", b"\xb1a\xff", b"\xff\xff", b"\xff\xffx", b"\xb1a\xff\xff"):
        out.append((bytes([0x40, 0x01, 0, 1]) + body, "udp"))
        out.append((_tcp(body, b"", 1), "tcp"))
    # many options (capacity retry): 15, 16, 17, 32, 33, 64, 65 kept options, some with dropped ones in between
    for n in (1, 2, 15, 16, 17, 31, 32, 33, 64, 65, 130):
        for dropped in (False, True):
            pairs = []
            for i in range(n):
                pairs.append((1 if i % 3 == 0 else 0, bytes([i % 251])))
                if dropped and i % 4 == 1:
                    pairs.append((0, b""))
            pairs = [(2000, b"k")] + pairs
            if dropped:
                # registry-illegal (dropped) option in front: If-None-Match (5) with a value
                pairs = [(5, b"xx")] + [(1995, b"k")] + pairs[1:]
            body = raw_opts(pairs) + b"\xffpayload"
            out.append((bytes([0x44, 0x45, 0xab, 0xcd, 1, 2, 3, 4]) + body, "udp"))
            out.append((_tcp(body, b"\x09\x08", 0x45), "tcp"))
    # option counts around every power of two (the pooled retry doubles the capacity: 16, 32, … must all be passed);
    # empty options with delta 0/1 keep the input small.  Kept (If-Match, empty), dropped (ETag, empty), half and half.
    counts = [127, 128, 129, 255, 256, 257, 511, 512, 513, 1023, 1024, 1025, 1026, 2047, 2048, 2049, 4095, 4096, 4097]
    if thorough:
        counts += [8191, 8192, 8193, 16385, 32769]
    for n in counts:
        for first, second in ((1, None), (4, None), (1, 3)):
            if second is None:
                body = bytes([first << 4]) + b"\x00" * (n - 1)
            else:
                body = bytes([first << 4]) + b"\x00" * (n // 2 - 1) + bytes([second << 4]) + b"\x00" * (n - n // 2 - 1)
            out.append((bytes([0x40, 0x01, n >> 8 & 0xff, n & 0xff]) + body, "udp"))
            out.append((_tcp(body + b"\xffp", b"\x07", 1), "tcp"))
    # inputs of 256/257 … 512/513 bytes whose re-encoding is much shorter (a documented leniency drops an oversize
    # option), with the kept fields lying behind offset 256: pool.Message decodes into one of its scratch buffers and
    # re-encodes into another; the decoded message must not change under its own re-encoding
    for target in (200, 255, 256, 257, 258, 300, 384, 400, 511, 512, 513, 514, 600, 1023, 1024, 1025, 1100):
        for layout in range(4):
            for coder in ("udp", "tcp"):
                out.append((shrinking_input(rng, coder, target, layout), coder))
    # stream length classes and declared lengths that do not fit 32 bits
    for n in (0, 12, 13, 268, 269, 300):
        out.append((_tcp(b"\xff" + b"p" * (n - 1) if n else b"", b"", 1), "tcp"))
    for first in (b"\xf0\xff\xff\xff\xff\x01", b"\xf0\xff\xfe\xfe\xf3\x01", b"\xf0\xff\xfe\xfe\xf2\x01", b"\xf8\xff\xfe\xfe\xea\x01",
                  b"\xf8\xff\xfe\xfe\xeb\x01" + b"t" * 8, b"\xf0\x00\x00\x00\x00\x01", b"\xe0\x00\x00\x01", b"\xd0\x00\x01"):
        out.append((first, "tcp"))
    return out


def mutations(rng, base, coder, thorough):
    """Truncations at every offset and byte-level mutations of one valid encoding."""
    out = []
    n = len(base)
    cuts = range(n + 1) if n <= 160 else sorted({0, 1, 2, 3, 4, 5, n - 2, n - 1, n} | {rng.randrange(n) for _ in range(24)})
    for c in cuts:
        out.append(base[:c])
    k = 24 if thorough else 10
    for _ in range(k):
        b = bytearray(base)
        if not b:
            break
        r = rng.random()
        i = rng.randrange(min(len(b), 40)) if rng.random() < 0.7 else rng.randrange(len(b))
        if r < 0.3:
            b[i] ^= 1 << rng.randrange(8)
        elif r < 0.55:
            b[i] = (b[i] & 0x0f) | rng.choice([0, 0xc0, 0xd0, 0xe0, 0xf0])
        elif r < 0.8:
            b[i] = (b[i] & 0xf0) | rng.choice([0, 8, 9, 0xc, 0xd, 0xe, 0xf])
        elif r < 0.9:
            b[i] = rng.choice([0xff, 0x00, 0xd0, 0xe0])
        else:
            del b[i]
        out.append(bytes(b))
    # trailing bytes after a complete message / frame
    for extra in (b"\x00", b"\xff", b"\x01\x02\x03", b"\xb1a"):
        out.append(base + extra)
    # token length rewritten to every value
    if base:
        for tkl in (0, 8, 9, 12, 15):
            out.append(bytes([(base[0] & 0xf0) | tkl]) + base[1:])
    return out


def gen_lines(ctx):
    rng = random.Random(ctx.seed * 7919 + 3)
    thorough = ctx.tier == "thorough"
    items = []          # (bytes, coder, origin)
    for b, c in exhaustive(thorough):
        items.append((b, c, "exhaustive"))
    for b, c in structured(rng, thorough):
        items.append((b, c, "structured"))
    nvalid = 3000 if thorough else 400
    for k in range(nvalid):
        coder = "udp" if k % 2 == 0 else "tcp"
        m = G.gen_wf(rng, coder, big=(k % 40 == 0))
        base = G.encode_udp(m) if coder == "udp" else G.encode_tcp(m)
        items.append((base, coder, "valid"))
        if len(base) < 3000:
            for mb in mutations(rng, base, coder, thorough):
                items.append((mb, coder, "mutation"))
        # the other coder sees the same bytes too (cross-protocol confusion)
        if k % 5 == 0:
            items.append((base, "tcp" if coder == "udp" else "udp", "cross"))
    # valid messages plus one option that a documented leniency drops (known option, registry-illegal length): the
    # pooled decode keeps less than it read, the re-encoding from the same pooled message is shorter than the input
    for k in range(nvalid // 2):
        coder = "udp" if k % 2 == 0 else "tcp"
        m = G.gen_wf(rng, coder, big=False)
        oid = rng.choice(sorted(G.KNOWN))
        lo, hi = G.KNOWN[oid]
        extra = (oid, G.rbytes(rng, hi + 1 + rng.choice([0, 1, 20, 200, 260, 300, 500])))
        m["opts"] = sorted(m["opts"] + [extra], key=lambda o: o[0])
        if m["code"] in G.SIGNAL and coder == "tcp":
            m["code"] = 2
        items.append((G.encode_udp(m) if coder == "udp" else G.encode_tcp(m), coder, "lenient"))
    nrand = 3000 if thorough else 600
    for _ in range(nrand):
        n = rng.choice([1, 2, 3, 4, 5, 6, 8, 12, 20])
        b = bytes(rng.choice(ALPHA_T + [rng.randrange(256)]) for _ in range(n))
        items.append((b, rng.choice(["udp", "tcp"]), "random"))
    for tkl in (0, 1, 8):
        for pay in (b"", b"\xffp"):
            for opts in (b"", b"\xb1a"):
                tok = bytes(range(0x31, 0x31 + tkl))
                items.append((bytes([0x60 | tkl, 0x00 if not (opts or pay) else 0x45, 0x42, 0x42]) + tok + opts + pay, "udp", "structured"))
                body = opts + pay
                items.append((bytes([len(body) << 4 | tkl, 0x45]) + tok + body, "tcp", "structured"))
    lines = []
    seen = set()
    for b, coder, origin in items:
        key = (b, coder)
        if key in seen:
            continue
        seen.add(key)
        h = hx(b)
        ctx.count("origin-" + origin)
        lines.append("dec %s %d %s" % (coder, 64 if origin != "structured" else 256, h))
        if coder == "tcp":
            lines.append("hdr %s" % h)
        pooled = origin in ("structured", "valid", "cross", "lenient") or (origin in ("mutation", "random") and rng.random() < 0.35) \
            or (origin == "exhaustive" and rng.random() < (0.01 if thorough else 0.03))
        if pooled:
            kind, cap = rng.choice([("fresh", 0), ("recycled", 0), ("recycled", 1), ("recycled", 16), ("recycled", 2), ("loaded", 0)])
            lines.append("pdec %s %s %d %s" % (coder, kind, cap, h))
            if origin in ("structured", "valid", "lenient") or (len(b) <= 12 and rng.random() < 0.5):
                # target message that already carries a token and a body (udp/client's response cache decodes like this)
                lines.append("pdec %s loaded 0 %s" % (coder, h))
            if origin == "structured":
                lines.append("pdec %s recycled 0 %s" % (coder, h))
                lines.append("pdec %s fresh 0 %s" % (coder, h))
                lines.append("dec %s %d %s" % (coder, rng.choice([0, 1, 2, 16]), h))
    return lines


def shrink(art, line, clause):
    """Byte-string shrinking: drop a byte / chunk while the judge still reports the same clause."""
    f = line.split()
    try:
        data = bytes.fromhex(f[-1]) if f[-1] != "-" else b""
    except ValueError:
        return line
    head = f[:-1]
    cur = data
    for _ in range(10):
        cands = []
        n = len(cur)
        if n == 0:
            break
        for size in sorted({1, 2, 4, max(1, n // 4), max(1, n // 2)}):
            for i in range(0, n - size + 1, max(1, size // 2) if size > 4 else 1):
                cands.append(cur[:i] + cur[i + size:])
            if len(cands) > 300:
                break
        cands = list(dict.fromkeys(cands))[:400]
        lines = [" ".join(head + [hx(c)]) for c in cands]
        impl, _, verd = X.evaluate(art, lines, par=4, want_model=False)
        if impl is None or verd is None:
            break
        hit = [i for i, v in enumerate(verd) if v == "violates " + clause]
        if not hit:
            break
        cur = cands[min(hit, key=lambda i: len(cands[i]))]
    return " ".join(head + [hx(cur)])



# ---------------------------------------------------------------- receive paths (owns-its-bytes)

RX_OPTS = [4, 11, 11, 12, 15, 17, 2000, 2013, 300]
RX_OPS = ("rxtcp", "rxudp", "rxmon", "usrv2", "rxack")


def rx_msg(rng, mid):
    opts = []
    for oid in sorted(rng.sample(RX_OPTS, rng.randrange(0, 4))):
        ln = {4: rng.randrange(1, 9), 12: rng.randrange(0, 3), 17: rng.randrange(0, 3)}.get(oid, rng.choice([0, 1, 3, 13, 20]))
        opts.append((oid, G.rbytes(rng, ln)))
    return {"typ": rng.randrange(2), "mid": mid, "code": rng.randrange(1, 5), "tok": G.rbytes(rng, rng.randrange(9)),
            "opts": opts, "pay": G.rbytes(rng, rng.choice([0, 0, 1, 7, 40, 300]))}


def gen_rx_lines(ctx):
    """Connection-level cases: pipelined stream frames / datagrams through one reused buffer."""
    rng = random.Random(ctx.seed * 104729 + 11)
    n = 1200 if ctx.tier == "thorough" else 160
    lines = []
    for k in range(n):
        if k % 2 == 0:
            na = rng.choice([1, 1, 2, 3, 5, 8])
            a = [G.encode_tcp(rx_msg(rng, 0)) for _ in range(na)]
            if k % 4 == 0:
                # a frame larger than the connection cache (2048) followed in the same write by small complete frames
                bigm = rx_msg(rng, 0)
                bigm["pay"] = G.rbytes(rng, rng.choice([2049, 2100, 3000, 4096, 5000, 9000, 20000]))
                a.insert(rng.randrange(0, max(1, len(a) - 1)), G.encode_tcp(bigm))
                if a[-1] is a[0] or len(a) < 2:
                    a.append(G.encode_tcp(rx_msg(rng, 0)))
            b = []
            if sum(map(len, a)) > 2000:
                # later traffic as long as the first batch, in few frames (the receive queue holds 128 messages)
                filler = rx_msg(rng, 0)
                filler["pay"] = G.rbytes(rng, sum(map(len, a)))
                b.append(G.encode_tcp(filler))
            while sum(map(len, b)) < sum(map(len, a)) + 16 or len(b) < 1:
                b.append(G.encode_tcp(rx_msg(rng, 0)))
            split = rng.choice([0, 0, 1, 2, 3, 5, 7, 16, rng.randrange(1, 64)])
            if k % 4 == 0:
                split = rng.choice([0, 0, 0, 4096, 1000])
            lines.append("rxtcp %d %d %d %s" % (split, len(a), len(b), " ".join(hx(f) for f in a + b)))
        else:
            nd = rng.choice([2, 2, 3, 5, 9])
            d = [G.encode_udp(rx_msg(rng, 1000 + 7 * k + i)) for i in range(nd)]
            lines.append("rxudp %d %s" % (nd, " ".join(hx(x) for x in d)))
    return lines


def gen_rxmon_lines(ctx):
    """Connections with a request monitor that drops code 0.04: a dropped frame directly followed by other frames."""
    rng = random.Random(ctx.seed * 15485863 + 5)
    n = 600 if ctx.tier == "thorough" else 90
    lines = []
    for k in range(n):
        via = ("tcp-client", "tcp-server", "udp")[k % 3]
        cnt = rng.choice([2, 2, 3, 4, 6, 9])
        msgs = []
        for i in range(cnt):
            m = rx_msg(rng, 3000 + 11 * k + i)
            m["code"] = rng.choice([1, 2, 3])
            msgs.append(m)
        # at least one dropped message that is not the last, with options and a payload of its own; the message behind
        # it sometimes has neither
        j = rng.randrange(cnt - 1)
        msgs[j]["code"] = 4
        msgs[j]["opts"] = sorted(msgs[j]["opts"] + [(11, b"dropped")], key=lambda o: o[0])
        msgs[j]["pay"] = G.rbytes(rng, rng.choice([1, 5, 30]))
        if rng.random() < 0.5:
            msgs[j + 1]["pay"] = b""
        if rng.random() < 0.3:
            msgs[j + 1]["opts"] = []
        for i in range(cnt):
            if i != j and rng.random() < 0.2:
                msgs[i]["code"] = 4
        enc = G.encode_udp if via == "udp" else G.encode_tcp
        split = rng.choice([0, 0, 0, 1, 3, 7, 16, 64])
        lines.append("rxmon %s %d %d %s" % (via, split, cnt, " ".join(hx(enc(m)) for m in msgs)))
    return lines


def gen_rxack_lines(ctx):
    """Confirmable requests answered by an Empty ACK (handler sets no response), then duplicates of them."""
    rng = random.Random(ctx.seed * 49979687 + 7)
    lines = []
    for k in range(200 if ctx.tier == "thorough" else 30):
        nreq = rng.choice([1, 2, 3, 5])
        steps = []
        for i in range(nreq):
            steps.append("r:%d:%s:%s" % ((9000 + 31 * k + i) % 65536, hx(G.rbytes(rng, rng.choice([0, 1, 4, 8, 8]))),
                                         hx(G.rbytes(rng, rng.choice([0, 3, 20])))))
            if rng.random() < 0.6:
                steps.append("d:%d" % rng.randrange(i + 1))
        steps.append("d:0")
        lines.append("rxack %d %s" % (len(steps), " ".join(steps)))
    return lines


def gen_usrv2_lines(ctx):
    """A real udp.Server (loopback socket) with a slow OnNewConn callback: the first datagrams of several peers back to back."""
    rng = random.Random(ctx.seed * 32452843 + 3)
    n = 300 if ctx.tier == "thorough" else 40
    lines = []
    for k in range(n):
        np_ = rng.choice([2, 2, 3, 4, 6])
        sends = []
        for p in range(np_):
            sends.append((p, G.encode_udp(rx_msg(rng, 100 + 17 * k + p))))
        for p in range(np_):
            if rng.random() < 0.4:
                sends.append((p, G.encode_udp(rx_msg(rng, 5000 + 17 * k + p))))
        lines.append("usrv2 %d %d %d %s" % (rng.choice([3, 5, 8]), np_, len(sends), " ".join("%d:%s" % (p, hx(d)) for p, d in sends)))
    return lines


def evaluate_rx(ctx, art, lines, tag="rx"):
    impl = common.run_test_harness(ctx, art["rx"], "TestC02RX", lines, tag=tag)
    if impl is None or len(impl) != len(lines):
        return None, None, None
    impl = [X.norm(o) for o in impl]
    model = verd = None
    if art.get("driver"):
        model = X.par_pipe([art["driver"], "model"], lines, 4)
        verd = X.par_pipe([art["driver"], "judge"], ["%s => %s" % (l, o) for l, o in zip(lines, impl)], 4)
    return impl, model, verd


def shrink_rx(ctx, art, line, clause="owns-its-bytes"):
    """Fewer frames while the judge still reports the clause."""
    f = line.split()
    cands = []
    if f[0] == "rxtcp":
        na, nb = int(f[2]), int(f[3])
        a, b = f[4:4 + na], f[4 + na:]
        for aa in ([a[0]], a):
            for bb in ([b[0]], b[:2], b):
                for sp in ("0", f[1]):
                    cands.append("rxtcp %s %d %d %s" % (sp, len(aa), len(bb), " ".join(aa + bb)))
    elif f[0] == "rxack":
        news = [x for x in f[2:] if x.startswith("r:")]
        for x in news:
            cands.append("rxack 2 %s d:0" % x)
        cands.append(line)
    elif f[0] == "usrv2":
        first = {}
        for x in f[4:]:
            first.setdefault(x.split(":")[0], x)
        xs = list(first.values())
        for i in range(len(xs)):
            for j in range(len(xs)):
                if i != j:
                    cands.append("usrv2 %s 2 2 0:%s 1:%s" % (f[1], xs[i].split(":")[1], xs[j].split(":")[1]))
        cands.append(line)
    elif f[0] == "rxmon":
        fr = f[4:]
        for i in range(len(fr) - 1):
            for sp in ("0", f[2]):
                cands.append("rxmon %s %s 2 %s %s" % (f[1], sp, fr[i], fr[i + 1]))
        cands.append(line)
    else:
        d = f[2:]
        for dd in ([d[0]], d[:2], d):
            cands.append("rxudp %d %s" % (len(dd), " ".join(dd)))
    cands = list(dict.fromkeys(cands))
    impl, _, verd = evaluate_rx(ctx, art, cands, tag="rxshrink")
    if impl is None or verd is None:
        return line
    hit = [c for c, v in zip(cands, verd) if v == "violates " + clause]
    return min(hit, key=len) if hit else line


def explore_rx(ctx, art):
    if not art.get("rx"):
        return
    corpus = []
    for p in sorted(glob.glob(os.path.join(common.VERIF, "corpus", PROP, "*.json"))):
        corpus += [l for l in json.load(open(p)).get("input", []) if l.split()[0] in RX_OPS]
    lines = corpus + gen_rx_lines(ctx) + gen_rxmon_lines(ctx) + gen_usrv2_lines(ctx) + gen_rxack_lines(ctx)
    impl, model, verd = evaluate_rx(ctx, art, lines)
    if impl is None:
        ctx.broken.append(("correspondence", "C02 receive-path harness run failed", ""))
        return
    if model is None or verd is None:
        ctx.broken.append(("model", "C02 driver run failed (receive paths)", ""))
    hits = {}
    delivered = 0
    for i, (l, o) in enumerate(zip(lines, impl)):
        ctx.count("op-" + l.split()[0])
        of = o.split()
        if len(of) > 1 and of[0] in ("rx", "rxm", "usrv2") and of[1].isdigit():
            delivered += int(of[1])
        if o.startswith("panic") or o in ("bad-op", "conn-error"):
            ctx.violations.append(common.Violation("no-crash", X.signature("no-crash", l, PROP), "%s -> %s" % (l[:200], o[:200]),
                                                   {"input": [l], "observed": o}))
            continue
        if model is not None and model[i] != o and len([b for b in ctx.broken if b[0] == "correspondence"]) < 30:
            ctx.broken.append(("correspondence", "C02 model vs implementation (receive path)",
                               "%s: impl `%s` model `%s`" % (l[:300], o[:300], model[i][:300])))
        if verd is not None:
            ctx.count("verdict-" + verd[i].split()[0])
            if verd[i].startswith("violates"):
                hits.setdefault(verd[i].split(" ", 1)[1], []).append((l, o))
    ctx.cov["rx_messages_delivered"] = delivered
    what = {"each-frame-once": "the stream session did not deliver exactly the frames of the stream, once each",
            "cached-reply-as-sent": "a reply re-sent from the response cache (decoded into a response message that already carried the "
                                    "request's token) is not the datagram that was sent the first time",
            "each-peer-gets-its-own-bytes": "a peer's message was decoded from bytes another peer sent (the receive buffer was reused "
                                            "before the datagram was processed)",
            "owns-its-bytes": "a message still queued / in its handler changed when later input was read",
            "reused-message-as-fresh": "a message decoded behind a frame the request monitor dropped does not have the fields of "
                                       "its own bytes"}
    for clause, hs in sorted(hits.items()):
        ctx.count("violations-" + clause, len(hs))
        hs.sort(key=lambda h: len(h[0]))
        seen = set()
        for l, o in hs[:3]:
            small = shrink_rx(ctx, art, l, clause)
            if small in seen:
                continue
            seen.add(small)
            si, _, _ = evaluate_rx(ctx, art, [small], tag="rxone")
            ctx.violations.append(common.Violation(
                clause, X.signature(clause, small, PROP),
                "%s: %s: `%s`" % (small[:300], what.get(clause, clause), (si or [o])[0][:400]),
                {"input": [small], "observed": (si or [o])[0], "judge": "violates " + clause,
                 "cases_with_this_clause": len(hs)}))
    return len(lines)


def explore(ctx, art):
    thorough = ctx.tier == "thorough"
    par = 16 if thorough else 8
    corpus = []
    for p in sorted(glob.glob(os.path.join(common.VERIF, "corpus", PROP, "*.json"))):
        corpus += [l for l in json.load(open(p)).get("input", []) if l.split()[0] not in RX_OPS]   # connection-level lines: explore_rx
    if corpus:
        impl, model, verd = X.evaluate(art, corpus, par=2)
        if impl is None:
            ctx.broken.append(("correspondence", "C02 harness run failed (corpus)", ""))
        else:
            X.process(ctx, art, corpus, impl, model, verd, "corpus", shrinker=shrink, prop=PROP)
            ctx.count("corpus-lines", len(corpus))
    lines = gen_lines(ctx)
    impl, model, verd = X.evaluate(art, lines, par=par)
    if impl is None:
        ctx.broken.append(("correspondence", "C02 harness run failed", ""))
        return
    if model is None or verd is None:
        ctx.broken.append(("model", "C02 driver run failed", ""))
    X.process(ctx, art, lines, impl, model, verd, "generated", shrinker=shrink, prop=PROP)
    # non-trivial = the decoder got past the fixed header; distinct by (coder, error kind, option count, ext classes)
    classes = set()
    past = 0
    for l, o in zip(lines, impl):
        f = l.split()
        of = o.split()
        ctx.count("op-" + f[0])
        if f[0] == "hdr":
            ctx.count("hdr-" + (of[2] if len(of) > 2 else "?"))
            continue
        err = of[2] if len(of) > 2 else of[0]
        ctx.count(f[0] + "-" + err)
        if err in ("truncated", "badVersion", "badToken", "shortRead", "invalidLen"):
            continue
        past += 1
        nopt = of[8] if err == "ok" and len(of) > 8 else "-"
        data = f[-1]
        classes.add((f[0], f[1], err, nopt, data[:10] if len(data) <= 40 else "%d" % (len(data) // 2 // 16)))
    ctx.cov["evaluations"] = len(lines) + len(corpus)
    ctx.cov["distinct_nontrivial"] = len(classes)
    ctx.cov["past_fixed_header"] = past
    ctx.cov["traces_validated_against_impl"] = len(lines) if model is not None else 0
    ctx.cov["exhaustive"] = False
    ctx.cov["exhaustive_part"] = ("datagram option areas: every byte string of length <= %s behind a 4-byte header (and one byte shorter "
                                  "behind a token); stream frames: every byte string of length <= %s behind each of %d first bytes; "
                                  "alphabets %s / %s" %
                                  ("6 over 10 symbols and <= 5 over 14 symbols" if thorough else "5 over 10 symbols",
                                   "5 over 10 symbols and <= 4 over 14 symbols" if thorough else "4 over 10 symbols", len(TCP_FIRST),
                                   [hex(a) for a in ALPHA_Q], [hex(a) for a in ALPHA_T]))
    ctx.cov["rule"] = ("byte strings: exhaustive short strings over a reduced alphabet (all nibble classes 0/1/12/13/14/15, marker, "
                       "literal), registry min-1/min/max/max+1 lengths for every known and signalling option, option number 0, delta "
                       "chains around 65535, 1..130 options (capacity retry), valid encodings of seeded messages cut at every offset, "
                       "bit/nibble/length mutations, trailing bytes, rewritten TKL, bytes of one coder fed to the other, random short "
                       "strings; per string: Decode (+Size/Encode of the result + Decode again), DecodeHeader (tcp), pooled "
                       "UnmarshalWithDecoder on fresh/recycled(cap 0,1,2,16) messages with caller-buffer overwrite. "
                       "distinct_nontrivial = distinct (op, coder, outcome, option count, leading bytes / size bucket) among cases "
                       "where the decoder got past the fixed header.")
    step = max(1, len(lines) // 6)
    for l, o in list(zip(lines, impl))[::step][:7]:
        ctx.sample({"input": l[:300], "implementation": o[:300]})


def prepare(ctx):
    art = common.standard_prepare(ctx, MODULES, generated=GENERATED)
    with common.Lock():
        art["rx"] = common.build_test(ctx, "c02rx")
    return art


def run(ctx):
    art = prepare(ctx)
    if art.get("hx"):
        explore(ctx, art)
        nrx = explore_rx(ctx, art) or 0
        ctx.cov["evaluations"] += nrx
        ctx.cov["traces_validated_against_impl"] += nrx
        ctx.cov["rule"] += (" Receive paths: %d connection cases (tcp/client.Conn over net.Pipe with pipelined, split frames while the "
                            "first handler blocks and the rest wait in the queue, then later frames over the same stream buffer; "
                            "udp/client.Conn.Process with one reused, overwritten datagram buffer): every delivered message must "
                            "equal the reference parse of the bytes it was sent as." % nrx)
    return common.finish(ctx)


def replay(ctx, rep):
    art = prepare(ctx)
    lines = rep.get("input") or []
    if not lines:
        print("replay file names no failing input:", rep.get("no_longer_checks"))
        return common.finish(ctx) if not art["proofs_ok"] else 0
    if lines[0].split()[0] in RX_OPS:
        impl, model, verd = evaluate_rx(ctx, art, lines, tag="replay")
    else:
        impl, model, verd = X.evaluate(art, lines)
    bad = 0
    for l, o, mo, v in zip(lines, impl or [], model or [""] * len(lines), verd or [""] * len(lines)):
        print("%s\n  implementation: %s\n  model:          %s\n  judge:          %s" % (l, o, mo, v))
        if v.startswith("violates"):
            bad += 1
    if bad:
        print("VIOLATION property=%s replay=(replayed) still reproduces" % PROP)
    return 1 if bad else 0
