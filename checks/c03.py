"""C03 — every response reaches exactly the request that carries its token (DESIGN.md §5 C03).

Proof: Props/C03.lean (token table + hand-over small-step system, arbitrary event lists, arbitrary hash function;
       token equality under the explicit hypothesis HashInj), Findings/C03.lean (F13: a hash collision breaks it).
Tie:   T — Generated/TableShape.lean (registration LoadOrStore + deferred LoadAndDelete keyed by token.Hash(), the
           lookup operation of every delivery path) and Generated/TokenHash.lean (Token.Hash = CRC-64/ISO), both
           re-read from the AST on every run and compared with the model by `shape_agrees` / `crc64_check`;
       X — N concurrent callers on a real udp / tcp client.Conn (in-memory transports, synctest), scripted peer
           emitting permutations / duplicates / piggybacked vs separate / block-wise / equal and colliding tokens;
           per-op observations compared with the model (lock-step scenarios) and judged by Spec/TokenMatch.lean
           (all scenarios, including racing ones).
"""
import glob
import json
import os
import random

from . import common

MODULES = ["CoapVerif.Props.C03", "CoapVerif.Findings.C03", "CoapVerif.Props.C03Gen"]
GENERATED = ["TableShape.lean", "TokenHash.lean"]
COLL_A, COLL_B = "01020304", "422ff442010203f4"   # equal CRC-64/ISO (DESIGN §6 F13)


def _install_local_known():
    """Until the coordinator has added F13 to known_findings.json a local copy (same format) can be named by
    $VERIF_KNOWN_EXTRA; the shared file is never written."""
    extra = os.environ.get("VERIF_KNOWN_EXTRA")
    if not extra or getattr(common, "_c03_known_patched", False):
        return
    orig = common.load_known

    def load():
        out = list(orig())
        try:
            have = {(k.get("property"), k.get("id")) for k in out}
            for k in json.load(open(extra)).get("findings", []):
                if (k.get("property"), k.get("id")) not in have:
                    out.append(k)
        except OSError:
            pass
        return out
    common.load_known = load
    common._c03_known_patched = True


def rand_token(rng):
    n = rng.choice([1, 1, 2, 2, 3, 4, 8, 8, 8, 5, 6, 7])
    return bytes(rng.randrange(256) for _ in range(n)).hex()


def sibling_family(rng):
    """Distinct legal tokens that a sloppy key function could merge: same bytes + trailing zero bytes, leading zero bytes,
    proper prefix / extension, same bytes in another order, all-zero tokens of different lengths, length-8 boundary."""
    base = bytes([rng.randrange(1, 256)] + [rng.randrange(256) for _ in range(rng.choice([0, 0, 1, 2]))])
    if base[-1] == 0:
        base = base[:-1] + b"\x07"
    fam = [base, base + b"\x00", base + b"\x00\x00", b"\x00" + base, b"\x00\x00" + base,
           base + bytes([rng.randrange(1, 256)]), (base + b"\x00" * 8)[:8], (b"\x00" * 8 + base)[-8:]]
    if len(base) > 1:
        fam += [base[:-1], base[::-1], base[1:] + base[:1]]
    if rng.random() < 0.3:
        fam += [b"\x00", b"\x00\x00", b"\x00" * 8]
    out = []
    for t in fam:
        h = t.hex()
        if 1 <= len(t) <= 8 and h not in out:
            out.append(h)
    return out


SIBLING_PAIRS = [("2a", "2a00"), ("07", "070000"), ("2a", "002a"), ("00", "0000"), ("0102", "0201"), ("0102", "01"),
                 ("2a", "2a00000000000000"), ("abcd", "abcd00"), ("abcd", "0000abcd")]


def sibling_templates(x, y, n=0):
    """The shapes the property names, for two distinct tokens x, y that only a sloppy key function would merge:
    a stale duplicate of the answer to y while x is pending; an unsolicited answer carrying y while x is pending;
    x and y outstanding together, answered in either order; the same on the stream transport and with block-wise."""
    m = 40000 + 10 * n
    return [
        "scn udp 0 do:1:%s:non peer:non:%s:%d:a1 do:2:%s:non peer:non:%s:%d:a1 peer:non:%s:%d:b2 settle" % (y, y, m, x, y, m + 1, x, m + 2),
        "scn udp 0 do:1:%s:non peer:non:%s:%d:zz peer:non:%s:%d:ok settle" % (x, y, m, x, m + 1),
        "scn udp 0 do:1:%s:con do:2:%s:con peer:pig:%s:@2:y1 peer:pig:%s:@1:x1 settle" % (x, y, y, x),
        "scn udp 1 do:1:%s:con do:2:%s:non peer:ack:-:@1:0 peer:con:%s:%d:x1 peer:non:%s:%d:y1 settle" % (x, y, x, m, y, m + 1),
        "scn tcp 0 do:1:%s:con peer:resp:%s:0:a1 do:2:%s:con peer:resp:%s:0:a1 peer:resp:%s:0:b2 settle" % (y, y, x, y, x),
        "scn tcp 0 do:1:%s:con do:2:%s:con peer:resp:%s:0:y1 peer:resp:%s:0:x1 settle" % (x, y, y, x),
        "scn tcp 1 do:1:%s:con peer:resp:%s:0:zz do:2:%s:con peer:resp:%s:0:x1 peer:resp:%s:0:y1 settle" % (x, y, y, x, y),
    ]


def retransmit_templates(x, n=0, y=None):
    """A separate CONFIRMABLE response that the peer sends again (same message ID: the acknowledgement was lost) after the
    exchange has ended and its token has been taken by a later request (sequential re-use is legal): the copy is the
    earlier message, it must be recognised by its message ID and reach nobody; the later request gets its own answer."""
    m = 41000 + 10 * n
    if not y or y == x:
        y = x[:-2] + ("01" if x[-2:] != "01" else "02")      # a distinct token of the same length
    return [
        # bare ACK, separate response, re-use, copy before the real (piggybacked) answer
        "scn udp 0 do:1:%s:con peer:ack:-:@1:0 peer:con:%s:%d:forA do:2:%s:con peer:con:%s:%d:forA peer:pig:%s:@2:forB settle" % (x, x, m, x, x, m, x),
        # the response itself acknowledges the request; copy after the new request's empty ACK, real answer separate
        "scn udp 0 do:1:%s:con peer:con:%s:%d:forA do:2:%s:con peer:ack:-:@2:0 peer:con:%s:%d:forA peer:con:%s:%d:forB settle" % (x, x, m, x, x, m, x, m + 1),
        # non-confirmable requests, confirmable responses; two copies
        "scn udp 0 do:1:%s:non peer:con:%s:%d:forA do:2:%s:non peer:con:%s:%d:forA peer:con:%s:%d:forA peer:non:%s:%d:forB settle" % (x, x, m, x, x, m, x, m, x, m + 1),
        # copy after the second exchange has ended, a third request re-uses the token again
        "scn udp 0 do:1:%s:con peer:ack:-:@1:0 peer:con:%s:%d:forA do:2:%s:con peer:pig:%s:@2:forB peer:con:%s:%d:forA do:3:%s:non peer:con:%s:%d:forA peer:non:%s:%d:forC settle" % (x, x, m, x, x, x, m, x, x, m, x, m + 1),
        # with block-wise transfer enabled
        "scn udp 1 do:1:%s:con peer:ack:-:@1:0 peer:con:%s:%d:forA do:2:%s:non peer:con:%s:%d:forA peer:non:%s:%d:forB settle" % (x, x, m, x, x, m, x, m + 1),
        # another request (token y) outstanding meanwhile; both separate responses are sent again after both tokens were re-used
        "scn udp 0 do:1:%s:con do:2:%s:non peer:ack:-:@1:0 peer:con:%s:%d:forB peer:con:%s:%d:forA do:3:%s:non do:4:%s:con "
        "peer:con:%s:%d:forA peer:con:%s:%d:forB peer:pig:%s:@4:forD peer:non:%s:%d:forC settle"
        % (x, y, y, m + 2, x, m, x, y, x, m, y, m + 2, y, x, m + 3),
        # the later request is cancelled / the copy arrives with nothing outstanding: nothing may be delivered either
        "scn udp 0 do:1:%s:con peer:con:%s:%d:forA peer:con:%s:%d:forA do:2:%s:con peer:con:%s:%d:forA cancel:2 peer:con:%s:%d:forA settle" % (x, x, m, x, m, x, x, m, x, m),
    ]


def mid_base(rng):
    """first message ID of the scripted peer: mostly mid-range, sometimes just below a value at which an ID-keyed table could
    change its behaviour (0x8000 sign bit, 0xD800-0xDFFF / 0xFFFD if IDs are ever mapped to runes, 10^4 digit count, 0)"""
    return rng.choice([40000, 42000, 43000, 32760, 55285, 57335, 9990, 1, 65200])


def gen_reuse(rng):
    """Sequential exchanges over a small pool of tokens on the datagram transport; every separate confirmable response may be
    sent again (same message ID) at any later point — while the token is free, or taken by a later request."""
    bw = rng.choice([0, 0, 1])
    pool = [rand_token(rng) for _ in range(rng.randint(1, 2))]
    ops = []
    sent = []          # (tok, mid, tag) of confirmable responses already sent
    mid = mid_base(rng)
    caller = 0

    def copies():
        if sent and rng.random() < 0.7:
            for _ in range(rng.randint(1, 2)):
                t, m, tg = rng.choice(sent)
                ops.append("peer:con:%s:%d:%s" % (t, m, tg))
    for _ in range(rng.randint(2, 5)):
        caller += 1
        tok = rng.choice(pool)
        typ = rng.choice(["con", "non"])
        ops.append("do:%d:%s:%s" % (caller, tok, typ))
        copies()
        tg = "r%d" % caller
        k = rng.random()
        if typ == "con" and k < 0.3:
            ops.append("peer:pig:%s:@%d:%s" % (tok, caller, tg))
        elif k < 0.85:
            if typ == "con" and rng.random() < 0.6:
                ops.append("peer:ack:-:@%d:0" % caller)
                copies()
            mid += 1
            ops.append("peer:con:%s:%d:%s" % (tok, mid, tg))
            sent.append((tok, mid, tg))
        else:
            mid += 1
            ops.append("peer:non:%s:%d:%s" % (tok, mid, tg))
        if rng.random() < 0.3:
            copies()
    ops.append("settle")
    return "scn udp %d %s" % (bw, " ".join(ops))


def gen_release_rounds(rng, rounds=None):
    """Callers that release their response the moment the call returns and keep issuing requests, answered by separate
    CONFIRMABLE responses whose acknowledgement is held up in the socket (`gate` … `open`): the receive path that delivered
    the response is still busy with it while the caller has already given it back and the pool is re-used at once.  Every
    token and content is unique, one to three requests are outstanding; a response object that is owned twice shows as a
    caller returning without its own token / content, a crash, or a request leaving with a foreign token."""
    bw = rng.choice([0, 0, 1])
    ops = []
    out = []            # (caller, tok, typ) outstanding
    k = 0
    mid = mid_base(rng)

    def start():
        nonlocal k
        k += 1
        tok = "%02x%04x" % (rng.randrange(1, 256), k)
        typ = rng.choice(["con", "non"])
        ops.append("do:%d:%s:%s" % (k, tok, typ))
        out.append((k, tok, typ))
    for _ in range(rounds or rng.randint(24, 40)):
        for _ in range(rng.choice([1, 1, 2]) if len(out) < 3 else 0):
            start()
        if not out:
            start()
        rng.shuffle(out)
        for c, tok, typ in out[:rng.randint(1, len(out))]:
            out.remove((c, tok, typ))
            if typ == "con" and rng.random() < 0.5:
                ops.append("peer:ack:-:@%d:0" % c)
            mid += 1
            kind = "con" if rng.random() < 0.85 else "non"
            if kind == "con":
                ops.append("gate")
            ops.append("peer:%s:%s:%d:c%d" % (kind, tok, mid, c))
            if kind == "con":
                if rng.random() < 0.5 and len(out) < 3:
                    start()                 # the pool is used again while the receive path is still in its ACK
                ops.append("open")
    ops.append("settle")
    return "scn udp %d %s" % (bw, " ".join(ops))


def stream_family(rng=None):
    """Stream transport.  (a) Block-wise negotiated by the peer's first CSM; a response is transferred in two blocks and the peer
    sends a further CSM (Max-Message-Size only) between them: the caller must still get the whole body, once.  (b) Answers to
    concurrently outstanding requests written back to back in one write, the first ones long (more than four read buffers, not
    a multiple): every caller gets its own answer."""
    out = []
    toks = ["aa", "c0030a01", "0102030405060708"] if rng is None else [rand_token(rng) for _ in range(3)]
    a, b, c = toks
    if len({a, b, c}) < 3:
        return out
    out += [
        "scn tcp 1 do:1:%s:con blkc:%s:0:0:first-and-second settle" % (a, a),
        "scn tcp 1 do:1:%s:con do:2:%s:con blkc:%s:0:0:for-two peer:resp:%s:0:for-one settle" % (a, b, b, a),
        "scn tcp 1 do:1:%s:con do:2:%s:con blkc:%s:0:0:for-one blkc:%s:0:0:for-two do:3:%s:con blk:%s:0:0:for-three settle" % (a, b, a, b, c, c),
        "scn tcp 1 do:1:%s:con blkc:%s:0:0:for-one do:2:%s:con blkc:%s:0:0:again-for-the-same-token settle" % (a, a, a, a),
    ]
    sizes = [9000, 8193, 12289, 20000] if rng is None else [rng.choice([8193, 8500, 9000, 10000, 12289, 16385, 20000, 30000]) for _ in range(3)]
    for n in sizes:
        out += [
            "scn tcp 0 do:1:%s:con do:2:%s:con do:3:%s:con pipe:%s=big*%d,%s=two,%s=three settle" % (a, b, c, a, n, b, c),
            "scn tcp 0 do:1:%s:con do:2:%s:con do:3:%s:con pipe:%s=two,%s=big*%d,%s=three settle" % (a, b, c, b, a, n, c),
            "scn tcp 0 do:1:%s:con do:2:%s:con pipe:%s=big*%d,%s=large*%d do:3:%s:con pipe:%s=z*%d settle" % (a, b, a, n, b, n + 777, c, c, n),
        ]
    return out


def observe_blockwise_family(rng=None):
    """An observation is live under a caller-chosen token; a request for another resource is issued with the same token value (the
    request table and the observation table are separate: it is accepted) or with a different one, and its response is transferred
    block-wise by a state-less server that answers the request for every block by that request's Uri-Path.  The caller must get the
    representation of the resource it asked for; notifications keep reaching the observation."""
    out = []
    a, b = ("aa", "bb") if rng is None else (rand_token(rng), rand_token(rng))
    if a == b:
        return out
    out += [
        "scn udp 1 obs:1:%s onote:%s:@1:1:st1 do:2:%s:non blkp:%s:40001:content-of-the-big-resource settle" % (a, a, a, a),
        # a request under the live observation's token, answered by a message that carries an Observe option: it is the request's
        # response and goes to the request only; the next notification goes to the observation only
        "scn udp 0 obs:1:%s onote:%s:@1:1:st1 do:2:%s:non onote:%s:40001:2:for-the-do onote:%s:40002:3:st3 settle" % (a, a, a, a, a),
        "scn udp 0 obs:1:%s onote:%s:@1:1:st1 do:2:%s:con onote:%s:@2:2:for-the-do onote:%s:40002:3:st3 settle" % (a, a, a, a, a),
        "scn udp 1 obs:1:%s onote:%s:@1:1:st1 onote:%s:40001:2:st2 do:2:%s:non onote:%s:40002:3:for-the-do settle" % (a, a, a, a, a),
        "scn udp 1 obs:1:%s onote:%s:@1:1:st1 do:2:%s:con blkp:%s:40001:content-of-the-big-resource onote:%s:40003:2:st2 settle" % (a, a, a, a, a),
        "scn udp 1 obs:1:%s onote:%s:@1:1:st1 onote:%s:40001:2:st2 do:2:%s:con blkp:%s:40002:the-big-resource-for-b onote:%s:40004:3:st3 settle" % (a, a, a, b, b, a),
        "scn udp 1 obs:1:%s onote:%s:@1:1:st1 do:2:%s:non do:3:%s:non blkp:%s:40001:big-one-under-the-shared-token blkp:%s:40003:big-two-under-another-token settle" % (a, a, a, b, a, b),
        "scn udp 1 do:1:%s:non blkp:%s:40001:no-observation-at-all-here obs:2:%s onote:%s:@2:1:st1 do:3:%s:non blkp:%s:40003:and-now-with-one settle" % (a, a, a, a, a, a),
    ]
    return out


# ---------------------------------------------------------------------------------------------------------------------
# requests whose token the LIBRARY chooses (cc.NewGetRequest → the connection's generator, message.GetToken by default), far along
# in the generator's life: `auto`, `draw:<n>`, `many:<c0>:<n>:<typ>:<mid0>`, `$<caller>` (see harness/c03/c03_test.go)

# numbers of tokens after which a generator that works on blocks, counters or tables could start over
DRAW_BOUNDARIES = [16, 32, 64, 128, 255, 256, 512, 1000, 1024, 2048, 4096, 8192, 10000, 16384, 32768, 65535, 65536, 65537]


def expand_many(tr, ops):
    """`many` written out (exactly as the harness runs it)"""
    out = []
    for op in ops:
        g = op.split(":")
        if g[0] == "many" and len(g) == 5:
            c0, n, m0 = int(g[1]), int(g[2]), int(g[4])
            for i in range(n):
                c = c0 + i
                if tr == "tcp":
                    out += ["auto:%d:con" % c, "peer:resp:$%d:0:m%d" % (c, c)]
                elif g[3] == "con":
                    out += ["auto:%d:con" % c, "peer:pig:$%d:@%d:m%d" % (c, c, c)]
                else:
                    out += ["auto:%d:non" % c, "peer:non:$%d:%d:m%d" % (c, (m0 + i) & 0xffff, c)]
        else:
            out.append(op)
    return out


def concretise(line, obs):
    """The line the model and the judge read: `many` written out, every library-chosen token replaced by the value the harness saw
    (event auto:<caller>:<tokhex>, taken out of the observation), every message the peer addressed by `$<caller>` marked as produced
    for that request (sixth field for<caller>)."""
    if not line.startswith("scn") or not (" auto:" in line or " many:" in line or "$" in line):
        return line, obs
    f = line.split()
    ops = expand_many(f[1], f[3:])
    segs = obs.split(";")
    head = " ".join(f[:3])
    if len(segs) != len(ops) + 1:
        return head + " " + " ".join(ops), obs
    tok = {}
    oo, ss = [], [segs[0]]
    for op, seg in zip(ops, segs[1:]):
        plus = "+" if op.startswith("+") else ""
        g = op.lstrip("+").split(":")
        evs = seg.split(",")
        if g[0] == "auto" and len(g) == 3:
            for e in evs:
                h = e.split(":")
                if h[0] == "auto" and len(h) == 3 and h[1] == g[1]:
                    tok[g[1]] = h[2]
            evs = [e for e in evs if not e.startswith("auto:")]
            g = ["auto", g[1], tok.get(g[1], "?"), g[2]]
        elif g[0] == "peer" and len(g) == 5 and g[2].startswith("$"):
            c = g[2][1:]
            g = ["peer", g[1], tok.get(c, "?"), g[3], g[4], "for" + c]
        oo.append(plus + ":".join(g))
        ss.append(",".join(evs) if evs else "-")
    return head + " " + " ".join(oo), ";".join(ss)


def far_along_window(tr, bw, boundary, kinds, mid0, k=4, later=4, held=False):
    """k exchanges with library-chosen tokens, then `boundary - k - 1` tokens drawn and dropped, then `later` further exchanges: the
    generator is `boundary - k … boundary + later - 2` tokens further when they start.  While each later request is outstanding
    the peer's answers to the earlier exchanges arrive once more (late duplicates: the piggybacked response again, a separate
    response under a new message ID, the response frame again), then its own answer.  held: the earlier requests are not answered
    before the later ones start (all outstanding together), the answers come in reverse order at the end."""
    ops = []
    mid = mid0

    def answer(c, tag, kd):
        nonlocal mid
        if tr == "tcp":
            return ["peer:resp:$%d:0:%s" % (c, tag)]
        if kd == "pig":
            return ["peer:pig:$%d:@%d:%s" % (c, c, tag)]
        mid = (mid + 1) & 0xffff
        if kd == "sep":
            return ["peer:ack:-:@%d:0" % c, "peer:con:$%d:%d:%s" % (c, mid, tag)]
        return ["peer:non:$%d:%d:%s" % (c, mid, tag)]

    def typ(kd):
        return "con" if tr == "tcp" or kd in ("pig", "sep") else "non"
    early = list(range(1, k + 1))
    for c in early:
        ops.append("auto:%d:%s" % (c, typ(kinds[c % len(kinds)])))
        if not held:
            ops += answer(c, "e%d" % c, kinds[c % len(kinds)])
    ops.append("draw:%d" % max(0, boundary - k - 1))
    for c in range(k + 1, k + later + 1):
        kd = kinds[c % len(kinds)]
        ops.append("auto:%d:%s" % (c, typ(kd)))
        if not held:
            for e in early:
                ke = kinds[e % len(kinds)]
                ops += answer(e, "e%d" % e, "non" if ke == "sep" else ke)[-1:]
            ops += answer(c, "l%d" % c, kd)
    if held:
        for c in range(k + later, 0, -1):
            ops += answer(c, "h%d" % c, kinds[c % len(kinds)])
    ops.append("settle")
    return "scn %s %d %s" % (tr, bw, " ".join(ops))


def far_along_run(tr, n, typ, mid0, boundaries):
    """n complete exchanges on ONE connection, then one more request; while it is outstanding the answers to the exchanges that lie a
    boundary number of tokens back arrive once more"""
    ops = ["many:1:%d:%s:%d" % (n, typ, mid0)]
    c = n + 1
    ops.append("auto:%d:%s" % (c, "con" if tr == "tcp" else typ))
    mid = mid0 + n
    for b in boundaries:
        for e in (c - b - 1, c - b, c - b + 1):
            if 1 <= e <= n:
                if tr == "tcp":
                    ops.append("peer:resp:$%d:0:m%d" % (e, e))
                elif typ == "con":
                    ops.append("peer:pig:$%d:@%d:m%d" % (e, e, e))
                else:
                    mid += 1
                    ops.append("peer:non:$%d:%d:m%d" % (e, mid & 0xffff, e))
    if tr == "tcp":
        ops.append("peer:resp:$%d:0:last" % c)
    elif typ == "con":
        ops.append("peer:pig:$%d:@%d:last" % (c, c))
    else:
        ops.append("peer:non:$%d:%d:last" % (c, (mid + 1) & 0xffff))
    ops.append("settle")
    return "scn %s 0 %s" % (tr, " ".join(ops))


def far_along_family(rng, thorough):
    out = []
    # the shapes for every boundary: piggybacked / separate / non-confirmable on the datagram transport, frames on the stream
    for i, b in enumerate(DRAW_BOUNDARIES):
        out.append(far_along_window("udp", 0, b, ["pig"], 40000))
        out.append(far_along_window("udp", i % 2, b, ["non", "pig", "sep"], mid_base(rng)))
        out.append(far_along_window("tcp", i % 2, b, ["resp"], 0))
        out.append(far_along_window("udp", 0, b, ["pig", "non"], 41000, held=True))
        if thorough or b in (256, 512, 4096, 65536):
            out.append(far_along_window("tcp", 0, b, ["resp"], 0, held=True))
    # random windows
    for _ in range(200 if thorough else 30):
        tr = rng.choice(["udp", "udp", "tcp"])
        kinds = ["resp"] if tr == "tcp" else [rng.choice(["pig", "non", "sep"]) for _ in range(3)]
        out.append(far_along_window(tr, rng.choice([0, 0, 1]), rng.choice(DRAW_BOUNDARIES) + rng.choice([0, 0, 1, 2]), kinds, mid_base(rng),
                                    k=rng.randint(2, 5), later=rng.randint(2, 5), held=rng.random() < 0.25))
    # long runs on one connection (every token is used by a complete exchange)
    runs = [("udp", 520, "con"), ("udp", 515, "non"), ("tcp", 514, "con"), ("udp", 1030, "con")]
    if thorough:
        runs += [("udp", 1027, "non"), ("tcp", 1026, "con"), ("udp", 4100, "con")]
    for tr, n, typ in runs:
        out.append(far_along_run(tr, n, typ, 100, [b for b in DRAW_BOUNDARIES if b < n]))
    return out


def gen_scenario(rng, racy=False, collide=False, siblings=False):
    tr = rng.choice(["udp", "udp", "tcp"])
    bw = rng.choice([0, 0, 1])
    ncall = rng.randint(2, 6)
    toks = []
    family = sibling_family(rng) if siblings else None
    if collide:
        toks = [COLL_A, COLL_B]
    if family:
        toks = rng.sample(family, min(len(family), rng.randint(2, min(5, ncall + 1))))
        ncall = max(ncall, len(toks))
    while len(toks) < ncall:
        if toks and rng.random() < 0.18:
            toks.append(rng.choice(toks))           # deliberately equal token
        elif rng.random() < 0.04:
            toks.append(rng.choice(["nil", "-"]))
        else:
            t = rand_token(rng)
            toks.append(t)
    rng.shuffle(toks)
    ops = []
    started = []          # (caller, tok, typ)
    next_caller = 1
    next_mid = mid_base(rng)
    emitted = []          # (kind, tok, mid, tag) of separate responses, for duplicates
    tagn = [0]

    def tag():
        tagn[0] += 1
        return "t%d" % tagn[0]

    def pfx():
        return "+" if racy and rng.random() < 0.5 else ""
    nops = rng.randint(4, 16)
    pending = list(toks)
    for _ in range(nops):
        r = rng.random()
        if pending and (r < 0.3 or not started):
            t = pending.pop(0)
            typ = rng.choice(["con", "non"]) if tr == "udp" else "con"
            ops.append("%sdo:%d:%s:%s" % (pfx(), next_caller, t, typ))
            started.append((next_caller, t, typ))
            next_caller += 1
        elif r < 0.8 and started:
            c, t, typ = rng.choice(started)
            if t in ("nil", "-"):
                t = rand_token(rng)
            if family and rng.random() < 0.35:
                t = rng.choice(family)               # a sibling of the tokens in play (pending, completed or never used)
            elif rng.random() < 0.12:
                t = rand_token(rng)                  # unsolicited token
            if tr == "tcp":
                if bw and rng.random() < 0.2:
                    ops.append("%sblk:%s:0:0:%s" % (pfx(), t, tag()))
                elif emitted and rng.random() < 0.3:
                    k, t2, _, tg = rng.choice(emitted)
                    ops.append("%speer:resp:%s:0:%s" % (pfx(), t2, tg))
                else:
                    tg = tag()
                    emitted.append(("resp", t, 0, tg))
                    ops.append("%speer:resp:%s:0:%s" % (pfx(), t, tg))
            else:
                k = rng.random()
                if k < 0.2:
                    ops.append("%speer:ack:-:@%d:0" % (pfx(), c))
                elif k < 0.4:
                    ops.append("%speer:pig:%s:@%d:%s" % (pfx(), t, c, tag()))
                elif k < 0.45:
                    ops.append("%speer:rst:-:@%d:0" % (pfx(), c))
                elif k < 0.55 and bw:
                    ops.append("%sblk:%s:%d:%d:%s" % (pfx(), t, next_mid, next_mid + 1, tag()))
                    next_mid += 2
                elif k < 0.7 and emitted:
                    kd, t2, m2, tg = rng.choice(emitted)
                    if kd == "con" and rng.random() < 0.5:
                        ops.append("%speer:con:%s:%d:%s" % (pfx(), t2, m2, tg))      # message-level duplicate (same MID)
                    else:
                        ops.append("%speer:%s:%s:%d:%s" % (pfx(), kd, t2, next_mid, tg))   # duplicate under a new MID
                        next_mid += 1
                else:
                    kd = rng.choice(["con", "non"])
                    tg = tag()
                    emitted.append((kd, t, next_mid, tg))
                    ops.append("%speer:%s:%s:%d:%s" % (pfx(), kd, t, next_mid, tg))
                    next_mid += 1
        elif r < 0.9 and started:
            ops.append("%scancel:%d" % (pfx(), rng.choice(started)[0]))
        else:
            ops.append("settle")
    if racy:
        ops.append("settle")
    if rng.random() < 0.25:
        ops.append("close")
    return "scn %s %d %s" % (tr, bw, " ".join(ops))


def gen_racy(rng):
    """Racing scenarios (judged only): bursts of peer messages that are not separated by quiescence, and bursts of
    racing request starts (distinct fresh tokens and deliberately equal fresh tokens).  Inside one burst no peer message
    carries a token of a request started in the same burst and nothing is cancelled, so that the position of the
    observed returns relative to the burst's own ops cannot change the verdict."""
    tr = rng.choice(["udp", "udp", "tcp"])
    bw = rng.choice([0, 0, 1])
    ops = []
    callers = []        # (id, tok, typ) started in earlier bursts
    nid = 1
    mid = mid_base(rng)
    tagn = 0
    emitted = []
    for _ in range(rng.randint(2, 5)):
        if not callers or rng.random() < 0.45:
            burst = []
            for _ in range(rng.randint(1, 3)):
                t = rand_token(rng)
                for _ in range(rng.choice([1, 1, 2, 2, 3])):
                    typ = rng.choice(["con", "non"]) if tr == "udp" else "con"
                    burst.append((nid, t, typ))
                    nid += 1
            rng.shuffle(burst)
            for i, (c, t, typ) in enumerate(burst):
                ops.append("%sdo:%d:%s:%s" % ("+" if i < len(burst) - 1 else "", c, t, typ))
            callers += burst
        else:
            n = rng.randint(2, 6)
            burst = []
            for _ in range(n):
                c, t, typ = rng.choice(callers)
                if emitted and rng.random() < 0.35:
                    kd, t2, m2, tg = rng.choice(emitted)
                    if tr == "tcp":
                        burst.append("peer:resp:%s:0:%s" % (t2, tg))
                    else:
                        mid += 1
                        burst.append("peer:%s:%s:%d:%s" % (kd, t2, m2 if kd == "con" and rng.random() < 0.4 else mid, tg))
                    continue
                tagn += 1
                tg = "r%d" % tagn
                if tr == "tcp":
                    emitted.append(("resp", t, 0, tg))
                    burst.append("peer:resp:%s:0:%s" % (t, tg))
                else:
                    k = rng.random()
                    if k < 0.25:
                        burst.append("peer:ack:-:@%d:0" % c)
                    elif k < 0.45:
                        burst.append("peer:pig:%s:@%d:%s" % (t, c, tg))
                    else:
                        kd = rng.choice(["con", "non"])
                        mid += 1
                        emitted.append((kd, t, mid, tg))
                        burst.append("peer:%s:%s:%d:%s" % (kd, t, mid, tg))
            for i, b in enumerate(burst):
                ops.append(("+" if i < len(burst) - 1 else "") + b)
        if rng.random() < 0.2 and callers:
            ops.append("cancel:%d" % rng.choice(callers)[0])
    ops.append("settle")
    return "scn %s %d %s" % (tr, bw, " ".join(ops))


FIXED = [
    # udp/server.DiscoveryRequest: same register-if-absent, a duplicate token must not displace the running discovery
    "disc duptoken",
    # F13, both faces, on every transport
    "scn udp 0 do:1:%s:con do:2:%s:con settle" % (COLL_A, COLL_B),
    "scn udp 0 do:1:%s:non peer:non:%s:40001:a1 do:2:%s:non peer:non:%s:40002:a1 settle" % (COLL_A, COLL_A, COLL_B, COLL_A),
    "scn tcp 0 do:1:%s:con peer:resp:%s:0:a1 do:2:%s:con peer:resp:%s:0:a1 settle" % (COLL_A, COLL_A, COLL_B, COLL_A),
    "scn tcp 1 do:1:%s:con do:2:%s:con settle" % (COLL_B, COLL_A),
    # late return erases the successor (second known finding of this property)
    "scn udp 0 do:1:aa:con peer:con:aa:40001:early do:2:aa:non peer:ack:-:@1:0 do:3:aa:non peer:non:aa:40002:for2 settle",
    "scn udp 0 do:1:aa:con peer:con:aa:40001:early do:2:aa:non cancel:1 peer:non:aa:40002:for2 settle",
    # the shapes named in the property
    "scn udp 0 do:1:aa:con do:2:bb:con do:3:cc:non peer:ack:-:@2:0 peer:ack:-:@1:0 peer:con:cc:40001:x3 peer:con:bb:40002:x2 peer:con:bb:40002:x2 peer:non:bb:40003:x2 peer:pig:aa:@1:late peer:non:aa:40004:x1",
    "scn udp 0 do:1:aa:con do:2:aa:con peer:pig:aa:@1:x1 peer:pig:aa:@2:x2",
    "scn udp 1 do:1:aa:con do:2:aa:non peer:pig:aa:@1:x1 blk:aa:40001:40002:later",
    "scn udp 0 do:1:aa:con peer:con:aa:40001:early do:2:aa:con peer:ack:-:@1:0 peer:con:aa:40002:second settle",
    "scn udp 1 do:1:aa:con peer:con:aa:40001:early do:2:aa:con peer:ack:-:@1:0 settle",
    "scn tcp 1 do:1:aa:con do:2:bb:con blk:bb:0:0:two peer:resp:bb:0:dup peer:resp:aa:0:one peer:resp:aa:0:one",
    "scn tcp 0 do:1:aa:con cancel:1 peer:resp:aa:0:late do:2:aa:con peer:resp:aa:0:again close",
    "scn udp 0 do:1:nil:con do:2:-:non do:3:0102030405060708:non peer:non:0102030405060708:40001:full",
]


# the residual window of the second finding: a request that re-uses the token of a call whose response has just been handed
# over races with that call's deferred removal (about 1 run in 400 loses the second registration)
ERASE_FAMILY = [
    "scn udp 0 do:1:aa:non +peer:non:aa:40001:x1 +do:2:aa:non settle peer:non:aa:40002:y2 settle",
    "scn tcp 0 do:1:aa:con +peer:resp:aa:0:x1 +do:2:aa:con settle peer:resp:aa:0:y2 settle",
    "scn udp 0 do:1:aa:con +peer:pig:aa:@1:x1 +do:2:aa:non settle peer:non:aa:40002:y2 settle",
]


def corpus_lines():
    out = []
    for p in sorted(glob.glob(os.path.join(common.VERIF, "corpus", "C03", "*.json"))):
        try:
            out += json.load(open(p)).get("input", [])
        except (OSError, ValueError):
            pass
    return out


def gen_lines(ctx):
    rng = random.Random(ctx.seed * 7919 + 3)
    thorough = ctx.tier == "thorough"
    L = corpus_lines() + list(FIXED)
    for _ in range(12000 if thorough else 1500):
        L.append(gen_scenario(rng))
    for _ in range(400 if thorough else 60):
        L.append(gen_scenario(rng, collide=True))
    # near-collision token families (distinct tokens that only a sloppy key function merges)
    for n, (x, y) in enumerate(SIBLING_PAIRS):
        L += sibling_templates(x, y, n) + sibling_templates(y, x, n)
    for n in range(60 if thorough else 8):
        fam = sibling_family(rng)
        x, y = rng.sample(fam, 2)
        L += sibling_templates(x, y, n)
    for _ in range(4000 if thorough else 500):
        L.append(gen_scenario(rng, siblings=True))
    # retransmitted separate responses after the token was re-used
    for n, x in enumerate(["aa", "c0030d01", "0102030405060708", "00"]):
        L += retransmit_templates(x, n)
    for n in range(40 if thorough else 6):
        L += retransmit_templates(rand_token(rng), 10 + n, rand_token(rng))
    for _ in range(3000 if thorough else 400):
        L.append(gen_reuse(rng))
    # stream transport: a CSM between two blocks; long pipelined answers
    L += stream_family() + observe_blockwise_family()
    for _ in range(20 if thorough else 2):
        L += observe_blockwise_family(rng)
    for _ in range(40 if thorough else 4):
        L += stream_family(rng)
    # early release + delayed ACK of separate confirmable responses, a few dozen rounds per connection
    for _ in range(400 if thorough else 60):
        L.append(gen_release_rounds(rng))
    for _ in range(6000 if thorough else 600):
        L.append(gen_racy(rng))
    for i in range(3000 if thorough else 450):
        L.append(ERASE_FAMILY[i % len(ERASE_FAMILY)])
    # library-chosen tokens, far along in the generator's life
    L += far_along_family(rng, thorough)
    return L


def nontrivial(line, obs):
    """Appendix A: >= 2 callers outstanding when a response is delivered out of order or duplicated."""
    if not line.startswith("scn"):
        return False
    ops = line.split()[3:]
    segs = obs.split(";")[1:]
    outstanding = []     # (caller, tok) in start order
    seen = set()
    hit = False
    for op, seg in zip(ops, segs):
        f = op.lstrip("+").split(":")
        if f[0] == "do":
            outstanding.append((f[1], f[2]))
        if f[0] in ("peer", "blk") and len(outstanding) >= 2:
            tok = f[2] if f[0] == "peer" else f[1]
            tag = f[-1]
            if f[0] == "blk" or f[1] not in ("ack", "rst"):
                if (tok, tag) in seen or (any(t == tok for _, t in outstanding) and outstanding[0][1] != tok):
                    hit = True
                seen.add((tok, tag))
        for ev in seg.split(","):
            g = ev.split(":")
            if g[0] == "ret":
                outstanding = [(c, t) for c, t in outstanding if c != g[1]]
    return hit


def _short(s, n=600):
    return s if len(s) <= n else s[:n // 2] + " … " + s[-n // 2:]


def explain_lib(cline, impl):
    """which library-chosen tokens were equal, and which call returned content produced for another one"""
    toks = {}
    eq = []
    for op in cline.split()[3:]:
        g = op.split(":")
        if g[0] == "auto" and len(g) == 4:
            for c, t in toks.items():
                if t == g[2]:
                    eq.append("caller %s got token %s, the token of caller %s" % (g[1], t, c))
            toks[g[1]] = g[2]
    wrong = []
    for ev in impl.replace(";", ",").split(","):
        h = ev.split(":")
        if h[0] == "ret" and len(h) == 5 and h[2] == "ok" and h[4][:1] in "elmh" and h[4][1:].isdigit() and h[4][1:] != h[1]:
            wrong.append("caller %s returned %s" % (h[1], h[4]))
    return "; ".join(eq[:3] + wrong[:3]) or "library-chosen tokens"


def _run_chunk(ctx, exe, lines, tag):
    """One run of the harness binary on `lines` (as common.run_test_harness, without its bookkeeping); None if the process died."""
    import subprocess
    inp = os.path.join(ctx.work, tag + ".in")
    outp = os.path.join(ctx.work, tag + ".out")
    open(inp, "w").write("\n".join(lines) + "\n")
    if os.path.exists(outp):
        os.remove(outp)
    e = dict(os.environ, VERIF_IN=inp, VERIF_OUT=outp, VERIF_SEED=str(ctx.seed), VERIF_TIER=ctx.tier)
    try:
        p = subprocess.run([exe, "-test.run", "^TestC03$", "-test.timeout", "600s"], cwd=ctx.work, env=e,
                           stdout=subprocess.PIPE, stderr=subprocess.STDOUT, text=True, timeout=630)
    except subprocess.TimeoutExpired:
        return None
    out = open(outp).read().splitlines() if os.path.exists(outp) else []
    if p.returncode != 0 or len(out) != len(lines):
        return None
    return out


def run_resilient(ctx, art, lines, tag):
    """The harness process runs every scenario; a panic on a goroutine of the library (not a caller's, which the harness
    recovers) kills the process and with it the output of all scenarios.  Such a crash is an observation about one scenario:
    the run is repeated on halves until the scenarios that kill the process on their own are isolated; they are reported as
    `panic:process-crash` (clause no-crash, with replay), the others are evaluated normally."""
    impl = common.run_test_harness(ctx, art["test"], "TestC03", lines, tag=tag)
    if impl is not None and len(impl) == len(lines):
        return impl
    entry = ctx.broken.pop() if ctx.broken and ctx.broken[-1][1].startswith("harness TestC03") else None
    crashes = [0]

    def go(ls):
        if crashes[0] >= 8:
            return ["skipped"] * len(ls)
        out = _run_chunk(ctx, art["test"], ls, tag + "b")
        if out is not None:
            return out
        if len(ls) == 1:
            crashes[0] += 1
            return ["panic:process-crash"]
        m = len(ls) // 2
        return go(ls[:m]) + go(ls[m:])
    res = []
    n = max(1, len(lines) // 16)
    for i in range(0, len(lines), n):
        res += go(lines[i:i + n])
    if crashes[0] == 0 and entry is not None:
        ctx.broken.append(entry)          # the process died but no scenario reproduces it on its own
    elif crashes[0]:
        ctx.notes.append("the harness process was killed by a panic on a library goroutine; %d scenario(s) isolated by bisection" % crashes[0])
    return res


def evaluate(ctx, art, lines, tag="x"):
    """Runs lines through implementation, model and judge. Returns [(line, impl, model|None, judge)] or None."""
    impl = run_resilient(ctx, art, lines, tag)
    if impl is None or len(impl) != len(lines):
        return None
    # library-chosen tokens are filled in from the observation (the model and the judge read concrete tokens)
    conc = [concretise(l, o) for l, o in zip(lines, impl)]
    clines = [c[0] for c in conc]
    impl = [c[1] for c in conc]
    rc, model, _ = common.pipe_lines([art["driver"], "model"], clines)
    rc2, judge, _ = common.pipe_lines([art["driver"], "judge"], [l + " | " + o for l, o in zip(clines, impl)])
    rc3, cls, _ = common.pipe_lines([art["driver"], "classify"], clines)
    if rc or rc2 or rc3 or len(model) != len(lines) or len(judge) != len(lines) or len(cls) != len(lines):
        ctx.broken.append(("model", "C03 driver run failed", ""))
        return None
    return list(zip(lines, impl, model, judge, cls, clines))


def explore(ctx, art):
    lines = gen_lines(ctx)
    res = evaluate(ctx, art, lines)
    if res is None:
        return
    distinct = set()
    mism = 0
    for line, impl, model, judge, cls, cline in res:
        racy = "+" in line
        lib = cline != line
        if lib:
            ctx.count("library-chosen-tokens")
        if impl == "skipped":
            ctx.count("skipped-after-process-crash")
            continue
        ctx.cov["evaluations"] += 1
        if line.startswith("disc"):
            ctx.count("discovery" + ("-skipped" if impl.startswith("skip") else ""))
            if impl.startswith("skip"):
                ctx.notes.append("discovery scenario skipped: no loopback socket")
                continue
            if judge != "ok":
                ctx.violations.append(common.Violation("reject-duplicate", "C03:reject-duplicate:discovery-duptoken",
                                                       "DiscoveryRequest with a token still in use: observed `%s`, expected `%s`" % (impl, model),
                                                       {"input": [line], "observed": impl, "expected": model}))
            continue
        tr, bw = line.split()[1:3]
        ctx.count("%s-bw%s%s" % (tr, bw, "-racing" if racy else ""))
        # F13 classification uses the model's CRC-64 (polynomial regenerated, check values proved), not the implementation's
        # own answer: a change that makes the real key function worse must not hide behind the known finding
        inj = model.startswith("inj=1")
        if impl.startswith("panic") or impl in ("bad-op", "conn-error"):
            ctx.violations.append(common.Violation("no-crash", "C03:no-crash:" + line, "%s -> %s" % (line, impl),
                                                   {"input": [line], "observed": impl}))
            continue
        if not racy:
            ctx.cov["traces_validated_against_impl"] = ctx.cov.get("traces_validated_against_impl", 0) + 1
            if impl != model:
                mism += 1
                if mism <= 5:
                    ctx.broken.append(("correspondence", "C03 model vs implementation",
                                       "%s\n impl  %s\n model %s" % (line, impl, model)))
        if judge != "ok":
            clause = judge.replace("violates ", "")
            if not inj:
                sig = "C03:%s:hashcollision" % clause
            elif line in ERASE_FAMILY:
                sig = "C03:%s:late-return-erases-successor" % clause
            elif racy and clause == "reject-duplicate":
                sig = "C03:reject-duplicate:racing-equal-token-starts"   # two racing registrations both stored (LoadOrStore)
            elif not racy and cls == "erases-successor" and impl == model:
                # the model reproduces it: a returning call's deferred LoadAndDelete removed a later call's registration
                sig = "C03:%s:late-return-erases-successor" % clause
            else:
                sig = "C03:%s:%s" % (clause, line)
            what = ("tokens with equal CRC-64 in play: " if not inj else "") + "%s: observed `%s`: %s" % (_short(line), _short(impl), judge)
            if lib:
                what += " [%s]" % explain_lib(cline, impl)
            ctx.violations.append(common.Violation(clause, sig, what, {"input": [line], "observed": impl, "judge": judge,
                                                                      "model": model, "with_tokens": cline if lib else None}))
            ctx.count("judge:" + clause + ("" if inj else ":collision"))
        if nontrivial(line, impl) and line not in distinct:
            distinct.add(line)
            if len(distinct) <= 4:
                ctx.sample({"input": line, "implementation": impl, "judge": judge})
    ctx.cov["distinct_nontrivial"] = len(distinct)
    ctx.cov["exhaustive"] = False
    ctx.cov["rule"] = ("one evaluation = one scenario (2-6 callers with caller-chosen, equal, nil/empty and CRC-colliding tokens; udp/tcp; "
                       "block-wise on/off; peer messages: bare ACK, piggybacked, separate CON/NON, RST, message-level and application-"
                       "level duplicates, unsolicited tokens, two-block responses; cancel; close) on a real client.Conn under synctest. "
                       "Lock-step scenarios are compared with the model observation by observation, all scenarios (incl. racing ones, ops "
                       "prefixed '+') are judged by Spec.TokenMatch. distinct_nontrivial = distinct scenarios in which >= 2 callers were "
                       "outstanding when a response was delivered out of order or duplicated (appendix A).")
    ctx.assumptions.append("HashInj: token equality conclusions assume the CRC-64 hash is injective on the tokens in play; the harness "
                           "reports inj=0/1 per scenario with the real Token.Hash and colliding scenarios are judged too (F13)")


LASTGOOD = os.path.join(common.VERIF, "checks", "lastgood", "C03")


def _restore_generated():
    """The failing-input search must not depend on today's source being translatable: when a generated file this property
    needs is missing (the extractor fails closed and writes nothing), the last good copy is put in place so that model,
    judge and driver still build; the translator failure itself is reported by standard_prepare."""
    for f in GENERATED:
        dst = os.path.join(common.GENERATED, f)
        src = os.path.join(LASTGOOD, f)
        if not os.path.exists(dst) and os.path.exists(src):
            with common.Lock():
                if not os.path.exists(dst):
                    open(dst, "w").write(open(src).read())


def _save_lastgood(ctx):
    if any(k == "translator" for k, _, _ in ctx.broken):
        return
    os.makedirs(LASTGOOD, exist_ok=True)
    for f in GENERATED:
        src = os.path.join(common.GENERATED, f)
        dst = os.path.join(LASTGOOD, f)
        try:
            cur = open(src).read()
            if not os.path.exists(dst) or open(dst).read() != cur:
                open(dst, "w").write(cur)
        except OSError:
            pass


def _prepare(ctx):
    _restore_generated()
    art = common.standard_prepare(ctx, MODULES, hx=False, test=True, generated=GENERATED)
    if not art.get("driver"):
        # a driver built from the last translatable source still evaluates model and judge for the search
        old = os.path.join(common.LEAN, ".lake", "build", "bin", "drv_c03")
        if os.path.exists(old):
            art["driver"] = old
            ctx.notes.append("driver could not be rebuilt; the search uses the previously built drv_c03")
    if os.environ.get("VERIF_REPO") is None:
        _save_lastgood(ctx)
    return art


def run(ctx):
    _install_local_known()
    art = _prepare(ctx)
    if art.get("test") and art.get("driver"):
        explore(ctx, art)
    return common.finish(ctx)


def replay(ctx, rep):
    art = _prepare(ctx)
    lines = rep.get("input") or []
    if not lines:
        print("replay file names no failing input:", rep.get("no_longer_checks"))
        return 1
    res = evaluate(ctx, art, lines, tag="replay")
    if res is None:
        print("replay could not run", ctx.broken)
        return 1
    bad = 0
    for line, impl, model, judge, cls, cline in res:
        line = _short(cline, 2000)
        impl, model = _short(impl, 2000), _short(model, 2000)
        print("%s\n  implementation: %s\n  model:          %s\n  judge:          %s  [%s]" % (line, impl, model, judge, cls))
        if judge != "ok":
            bad += 1
    if bad:
        print("VIOLATION property=C03 replay=(replayed) still reproduces")
    return 1 if bad else 0
