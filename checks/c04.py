"""C04 — block-wise transfer delivers the exact body exactly once, or fails (DESIGN.md §5 C04).

Proof: Props/C04.lean (slice_covers, reassembly_prefix, complete_eq, no_partial_as_complete, once, tokens_independent,
       szx_negotiation_min, etag_change_restarts, progress / negative results, finite expiry).
Tie:   T — codes, option numbers, thresholds `<=`/`<`, Block1 addend, shortcut shape, expiry comparison regenerated
           from /repo (Generated/BlockwiseXfer.lean, plus C19's Generated/Blockwise.lean);
       X — two real blockwise.BlockWise instances joined by a scripted relay under synctest: every wire message,
           arrival, delivery, return and cache size compared with the model line by line; the spec's judge
           (Spec/Blockwise.lean; clauses exact, once, slice, szx, hang, leak, oneway) evaluated on the implementation's
           history.  Glue level (harness/c04 glue_test.go, conn_test.go, pool_test.go, observe_test.go): real servers and
           connections against scripted peers — interleaved connections, long transfers, one-way writes with No-Response,
           early negotiation with every wire encoding, observe x block-wise x request options x ETag placement.
           Thorough adds end-to-end Post/Get over the in-memory UDP and TCP connections (judge only).
           Tenth seeded round: `shared_prefix_cases` (token re-use after an abandoned transfer — cancelled call without deadline,
           ops `do <tok> -` / `cancel <tok>`, Model/BlockwiseCancel.lean + Props/C04Cancel.lean — for a representation sharing its
           first one or two whole blocks, body specification `<s1>:<k>:<s2>`); `csm_level` (TestC04Csm, both tiers: stream peers
           announcing Block-Wise-Transfer with / without Max-Message-Size x limits x SZX 0..6 / BERT, frame budget -> `hang`).
       Observe branch (Props/C04Observe.lean over Model/BlockwiseObserve.lean): block-wise notifications are part of X — the
           real layer of side A gets an observation table (`observe`), B pushes the notification through its layer and serves
           the follow-up GETs from its `resource`; message.GetToken is scripted (`fresh <tok>`, else 0xF0F0000000000000 + i:
           the harness replaces crypto/rand.Reader while a case runs), so every line is compared literally
           (`observe_blockwise_cases`: fault-free exponent pairs x boundary sizes, unregistered observation, exhaustive single
           (thorough: double) faults, token clash, two notifications in flight, abandoned + expiry, stray blocks, random faults).
       Conservativity (Props/C04Conserv.lean): the driver runs every history through `handleO` / `OWorld`; `handleO_eq_handle`,
           `runO_eq_run`, `oworld_run_eq_world_run` prove that this IS `handle` / `World` of the theorems above wherever the
           Observe branch is not involved (exact side conditions), `once_O` … `system_safe_O` restate the headline theorems for it.
       Props/C04ObserveRuns.lean: block-wise notifications under ARBITRARY arrivals — frame of one `handleO` call, every
           interleaving of two fetches (`notifications_do_not_mix`), body-exactness under the fresh key (`nothing_before_last_block`).
       Props/C04Progress.lean (auxiliary): `Do` over ALL rounds by induction — `upload_progress`, `download_progress`, `do_progress`.
"""
import glob
import json
import os
import random
import re

from . import common

MODULES = ["CoapVerif.Props.C04", "CoapVerif.Props.C04Observe", "CoapVerif.Props.C04Conserv", "CoapVerif.Props.C04Cancel", "CoapVerif.Props.C04ObserveRuns", "CoapVerif.Props.C04Progress", "CoapVerif.Props.C04GiveUp"]
GENERATED = ["Blockwise.lean", "BlockwiseXfer.lean", "SyncShape.lean", "SyncCallSites.lean"]

POST, PUT, GET, CHANGED, CONTENT = 2, 3, 1, 68, 69


def size(szx):
    return 1024 if szx == 7 else 16 << szx


def buflen(szx, mx):
    return size(szx) if szx < 7 else (mx // 1024) * 1024


def maxes(szx, rng=None):
    """max message sizes worth combining with an exponent (BERT only with >= 1152, as the property says)"""
    if szx == 7:
        return [1152, 2048, 3500]
    return [size(szx) + 64]


def boundary_sizes(unit, blocks=3):
    s = {0, 1}
    for k in range(1, blocks + 1):
        s.update({k * unit - 1, k * unit, k * unit + 1})
    return sorted(x for x in s if x >= 0)


def tokn(hexstr):
    """token number of the line protocol for the token with these bytes (see harness tokBytes)"""
    b = bytes.fromhex(hexstr)
    if len(b) == 0:
        return 0
    if len(b) == 8:
        return int.from_bytes(b, "big")
    return 2 ** 64 + 256 ** len(b) + int.from_bytes(b, "big")


# tokens that a sloppy key function could merge (the real CRC-64 separates all of them)
TOKEN_FAMILIES = {
    "leading-zeros": ["01", "0001", "000001", "0000000000000001"],
    "trailing-zeros": ["01", "0100", "010000", "0100000000000000"],
    "prefix-extension": ["ab", "abcd", "abcdef", "abcdef0123456789"],
    "permutation": ["0102", "0201", "010200", "000102"],
    "zero-extended": ["2a", "000000000000002a", "2a00000000000000", "002a"],
}


class Case:
    def __init__(self, lines, kinds, nontrivial):
        self.lines = lines
        self.kinds = set(kinds)
        self.nontrivial = nontrivial


def cfg_line(sa, ma, sb, mb, ea=3000, eb=3000):
    return "cfg %d %d %d %d %d %d" % (sa, ma, ea, sb, mb, eb)


REQ_OTHER = "11:633034,15:743d31"     # Uri-Path "c04", Uri-Query "t=1"
RESP_OTHER = "12:2a,14:3c"            # Content-Format 42, Max-Age 60


NO_RESPONSE = [2, 8, 16, 26]          # RFC 7967: not interested in 2.xx / 4.xx / 5.xx / any response


def with_no_response(rng, code, p=0.35):
    """request options of an upload, now and then with a No-Response option (258): the application's business, the layer's
    own 2.31 / 4.08 and the transfer as such must not depend on it"""
    if code in (POST, PUT) and rng.random() < p:
        return REQ_OTHER + ",258:%02x" % rng.choice(NO_RESPONSE)
    return REQ_OTHER


def xfer_lines(tok, code, qlen, qseed, rcode, rlen, rseed, etag="-", tmo=20000, style="do", qother=REQ_OTHER):
    l = ["reg A %d %d %d %d - %s" % (tok, code, qlen, qseed, qother),
         "reg B %d %d %d %d %s %s" % (tok, rcode, rlen, rseed, etag, RESP_OTHER)]
    l.append("do %d %d" % (tok, tmo) if style == "do" else "write A %d" % tok)
    return l


def steps_bound(sa, ma, sb, mb, qlen, rlen):
    m = min(sa, sb)
    u = size(m)
    waste = max(buflen(sa, ma), buflen(sb, mb)) // u
    return 2 * (qlen // u + rlen // u + 2) + 2 * waste + 6


def plan_steps(driver, head):
    """number of `net deliver` lines the fault-free run of `head` needs (asked from the model); None if unavailable"""
    if not driver:
        return None
    lines = head + ["net deliver"] * 400 + ["end"]
    rc, out, _ = common.pipe_lines([driver, "model"], lines)
    if rc != 0 or len(out) != len(lines):
        return None
    n = 0
    for o in out[len(head):-1]:
        if o == "none":
            break
        n += 1
    return n


def fault_variants(n, depth):
    """all scripts that differ from n plain deliveries by `depth` faults (exhaustive)"""
    base = ["net deliver"] * n

    def single(script):
        outs = []
        for i in range(len(script)):
            if script[i] != "net deliver":
                continue
            for f in ["net dup", "net drop", "net swap"] + ["net replay %d" % k for k in range(0, i)][-3:] + (["net replay 0"] if i > 3 else []):
                s = list(script)
                if f.startswith("net replay") or f == "net swap":
                    s.insert(i, f)          # an extra action before the i-th delivery
                else:
                    s[i] = f
                    if f == "net dup":
                        s.insert(i + 1, "net deliver")
                outs.append(s)
        return outs
    level = [base]
    for _ in range(depth):
        nxt = []
        seen = set()
        for s in level:
            for v in single(s):
                t = tuple(v)
                if t not in seen:
                    seen.add(t)
                    nxt.append(v)
        level = nxt
    return level


def gen_cases(ctx, driver):
    rng = random.Random(ctx.seed)
    thorough = ctx.tier == "thorough"
    cases = []

    def add(lines, kinds, nontrivial=True):
        cases.append(Case(lines + ["end"], kinds, nontrivial))

    # ---- 1. every SZX pair x max sizes x sizes around every block boundary, fault-free, up / down / both, Do
    for sa in range(8):
        for sb in range(8):
            for ma in maxes(sa):
                for mb in maxes(sb):
                    if not thorough and (sa == 7 or sb == 7) and rng.random() < 0.5:
                        continue
                    ua, ub = buflen(sa, ma), buflen(sb, mb)
                    m = size(min(sa, sb))
                    for direction in ("up", "down", "both"):
                        unit = ua if direction != "down" else ub
                        sizes = set(boundary_sizes(unit)) | set(boundary_sizes(m, 2))
                        if sa == 7 or sb == 7:
                            sizes |= {1023, 1024, 1025, 1500}
                        sizes = sorted(sizes)
                        if not thorough:
                            sizes = rng.sample(sizes, min(len(sizes), 3 if m >= 256 else 5))
                        for ln in sizes:
                            if ln > 7000:
                                continue
                            tok = rng.randrange(1, 1 << 40)
                            if direction == "up":
                                qc = rng.choice([POST, PUT])
                                head = xfer_lines(tok, qc, ln, rng.randrange(200), CHANGED, 3, 1, qother=with_no_response(rng, qc))
                                nb = steps_bound(sa, ma, sb, mb, ln, 0)
                            elif direction == "down":
                                head = xfer_lines(tok, GET, 0, 0, CONTENT, ln, rng.randrange(200), etag="e%d" % rng.randrange(10))
                                nb = steps_bound(sa, ma, sb, mb, 0, ln)
                            else:
                                head = xfer_lines(tok, POST, ln, rng.randrange(200), CHANGED, ln + 5, rng.randrange(200), qother=with_no_response(rng, POST))
                                nb = steps_bound(sa, ma, sb, mb, ln, ln + 5)
                            nb = min(nb, 300 if thorough else 90)
                            add([cfg_line(sa, ma, sb, mb)] + head + ["net deliver"] * nb,
                                {"szx-%d-%d" % (sa, sb), "dir-" + direction, "faultfree", "blocks-%d" % min(4, -(-ln // max(1, m)))},
                                nontrivial=ln > m)
    # ---- 2. one-way write (O1) and pushes from B
    for sa in ([0, 1, 2, 6, 7] if not thorough else range(8)):
        for ma in maxes(sa):
            sb = rng.randrange(8)
            mb = rng.choice(maxes(sb))
            for ln in boundary_sizes(buflen(sa, ma)):
                tok = rng.randrange(1, 1 << 40)
                # once plainly, once with a No-Response option (the natural companion of the one-way style, RFC 7967)
                for nr in (None, rng.choice(NO_RESPONSE)):
                    qo = REQ_OTHER if nr is None else REQ_OTHER + ",258:%02x" % nr
                    head = xfer_lines(tok, rng.choice([POST, PUT]), ln, rng.randrange(200), CHANGED, 0, 0, style="write", qother=qo)
                    # `settle`: nothing in flight any more, no fault happened: the judge's `oneway` clause asks where the body is
                    add([cfg_line(sa, ma, sb, mb)] + head + ["net deliver"] * min(90, 2 * (ln // size(min(sa, sb)) + 4)) + ["settle"],
                        {"style-write", "oneway-settled", "dir-up", "faultfree"} | ({"no-response"} if nr else set()), nontrivial=ln >= size(sa))
    # ---- 3. fault scripts: exhaustive single (quick) / double (thorough) faults on small configurations
    small = [(0, 80, 0, 80), (1, 96, 0, 80), (0, 80, 2, 128), (7, 1152, 6, 1100)]
    for (sa, ma, sb, mb) in small:
        for direction in ("up", "down", "both"):
            unit = buflen(sa, ma) if direction != "down" else buflen(sb, mb)
            for ln in (2 * unit, 2 * unit + 1) if (sa, sb) != (7, 6) else (2 * unit + 1,):
                tok = 7
                if direction == "up":
                    head = xfer_lines(tok, POST, ln, 11, CHANGED, 3, 1, qother=REQ_OTHER + (",258:1a" if sa == 1 else ""))
                elif direction == "down":
                    head = xfer_lines(tok, GET, 0, 0, CONTENT, ln, 12, etag="e1")
                else:
                    head = xfer_lines(tok, PUT, ln, 13, CHANGED, ln, 14, etag="e2")
                head = [cfg_line(sa, ma, sb, mb)] + head
                n = plan_steps(driver, head)
                if n is None:
                    n = steps_bound(sa, ma, sb, mb, ln, ln)
                n = min(n, 24)      # a transfer that does not end (a broken tree) must not blow the enumeration up
                depth = 2 if (thorough and n <= 16) else 1
                for d in range(1, depth + 1):
                    vs = fault_variants(n, d)
                    if d == 2 and len(vs) > 2500:
                        vs = rng.sample(vs, 2500)
                    if not thorough and d == 1 and (sa, sb) == (7, 6):
                        vs = rng.sample(vs, min(len(vs), 25))
                    for v in vs:
                        add(head + v + ["net deliver"] * (n + 4), {"faults-%d" % d, "dir-" + direction, "exhaustive-faults"})
    # ---- 3b. directed: the resource changes in the middle of a download (new body, new ETag, new options) after the
    #          server lost its state; several transfers of the same direction interleaved block by block
    for (sa, ma, sb, mb) in [(0, 80, 0, 80), (1, 96, 0, 80), (2, 128, 2, 128), (6, 1100, 3, 192)]:
        u = buflen(min(sa, sb), 0)
        for nblk in (2, 3):
            ln = nblk * u + 1
            for k in range(1, 2 * nblk):
                tok = 7
                head = [cfg_line(sa, ma, sb, mb, 3000, 50),
                        "reg A %d %d 0 0 - %s" % (tok, GET, REQ_OTHER),
                        "reg B %d %d %d 21 a1 12:2a,14:3c" % (tok, CONTENT, ln),
                        "do %d 20000" % tok]
                add(head + ["net deliver"] * k + ["sleep 100", "tick B", "reg B %d %d %d 22 b2 12:2a,14:77" % (tok, CONTENT, ln + 3)] +
                    ["net deliver"] * (4 * nblk + 6), {"etag-flip", "directed-etag-flip", "dir-down", "time"})
    for (sa, ma, sb, mb) in [(0, 80, 0, 80), (1, 96, 2, 128), (3, 192, 0, 80)]:
        u = size(min(sa, sb))
        for direction in ("up", "down"):
            for ntok in (2, 3):
                toks = [101 + i for i in range(ntok)]
                lines = [cfg_line(sa, ma, sb, mb)]
                for i, t in enumerate(toks):
                    ln = 2 * max(buflen(sa, ma), buflen(sb, mb)) + 1 + i
                    if direction == "up":
                        lines += xfer_lines(t, POST, ln, 30 + i, CHANGED, 2, 40 + i)
                    else:
                        lines += xfer_lines(t, GET, 0, 0, CONTENT, ln, 50 + i, etag="e%d" % i)
                for variant in range(3):
                    script = []
                    r2 = random.Random(ctx.seed * 7 + variant)
                    for _ in range(12 * ntok * (max(buflen(sa, ma), buflen(sb, mb)) // u) + 10):
                        script.append("net swap" if r2.random() < 0.3 else "net deliver")
                    add(lines + script + ["net deliver"] * 40, {"concurrent-%d" % ntok, "directed-interleave", "dir-" + direction, "swap"})
    # ---- 3b'. the ETag is not on every block of one representation: block k of a download arrives with an ETag although
    #           the first block had none (and the reverse), and with other options of its own; the transfer goes on and what
    #           is delivered must carry the options of the first block
    for (sa, ma, sb, mb) in [(0, 80, 0, 80), (1, 96, 0, 80), (2, 128, 1, 96)]:
        u = size(min(sa, sb))
        for nblk in (2, 3, 4):
            ln = nblk * u - 3
            for k in range(1, nblk):
                for first, later in (("-", "c%dd%d" % (nblk, k)), ("a%db%d" % (nblk, k), "-")):
                    tok = 9
                    head = [cfg_line(sa, ma, sb, mb),
                            "reg A %d %d 0 0 - %s" % (tok, GET, REQ_OTHER),
                            "reg B %d %d %d 31 %s 12:2a,14:3c" % (tok, CONTENT, ln, first),
                            "do %d 20000" % tok]
                    n0 = 2 + 2 * (k - 1) * max(1, size(sb) // u)
                    for nd in sorted({2 * k, n0}):
                        add(head + ["net deliver"] * nd +
                            [inject_block("A", CONTENT, tok, 2, min(sa, sb), k, ln, later, "12:2a,14:77", 31)] +
                            ["net deliver"] * (4 * nblk + 8), {"etag-presence", "directed-etag-presence", "dir-down"})
    # ---- 3b". early negotiation (RFC 7959 section 2.4): a GET with Block2 = (s, 0, 0) / a PUT whose only block is
    #           (s, 0, 0), for every s — the value 0 = (SZX16, 0, last) is the empty option value on the wire — against
    #           bodies of 16 .. (own block size - 1) bytes and a little more; the judge's `szx` clause looks at the answer
    for c in early_negotiation_cases():
        cases.append(c)
    # ---- 3c. near-collision tokens: concurrent transfers whose tokens differ only in leading / trailing zero bytes, are
    #          prefixes, permutations or zero-extensions of each other; the receiver is fed the blocks of all of them
    #          interleaved (what several clients behind one endpoint, or one client with several calls, produce)
    for c in near_collision_cases(rng, thorough):
        cases.append(c)
    # ---- 3d. a transfer abandoned after k blocks, its entry expired but not (or: and) swept, then a new transfer with the
    #          same token and another body
    for c in stale_entry_cases(rng, thorough):
        cases.append(c)
    # ---- 3d'. the same, the two representations SHARING their first one or two whole blocks (tenth seeded round)
    for c in shared_prefix_cases(rng, thorough):
        cases.append(c)
    # ---- 3e. transfers abandoned on layers with transfer timeout 0: nothing may be held after the next sweep (clause `leak`)
    for c in zero_timeout_cases(rng, thorough):
        cases.append(c)
    # ---- 3f. block-wise notifications (observe branch of the layer)
    for c in observe_blockwise_cases(rng, thorough, driver):
        cases.append(c)
    # ---- 4. random histories: several tokens, random faults, injected stray / foreign blocks, ETag flips, expiry
    nrand = 40000 if thorough else 3000
    for _ in range(nrand):
        cases.append(random_case(rng))
    return cases


OBS_REQ_OTHER = "6:-,11:633034,15:743d31"   # Observe = 0 (register; empty value), Uri-Path "c04", Uri-Query "t=1"
FRESH_BASE = 0xF0F0000000000000             # message.GetToken under the harness' token source: FRESH_BASE + i (see c04_test.go)


def observe_blockwise_cases(rng, thorough, driver):
    """Block-wise NOTIFICATIONS (RFC 7959 section 2.6) through the line protocol: A holds a registered observation (its layer's
    getSentRequestFromOutside serves the request), B pushes a 2.05 with an Observe option and a body of several blocks through
    its layer (one-way write: an observe response is not kept in B's sending cache); A's layer draws a NEW token and fetches the
    rest with GETs (the observation's request without Observe) which B's application answers with its current resource.  The
    token source is scripted (`fresh <tok>`, else FRESH_BASE + i), so model and implementation are compared literally."""
    cases = []

    def add(lines, kinds):
        cases.append(Case(lines + ["end"], set(kinds) | {"observe-blockwise"}, True))

    def head(tok, ln, seed, etag, seq, cfg, registered=True, req_other=OBS_REQ_OTHER, resp_other=RESP_OTHER):
        l = [cfg, "reg A %d 1 0 0 - %s" % (tok, req_other)]
        if registered:
            l.append("observe A %d" % tok)
        l += ["reg B %d 69 %d %d %s 6:%02x,%s" % (tok, ln, seed, etag, seq, resp_other),
              "resource 69 %d %d %s %s" % (ln, seed, etag, resp_other)]
        return l

    def steps(sa, sb, ma, mb, ln):
        return 2 * (ln // size(min(sa, sb)) + 2) + 2 * (max(buflen(sa, ma), buflen(sb, mb)) // size(min(sa, sb))) + 4

    # 1. fault-free, exponent pairs x sizes around the block boundaries, with / without ETag, 8-byte and short original tokens
    pairs = [(sa, sb) for sa in range(8) for sb in range(8)]
    if not thorough:
        pairs = rng.sample(pairs, 14) + [(0, 0), (2, 0), (0, 3)]
    for (sa, sb) in pairs:
        ma, mb = rng.choice(maxes(sa)), rng.choice(maxes(sb))
        ub = buflen(sb, mb)
        sizes = sorted(set(boundary_sizes(ub, 3)) | set(boundary_sizes(size(min(sa, sb)), 2)))
        sizes = [x for x in sizes if x >= size(sb) and x <= 5000]
        for ln in (sizes if thorough else rng.sample(sizes, min(len(sizes), 3))):
            tok = rng.choice([rng.randrange(1, 1 << 40), (1 << 64) + 256 ** 2 + rng.randrange(1, 256 ** 2)])
            etag = rng.choice(["-", "e%d" % rng.randrange(10)])
            add(head(tok, ln, rng.randrange(200), etag, rng.randrange(2, 200), cfg_line(sa, ma, sb, mb)) +
                ["write B %d" % tok] + ["net deliver"] * min(120, steps(sa, sb, ma, mb, ln)) + ["settle"],
                {"observe-faultfree", "szx-%d-%d" % (sa, sb)})
    # 2. the observation is not registered (any more): refused, nothing is handed on
    for (sa, ma, sb, mb) in [(0, 80, 0, 80), (2, 128, 1, 96)]:
        for ln in (2 * size(sb) + 1, 3 * size(sb)):
            add(head(21, ln, 3, "e1", 9, cfg_line(sa, ma, sb, mb), registered=False) + ["write B 21"] + ["net deliver"] * 6,
                {"observe-unregistered"})
    # 3. single faults, exhaustive, on small configurations (thorough: double faults, capped)
    for (sa, ma, sb, mb) in [(0, 80, 0, 80), (1, 96, 0, 80), (0, 80, 2, 128)]:
        u = size(min(sa, sb))
        for ln in (2 * buflen(sb, mb) + 1, 3 * u):
            for etag in ("-", "e7"):
                h = head(31, ln, 17, etag, 5, cfg_line(sa, ma, sb, mb)) + ["write B 31"]
                n = plan_steps(driver, h) or steps(sa, sb, ma, mb, ln)
                n = min(n, 20)
                for d in ((1, 2) if thorough and n <= 12 else (1,)):
                    vs = fault_variants(n, d)
                    if d == 2 and len(vs) > 1200:
                        vs = rng.sample(vs, 1200)
                    for v in vs:
                        add(h + v + ["net deliver"] * (n + 4), {"observe-faults-%d" % d})
    # 4. the drawn token clashes with a live sending entry (a pending call of A under that very token): refused
    for (sa, ma, sb, mb) in [(0, 80, 0, 80), (1, 96, 2, 128)]:
        clash = 0x1122334455667788
        ln = 2 * size(sb) + 5
        h = head(41, ln, 23, "e2", 7, cfg_line(sa, ma, sb, mb))
        add(h + ["reg A %d 1 0 0 - %s" % (clash, REQ_OTHER), "do %d 20000" % clash, "fresh %d" % clash, "write B 41"] +
            ["net deliver"] * 8, {"observe-fresh-clash"})
        # ... and the same token when nothing is held under it: accepted
        add(h + ["fresh %d" % clash, "write B 41"] + ["net deliver"] * 12 + ["settle"], {"observe-fresh-scripted"})
    # 5. two notifications of one observation in flight at the same time (B serves each follow-up token with the body that
    #    notification announced): lock step, and with swaps
    for (sa, ma, sb, mb) in [(0, 80, 0, 80), (1, 96, 0, 80), (2, 128, 2, 128)]:
        u = size(min(sa, sb))
        for variant in range(4 if thorough else 2):
            l1, l2 = 2 * buflen(sb, mb) + 1 + variant, 3 * buflen(sb, mb) - variant
            tok = 51
            f1, f2 = FRESH_BASE, FRESH_BASE + 1
            lines = [cfg_line(sa, ma, sb, mb), "reg A %d 1 0 0 - %s" % (tok, OBS_REQ_OTHER), "observe A %d" % tok,
                     "reg B %d 69 %d 61 a1 6:05,%s" % (tok, l1, RESP_OTHER), "reg B %d 69 %d 61 a1 %s" % (f1, l1, RESP_OTHER),
                     "write B %d" % tok,
                     "reg B %d 69 %d 62 b2 6:06,%s" % (tok, l2, RESP_OTHER), "reg B %d 69 %d 62 b2 %s" % (f2, l2, RESP_OTHER),
                     "write B %d" % tok]
            r2 = random.Random(rng.randrange(1 << 30))
            script = []
            # (the two first blocks arrive in the order they were sent: the follow-up tokens are handed out in that order and
            #  B's answers are registered per follow-up token; afterwards the relay swaps at will)
            script = ["net deliver", "net deliver"]
            for _ in range(2 * steps(sa, sb, ma, mb, l2) + 6):
                script.append("net swap" if (variant and r2.random() < 0.3) else "net deliver")
            add(lines + script + ["net deliver"] * 30, {"observe-interleaved"})
    # 6. abandoned: a follow-up is lost, the entries under the new token expire (swept / not swept), a late block is refused
    for (sa, ma, sb, mb) in [(0, 80, 0, 80), (2, 128, 1, 96)]:
        ln = 3 * size(sb) + 2
        for k in (1, 2, 3):
            for sweep_ in (True, False):
                h = head(61, ln, 29, "e3", 4, cfg_line(sa, ma, sb, mb, 200, 200)) + ["write B 61"] + ["net deliver"] * k
                add(h + ["net drop", "sleep 250"] + (["tick A", "tick B"] if sweep_ else []) + ["net replay %d" % (k - 1), "net deliver", "net deliver"],
                    {"observe-abandoned", "time"})
    # 7. stray first blocks with nothing held: a notification whose only block carries Block2 0/last (handed on as it is; the
    #    clone under the new token just expires), and a block flagged last that is not block 0 (refused)
    for (num, more, total) in [(0, 0, 12), (2, 0, 40)]:
        h = head(71, total, 33, "-", 3, cfg_line(0, 80, 0, 80))
        blk = "inject A 69 71 - 0/%d/%d - %d - 6:03,%s 33 %d %d" % (num, more, total, RESP_OTHER, 16 * num, total - 16 * num)
        add(h + [blk] + ["net deliver"] * 6 + ["sleep 4000", "tick A"], {"observe-stray"})
    # 8. random faults
    for _ in range(1500 if thorough else 150):
        sa, sb = rng.randrange(3), rng.randrange(3)
        ma, mb = rng.choice(maxes(sa)), rng.choice(maxes(sb))
        ln = rng.randrange(size(sb), 5 * size(sb))
        tok = rng.randrange(1, 1 << 40)
        h = head(tok, ln, rng.randrange(200), rng.choice(["-", "c3"]), rng.randrange(2, 100), cfg_line(sa, ma, sb, mb)) + ["write B %d" % tok]
        script = []
        for i in range(steps(sa, sb, ma, mb, ln) + 6):
            x = rng.random()
            script.append("net deliver" if x < 0.7 else "net dup" if x < 0.8 else "net drop" if x < 0.86 else "net swap" if x < 0.93
                          else "net replay %d" % rng.randrange(0, i + 1))
        add(h + script + ["net deliver"] * 10, {"observe-random"})
    return cases



def inject_block(dst, code, tok, bt, szx, num, ln, etag, other, seed):
    u = size(szx)
    off = num * u
    plen = min(u, max(0, ln - off))
    more = 1 if off + plen < ln else 0
    blk = "%d/%d/%d" % (szx, num, more)
    return "inject %s %d %d %s %s %s %s %s %s %d %d %d" % (
        dst, code, tok, blk if bt == 1 else "-", blk if bt == 2 else "-", str(ln) if bt == 1 else "-", str(ln) if bt == 2 else "-",
        etag, other, seed, off, plen)


def early_negotiation_cases():
    out = []
    for sb, mb in [(2, 128), (4, 320), (6, 1100), (7, 1152), (7, 2048)]:
        for s_ in range(8):
            own = size(sb)
            for ln in sorted({16, 17, 33, own - 1, own, own + 1}):
                if ln < 16:
                    continue
                tok = 40 + s_
                out.append(Case([cfg_line(0, 80, sb, mb), "reg A %d %d 0 0 - %s" % (tok, GET, REQ_OTHER),
                                 "reg B %d %d %d %d e7 %s" % (tok, CONTENT, ln, 60 + s_, RESP_OTHER),
                                 "inject B %d %d - %d/0/0 - - - %s 0 0 0" % (GET, tok, s_, REQ_OTHER), "net drop", "end"],
                                {"early-negotiation", "early-block2", "dir-down"}, True))
                out.append(Case([cfg_line(0, 80, sb, mb), "reg A %d %d 8 %d - %s" % (tok, PUT, 70 + s_, REQ_OTHER),
                                 "reg B %d %d %d %d - %s" % (tok, CHANGED, ln, 60 + s_, RESP_OTHER),
                                 "inject B %d %d %d/0/0 - 8 - - %s %d 0 8" % (PUT, tok, s_, REQ_OTHER, 70 + s_), "net drop", "end"],
                                {"early-negotiation", "early-block1", "dir-both"}, True))
    return out


def near_collision_cases(rng, thorough):
    out = []
    cfgs = [(0, 80, 0, 80), (1, 96, 0, 80), (2, 128, 2, 128)]
    for fam, hexes in TOKEN_FAMILIES.items():
        subsets = [hexes[:2], [hexes[0], hexes[2]], [hexes[1], hexes[3]], hexes[:3], hexes]
        if not thorough:
            subsets = [hexes[:2], rng.choice(subsets[1:3]), hexes[:3]]
        for sub in subsets:
            toks = [tokn(h) for h in sub]
            for (sa, ma, sb, mb) in (cfgs if thorough else cfgs[:2]):
                szx = min(sa, sb)
                u = size(szx)
                nblk = 5
                for direction in ("up", "down"):
                    head = [cfg_line(sa, ma, sb, mb)]
                    lens = {}
                    for i, t in enumerate(toks):
                        ln = (nblk - 1) * u + 7 + i
                        lens[t] = ln
                        qother = "11:%s" % ("6f6e65" + "%02x" % (0x30 + i))       # Uri-Path differs per transfer
                        rother = "12:2a,14:%02x" % (0x40 + i)
                        if direction == "up":
                            head += ["reg A %d %d %d %d - %s" % (t, POST, ln, 60 + i, qother), "reg B %d %d 0 0 - %s" % (t, CHANGED, rother)]
                        else:
                            head += ["reg A %d %d 0 0 - %s" % (t, GET, qother), "reg B %d %d %d %d e%d %s" % (t, CONTENT, ln, 70 + i, i, rother)]
                    if direction == "down":
                        head += ["do %d 20000" % t for t in toks]

                    def block_line(i, t, num):
                        if direction == "up":
                            return inject_block("B", POST, t, 1, szx, num, lens[t], "-", "11:%s" % ("6f6e65" + "%02x" % (0x30 + i)), 60 + i)
                        return inject_block("A", CONTENT, t, 2, szx, num, lens[t], "e%d" % i, "12:2a,14:%02x" % (0x40 + i), 70 + i)
                    orders = []
                    # lock step, the transfer served first alternates (block k of every transfer before block k+1 of any)
                    o = []
                    for num in range(nblk):
                        idx = list(range(len(toks)))
                        if num % 2 == 1:
                            idx.reverse()
                        o += [(i, num) for i in idx]
                    orders.append(o)
                    # random interleavings that keep every transfer's own blocks in order
                    for _ in range(3 if thorough else 1):
                        nxt = [0] * len(toks)
                        o = []
                        while any(n < nblk for n in nxt):
                            i = rng.choice([k for k in range(len(toks)) if nxt[k] < nblk])
                            o.append((i, nxt[i]))
                            nxt[i] += 1
                        orders.append(o)
                    for o in orders:
                        lines = head + [block_line(i, toks[i], num) for (i, num) in o] + ["net deliver"] * 4
                        out.append(Case(lines + ["end"], {"near-collision-tokens", "tokens-" + fam, "concurrent-%d" % len(toks), "dir-" + direction}, True))
                    # the same tokens through Do (what one client does): the calls are independent, every one completes
                    if direction == "up" and len(toks) == 2:
                        lines = [cfg_line(sa, ma, sb, mb)]
                        for i, t in enumerate(toks):
                            lines += xfer_lines(t, POST, lens[t], 60 + i, CHANGED, 2, 1)
                        script = ["net swap" if rng.random() < 0.3 else "net deliver" for _ in range(40)]
                        out.append(Case(lines + script + ["net deliver"] * 30 + ["end"],
                                        {"near-collision-tokens", "tokens-" + fam, "concurrent-2", "dir-up", "swap"}, True))
    return out


def stale_entry_cases(rng, thorough):
    out = []
    cfgs = [(0, 80, 0, 80), (1, 96, 0, 80), (2, 128, 2, 128), (0, 80, 3, 192)]
    if not thorough:
        cfgs = cfgs[:2]
    for (sa, ma, sb, mb) in cfgs:
        u = size(min(sa, sb))
        ua = buflen(sa, ma)
        for direction in ("up", "down"):
            for k in (1, 2, 3):
                for sweep in ("none", "receiver", "both"):
                    for shape in ("same-length", "longer", "shorter"):
                        if not thorough and shape == "shorter" and sweep == "both":
                            continue
                        tok = rng.choice([7, tokn("01"), tokn("0001"), rng.randrange(1, 1 << 40)])
                        unit = ua if direction == "up" else buflen(sb, mb)
                        ln1 = (k + 2) * max(unit, u) + 5
                        ln2 = {"same-length": ln1, "longer": ln1 + max(unit, u) + 3, "shorter": (k + 1) * max(unit, u) + 1}[shape]
                        s1, s2 = rng.randrange(100), 100 + rng.randrange(100)
                        lines = [cfg_line(sa, ma, sb, mb, 200, 200)]
                        if direction == "up":
                            lines += xfer_lines(tok, PUT, ln1, s1, CHANGED, 3, 1, tmo=100)
                        else:
                            lines += xfer_lines(tok, GET, 0, 0, CONTENT, ln1, s1, tmo=100)
                        # k blocks reach the receiver, then the transfer is abandoned (what is in flight is lost)
                        nd = 2 * k - 1 if direction == "up" else 2 * k
                        lines += ["net deliver"] * nd + ["net drop"] * 4
                        lines += ["sleep 300"]                      # beyond the call's deadline and both expiry times
                        if sweep == "receiver":
                            lines += ["tick %s" % ("B" if direction == "up" else "A")]
                        elif sweep == "both":
                            lines += ["tick A", "tick B"]
                        if direction == "up":
                            lines += ["reg A %d %d %d %d - %s" % (tok, PUT, ln2, s2, REQ_OTHER), "do %d 20000" % tok]
                        else:
                            lines += ["reg B %d %d %d %d - %s" % (tok, CONTENT, ln2, s2, RESP_OTHER), "do %d 20000" % tok]
                        lines += ["net deliver"] * (2 * (ln2 // u + 3) + 4)
                        out.append(Case(lines + ["end"], {"stale-entry", "stale-sweep-" + sweep, "dir-" + direction, "time"}, True))
    # the same token used again for another body *within* the expiry of the abandoned transfer's entry (no ETag): the first
    # block of the new body has to restart the reassembly (RFC 7959 section 2.5)
    for (sa, ma, sb, mb) in cfgs:
        u = size(min(sa, sb))
        ua = buflen(sa, ma)
        for k in (1, 2, 3):
            for shape in ("same-length", "longer", "shorter"):
                for code in (POST, PUT):
                    tok = rng.choice([7, tokn("0001"), rng.randrange(1, 1 << 40)])
                    ln1 = (k + 2) * max(ua, u) + 5
                    ln2 = {"same-length": ln1, "longer": ln1 + max(ua, u) + 3, "shorter": (k + 1) * max(ua, u) + 1}[shape]
                    s1, s2 = rng.randrange(100), 100 + rng.randrange(100)
                    lines = [cfg_line(sa, ma, sb, mb, 3000, 3000)] + xfer_lines(tok, code, ln1, s1, CHANGED, 3, 1, tmo=100)
                    lines += ["net deliver"] * (2 * k - 1) + ["net drop"] * 4 + ["sleep 150"]
                    lines += ["reg A %d %d %d %d - %s" % (tok, code, ln2, s2, REQ_OTHER), "do %d 20000" % tok]
                    lines += ["net deliver"] * (2 * (ln2 // u + 3) + 4)
                    out.append(Case(lines + ["end"], {"token-reuse", "dir-up", "time"}, True))
    # a message that needs block-wise sending is started while another one is still held under the same token (the request
    # is replayed and the resource has changed meanwhile / a second one-way write): the second one must be refused, never
    # spliced with the first (no ETag, so the receiver could not notice)
    for (sa, ma, sb, mb) in cfgs:
        u = size(min(sa, sb))
        ub = buflen(sb, mb)
        for k in (2, 3, 4, 5):
            tok = rng.choice([7, tokn("0100"), rng.randrange(1, 1 << 40)])
            ln = 3 * max(ub, u) + 7
            lines = [cfg_line(sa, ma, sb, mb)] + xfer_lines(tok, GET, 0, 0, CONTENT, ln, rng.randrange(100), tmo=20000)
            lines += ["net deliver"] * k
            lines += ["reg B %d %d %d %d - %s" % (tok, CONTENT, ln + rng.choice([0, 3]), 100 + rng.randrange(100), RESP_OTHER), "net replay 0"]
            lines += ["net deliver"] * (2 * (ln // u + 4) + 6)
            out.append(Case(lines + ["end"], {"token-reuse-sender", "resend-while-held", "dir-down", "replay"}, True))
        ua = buflen(sa, ma)
        for k in (1, 2, 3):
            tok = rng.choice([7, rng.randrange(1, 1 << 40)])
            ln = 3 * max(ua, u) + 5
            lines = [cfg_line(sa, ma, sb, mb), "reg A %d %d %d %d - %s" % (tok, POST, ln, rng.randrange(100), REQ_OTHER),
                     "reg B %d %d 0 0 - -" % (tok, CHANGED), "write A %d" % tok]
            lines += ["net deliver"] * k
            lines += ["reg A %d %d %d %d - %s" % (tok, POST, ln + rng.choice([0, 2]), 100 + rng.randrange(100), REQ_OTHER), "write A %d" % tok]
            lines += ["net deliver"] * (2 * (ln // u + 4) + 6)
            out.append(Case(lines + ["end"], {"token-reuse-sender", "resend-while-held", "style-write", "dir-up"}, True))
    return out


def shared_prefix_cases(rng, thorough):
    """A token is used again WITHIN the transfer timeout of an abandoned transfer, for a representation that shares a prefix
    of whole blocks with the abandoned one and differs later (a resource of which only the tail changed; a log that grew; a
    form re-submitted with another last field): same first block, or same first two blocks, then other bytes — same length
    (every option of the first block, Size1 / Size2 included, is then equal too), longer, shorter.  No ETag: nothing but
    "a first block restarts" (RFC 7959 section 2.5) tells the receiver that the held blocks belong to something else.
    Downloads: the first call has no deadline and is cancelled (`do <tok> -` … `cancel <tok>`: the reassembly entry lives for
    the layer's transfer timeout), or it has one and the second call starts at that very instant (the call has returned, its
    entry is not yet expired); the server side (short timeout) has forgotten the first response.  Uploads: the first call
    ends by its deadline, the server's reassembly entry lives on.  Body specification `<s1>:<k>:<s2>`: see Driver/C04.lean."""
    out = []
    cfgs = [(0, 80, 0, 80), (1, 96, 0, 80), (0, 80, 2, 128), (2, 128, 2, 128), (6, 1100, 3, 192)]
    if not thorough:
        cfgs = cfgs[:3]
    for (sa, ma, sb, mb) in cfgs:
        u = size(min(sa, sb))
        for k in (2, 3):                    # blocks the receiver holds when the first transfer is abandoned
            for j in (1, 2):                # whole blocks the two representations share
                for shape in ("same-length", "longer", "shorter"):
                    # -- downloads
                    first = size(sb)        # B's first block comes in B's size, the rest in the negotiated one
                    shared = first + (j - 1) * u
                    ln1 = first + (k + 1) * u + 5
                    ln2 = {"same-length": ln1, "longer": ln1 + u + 3, "shorter": max(shared + 2, ln1 - u - 2)}[shape]
                    for mode in ("cancel", "deadline-now"):
                        tok = rng.choice([7, tokn("0001"), rng.randrange(1, 1 << 40)])
                        s1, s2 = rng.randrange(100), 100 + rng.randrange(100)
                        etag = "-"
                        lines = [cfg_line(sa, ma, sb, mb, 3000, 50),
                                 "reg A %d %d 0 0 - %s" % (tok, GET, REQ_OTHER),
                                 "reg B %d %d %d %d %s %s" % (tok, CONTENT, ln1, s1, etag, RESP_OTHER),
                                 "do %d %s" % (tok, "-" if mode == "cancel" else "100")]
                        lines += ["net deliver"] * (2 * k) + ["net drop"] * 3
                        if mode == "cancel":
                            lines += ["cancel %d" % tok, "sleep %d" % rng.choice([60, 150, 1000])] + (["tick B"] if rng.random() < 0.5 else [])
                        else:
                            lines += ["sleep 100"]
                        lines += ["reg B %d %d %d %d:%d:%d %s %s" % (tok, CONTENT, ln2, s1, shared, s2, etag, RESP_OTHER), "do %d 20000" % tok]
                        lines += ["net deliver"] * (2 * (ln2 // u + 3) + 4)
                        out.append(Case(lines + ["end"], {"token-reuse", "shared-prefix", "shared-prefix-%d" % j, "abandon-" + mode, "dir-down", "time"}, True))
                    # -- uploads
                    first = size(sa)
                    shared = first + (j - 1) * u
                    ln1 = first + (k + 1) * u + 5
                    ln2 = {"same-length": ln1, "longer": ln1 + u + 3, "shorter": max(shared + 2, ln1 - u - 2)}[shape]
                    code = rng.choice([POST, PUT])
                    tok = rng.choice([7, tokn("0100"), rng.randrange(1, 1 << 40)])
                    s1, s2 = rng.randrange(100), 100 + rng.randrange(100)
                    lines = [cfg_line(sa, ma, sb, mb, 3000, 3000)] + xfer_lines(tok, code, ln1, s1, CHANGED, 3, 1, tmo=100)
                    lines += ["net deliver"] * (2 * k - 1) + ["net drop"] * 3 + ["sleep 150"]
                    lines += ["reg A %d %d %d %d:%d:%d - %s" % (tok, code, ln2, s1, shared, s2, REQ_OTHER), "do %d 20000" % tok]
                    lines += ["net deliver"] * (2 * (ln2 // u + 3) + 4)
                    out.append(Case(lines + ["end"], {"token-reuse", "shared-prefix", "shared-prefix-%d" % j, "dir-up", "time"}, True))
    return out


def zero_timeout_cases(rng, thorough):
    """transfers abandoned half-way on layers whose transfer timeout is 0 (and, as a control, 3 s): at the next housekeeping
    tick — and certainly an hour later — nothing may be held any more (judge clause `leak`, evaluated at `end`)"""
    out = []
    cfgs = [(0, 80, 0, 80), (1, 96, 0, 80), (2, 128, 3, 192)]
    if not thorough:
        cfgs = cfgs[:2]
    for (sa, ma, sb, mb) in cfgs:
        u = size(min(sa, sb))
        for exp in (0, 3000):
            for k in (1, 2, 3):
                tok = rng.randrange(1, 1 << 40)
                ln = 4 * max(buflen(sa, ma), buflen(sb, mb)) + 3
                tail = ["net drop"] * 4 + ["sleep 60000", "tick A", "tick B"]
                # upload abandoned after k blocks (the reassembly entry of B)
                lines = [cfg_line(sa, ma, sb, mb, exp, exp)] + xfer_lines(tok, PUT, ln, rng.randrange(200), CHANGED, 3, 1, tmo=100)
                out.append(Case(lines + ["net deliver"] * (2 * k - 1) + tail + ["end"], {"zero-timeout" if exp == 0 else "abandoned", "abandoned-upload", "time"}, True))
                # download abandoned after k blocks (the cached response of B, the reassembly entry of A)
                lines = [cfg_line(sa, ma, sb, mb, exp, exp)] + xfer_lines(tok, GET, 0, 0, CONTENT, ln, rng.randrange(200), tmo=100)
                out.append(Case(lines + ["net deliver"] * (2 * k) + tail + ["end"], {"zero-timeout" if exp == 0 else "abandoned", "abandoned-download", "time"}, True))
                # one-way write abandoned (the cached message of A, the reassembly entry of B)
                lines = [cfg_line(sa, ma, sb, mb, exp, exp), "reg A %d %d %d %d - %s" % (tok, POST, ln, rng.randrange(200), REQ_OTHER),
                         "reg B %d %d 0 0 - -" % (tok, CHANGED), "write A %d" % tok]
                out.append(Case(lines + ["net deliver"] * (2 * k - 1) + tail + ["end"], {"zero-timeout" if exp == 0 else "abandoned", "abandoned-write", "time"}, True))
            # and a transfer that simply completes with timeout 0
            tok = rng.randrange(1, 1 << 40)
            ln = 2 * u + 1
            lines = [cfg_line(sa, ma, sb, mb, exp, exp)] + xfer_lines(tok, POST, ln, rng.randrange(200), CHANGED, ln, rng.randrange(200), tmo=20000)
            out.append(Case(lines + ["net deliver"] * 24 + ["end"], {"zero-timeout" if exp == 0 else "abandoned", "dir-both"}, True))
    return out


def extensions_around(case, k, rng):
    """a cheap search around a history on which model and implementation differ at line k: the same prefix continued by
    plain deliveries, by replays of everything the relay has seen, and by a new transfer under every token of the history
    (at once / after the expiry without a sweep / after a sweep) — judged, so that a correspondence break more often comes
    with a concrete failing input"""
    prefix = [l for l in case.lines[:k + 1] if l != "end"]
    regs = {}
    for l in prefix:
        f = l.split()
        if f[0] == "reg" and f[1] == "A":
            regs[f[2]] = f
    nhist = sum(1 for l in prefix if l in ("net deliver", "net dup", "net drop"))
    out = [prefix + ["net deliver"] * 16]
    rep = []
    for i in range(min(nhist, 12)):
        rep += ["net replay %d" % i, "net deliver", "net deliver"]
    if rep:
        out.append(prefix + rep)
    for pre in ([], ["sleep 300"], ["sleep 3500"], ["sleep 300", "tick A", "tick B"]):
        lines = prefix + pre
        for tok, f in regs.items():
            ln = int(f[4])
            lines = lines + ["reg A %s %s %d %d %s %s" % (tok, f[3], max(ln, 40), 100 + rng.randrange(100), f[6], f[7]), "do %s 20000" % tok]
            lines += ["net deliver"] * min(120, 2 * (max(ln, 40) // 16 + 3) + 4)
        if regs:
            out.append(lines)
    return [Case(l + ["end"], case.kinds | {"around-mismatch"}, True) for l in out]


def judged_cases(ctx, test_exe, driver, cases, prop, clause, tag):
    """runs histories on the real layer and reports what the C04 judge says about them (for sub-checks other properties call)"""
    res = run_lines(ctx, {"test": test_exe, "driver": driver}, cases, tag=tag)
    if res is None:
        return
    lines, owner, impl, model, judge = res
    first_of, bad = {}, {}
    for i, ci in enumerate(owner):
        first_of.setdefault(ci, i)
    for i, (l, o) in enumerate(zip(lines, impl)):
        ci = owner[i]
        if ci in bad:
            continue
        if o.startswith("panic") or " ; panic " in o:
            bad[ci] = (i - first_of[ci], "violates crash: `%s` -> %s" % (l, o[:300]))
        elif judge is not None and judge[i] != "ok":
            bad[ci] = (i - first_of[ci], "%s: observed `%s`: %s" % (l, o[:300], judge[i]))
    for ci, (k, what) in list(bad.items())[:3]:
        c = cases[ci]
        ctx.violations.append(common.Violation(clause, "%s:blockwise:%s" % (prop, sig_of(what)[4:]), what[:600],
                                               {"input": c.lines[:k + 1] + ([] if c.lines[k] == "end" else ["end"]), "kinds": sorted(c.kinds),
                                                "replay_with": "bin/check C04 --replay <this file>"}))
    ctx.count("blockwise-histories-" + tag, len(cases))


def buffers_check(ctx, test_exe, driver, prop, clause):
    """Sub-check for C13 ("no per-exchange state outlives the exchange"): block-wise transfers abandoned half-way, transfer
    timeout 0 and 3 s, swept a minute later; at the end nothing may be held (C04 judge, clause `leak`).
    test_exe = common.build_test(ctx, "c04"), driver = common.build_driver(ctx, "C04")."""
    import random as _r
    judged_cases(ctx, test_exe, driver, zero_timeout_cases(_r.Random(ctx.seed), ctx.tier == "thorough"), prop, clause, "buffers")


def pool_check(ctx, test_exe, prop, clause, trace_path=None):
    """Sub-check for C12 ("a pooled message has one owner at a time"): harness/c04 TestC04Pool — the layer over a tracking
    LIFO pool while two goroutines meet in getCachedReceivedMessage / the sweep runs during an append.  Reports double
    releases, messages handed to the handler after their release, and bodies that are not the supplied ones; the lifecycle
    trace (`scenario …`, `acq id`, `rel id`, `dlv id`) is written to trace_path (default work/<prop>/c04pool.trace).
    test_exe = common.build_test(ctx, "c04")."""
    trace_path = trace_path or os.path.join(ctx.work, "c04pool.trace")
    os.environ["VERIF_TRACE"] = trace_path
    try:
        glue_level(ctx, {"test": test_exe}, "TestC04Pool", "pool", prop=prop, clause=clause)
    finally:
        os.environ.pop("VERIF_TRACE", None)
    return trace_path


def observe_check(ctx, test_exe, prop, clause):
    """Sub-check for C08 (and anything about observe x block-wise): harness/c04 TestC04Observe — a real udp / tcp client
    connection registers observations with representation-selecting options (Uri-Query, Accept, Uri-Host); a scripted peer
    pushes notifications of 2 and 4 blocks and serves every follow-up GET by that request's full option set, with its ETag on
    all / none / only the pushed / only the fetched blocks.  Reports notifications handed over without the Observe option of
    their first block, with an Observe value no first block carried, or with a body that is not the supplied one.
    test_exe = common.build_test(ctx, "c04")."""
    glue_level(ctx, {"test": test_exe}, "TestC04Observe", "observe", prop=prop, clause=clause)


def early_negotiation_check(ctx, test_exe, driver, prop, clause):
    """Sub-check for C19 ("decoding is defined for every 24-bit value" at its use sites): early block-size negotiation with
    every wire encoding of the Block1 / Block2 value (empty = value 0, zero-padded, one byte 0x01..0x07) against a real
    tcp.Server (harness/c04 TestC04TcpServer, `earlyneg` scenarios) and, with the C04 driver, the line histories judged by
    the `szx` clause of Spec/Blockwise.lean.  test_exe = common.build_test(ctx, "c04"), driver = common.build_driver(ctx, "C04")
    (may be None: glue level only)."""
    glue_level(ctx, {"test": test_exe}, "TestC04TcpServer", "earlyneg", prop=prop, clause=clause, only_prefix="earlyneg ")
    if driver:
        judged_cases(ctx, test_exe, driver, early_negotiation_cases(), prop, clause, "earlyneg")


def etag_discipline_ok(lines):
    """generator precondition (RFC 7959 section 2.4, notes): the representations an application supplies under one token
    carry pairwise distinct ETags (an ETag never comes back for another body), and a representation without ETag is the
    only one of its token"""
    seen = {}
    for l in lines:
        f = l.split()
        if f[0] != "reg":
            continue
        key = (f[1], f[2], int(f[3]) <= 4)
        rep = (f[4], f[5], f[7])
        byetag = seen.setdefault(key, {})
        if f[6] in byetag and byetag[f[6]] != rep:
            return False
        if byetag and ((f[6] == "-") != ("-" in byetag)) :
            return False
        byetag[f[6]] = rep
    return True


def random_case(rng):
    kinds = set()
    fresh = [0]

    def fresh_etag():
        # never equal to an initial ETag (a1, b2c3) nor to an earlier fresh one of this history
        fresh[0] += 1
        return "f%03x" % fresh[0]
    sa, sb = rng.choice([0, 0, 1, 2, 3, 6, 7]), rng.choice([0, 0, 1, 2, 3, 6, 7])
    ma, mb = rng.choice(maxes(sa)), rng.choice(maxes(sb))
    ea, eb = rng.choice([3000, 3000, 200, 50]), rng.choice([3000, 3000, 200, 50])
    lines = [cfg_line(sa, ma, sb, mb, ea, eb)]
    m = size(min(sa, sb))
    ntok = rng.choice([1, 1, 2, 3])
    toks = rng.sample(range(1, 50), ntok)
    if ntok > 1 and rng.random() < 0.3:
        fam = rng.choice(sorted(TOKEN_FAMILIES))
        toks = [tokn(h) for h in rng.sample(TOKEN_FAMILIES[fam], ntok)]
        kinds.add("near-collision-tokens")
    info = {}
    for t in toks:
        direction = rng.choice(["up", "down", "both"])
        unit = buflen(sa, ma) if direction != "down" else buflen(sb, mb)
        ln = rng.choice(boundary_sizes(unit)[2:] + [rng.randrange(0, 3 * unit + 2)])
        qseed, rseed = rng.randrange(200), rng.randrange(200)
        etag = rng.choice(["-", "a1", "b2c3"])
        tmo = rng.choice([20000, 20000, 500, 100])
        qcode = rng.choice([POST, PUT])
        qother = with_no_response(rng, qcode, 0.25) if direction != "down" else REQ_OTHER
        if qother != REQ_OTHER:
            kinds.add("no-response")
        if direction == "up":
            lines += xfer_lines(t, qcode, ln, qseed, CHANGED, rng.choice([0, 3]), rseed, etag, tmo, qother=qother)
            info[t] = ["up", ln, qseed, 0, 0, etag, qcode, RESP_OTHER, qother]
        elif direction == "down":
            lines += xfer_lines(t, GET, 0, 0, CONTENT, ln, rseed, etag, tmo)
            info[t] = ["down", 0, 0, ln, rseed, etag, GET, RESP_OTHER, qother]
        else:
            rl = rng.choice([ln, unit + 1, 2 * unit])
            lines += xfer_lines(t, qcode, ln, qseed, CHANGED, rl, rseed, etag, tmo, qother=qother)
            info[t] = ["both", ln, qseed, rl, rseed, etag, qcode, RESP_OTHER, qother]
        kinds.add("dir-" + direction)
    if ntok > 1:
        kinds.add("concurrent-%d" % ntok)
    nsteps = rng.randrange(6, 40)
    nhist = 0
    for _ in range(nsteps):
        r = rng.random()
        if r < 0.62:
            lines.append("net deliver")
            nhist += 1
        elif r < 0.70:
            lines += ["net dup", "net deliver"]
            nhist += 2
            kinds.add("dup")
        elif r < 0.76:
            lines.append("net drop")
            nhist += 1
            kinds.add("drop")
        elif r < 0.81:
            lines.append("net swap")
            kinds.add("swap")
        elif r < 0.88 and nhist > 0:
            lines.append("net replay %d" % rng.randrange(nhist))
            kinds.add("replay")
        elif r < 0.93:
            # stray block for a known token: an aligned slice of the registered body (stale / out of order / final)
            t = rng.choice(toks)
            d, ql, qs, rl, rs, etag, qcode, rother, qother = info[t]
            if d == "down" or (d == "both" and rng.random() < 0.5):
                dst, code, ln, seed, bt = "A", CONTENT if d == "down" else CHANGED, rl, rs, 2
                szx = rng.choice([sb, min(sa, sb)])
                other = rother
            else:
                dst, code, ln, seed, bt = "B", qcode, ql, qs, 1
                szx = rng.choice([sa, min(sa, sb)])
                other = qother
                etag = "-"
            u = size(szx)
            nblk = max(1, -(-ln // u))
            num = rng.randrange(nblk)
            off = num * u
            plen = min(u, max(0, ln - off))
            more = 1 if off + plen < ln else 0
            if dst == "A" and etag != "-" and rng.random() < 0.25:
                # a block of another representation arrives early: B's resource changes (new body, new ETag) first
                etag = fresh_etag()
                seed = rng.randrange(200)
                other = "12:2a,14:%02x" % rng.randrange(1, 250)     # the new representation has its own Max-Age
                lines.append("reg B %d %d %d %d %s %s" % (t, code, rl, seed, etag, other))
                info[t][4], info[t][5], info[t][7] = seed, etag, other
                kinds.add("stray-other-etag")
            if dst == "A" and num > 0 and not etag.startswith("f") and rng.random() < 0.2:      # (only while the token has had one representation)
                # the peer does not put the ETag on every block (legal: e.g. the first block is pushed by other code than
                # the one that answers the follow-up GETs): a later block of the SAME body with an ETag while the first one
                # had none, or without while the first one had one — and with its own Max-Age.  Not a new representation.
                etag = fresh_etag() if etag == "-" else "-"
                other = "12:2a,14:%02x" % rng.randrange(1, 250)
                kinds.add("stray-etag-presence")
            if rng.random() < 0.08:
                # a stray block far behind the body, with a number that needs three option bytes (never appended, never final)
                num, more = rng.choice([4095, 4096, 65535, 65536, 1048575]), 1
                off, plen = num * u, 0
                kinds.add("stray-high-num")
            blk = "%d/%d/%d" % (szx, num, more)
            lines.append("inject %s %d %d %s %s %s %s %s %s %d %d %d" % (
                dst, code, t, blk if bt == 1 else "-", blk if bt == 2 else "-", str(ln) if bt == 1 else "-", str(ln) if bt == 2 else "-",
                etag, other, seed, off, plen))
            kinds.add("stray-final" if (more == 0 and num > 0) else "stray")
        elif r < 0.96:
            lines.append("sleep %d" % rng.choice([10, 60, 250, 3100]))
            if rng.random() < 0.6:
                lines.append("tick %s" % rng.choice("AB"))
            kinds.add("time")
        else:
            # B's representation changes (new body, new ETag)
            t = rng.choice(toks)
            d, ql, qs, rl, rs, etag, qcode, rother, qother = info[t]
            if d != "up" and etag != "-":
                ne = fresh_etag()
                ns = rng.randrange(200)
                no = "12:2a,14:%02x" % rng.randrange(1, 250)
                lines.append("reg B %d %d %d %d %s %s" % (t, CONTENT if d == "down" else CHANGED, rl, ns, ne, no))
                info[t][4], info[t][5], info[t][7] = ns, ne, no
                kinds.add("etag-flip")
    lines += ["net deliver"] * rng.randrange(0, 12)
    return Case(lines + ["end"], kinds | {"random"}, True)


def canon(line):
    return sorted(line.split(" ; "))


def load_corpus():
    out = []
    for p in sorted(glob.glob(os.path.join(common.VERIF, "corpus", "C04", "*.json"))):
        try:
            rep = json.load(open(p))
            if rep.get("input"):
                out.append(Case(list(rep["input"]), {"corpus"} | set(rep.get("kinds", [])), True))
        except Exception:
            pass
    return out


def sig_of(clause):
    c = clause.split("violates ", 1)[-1]
    word = c.split(":", 1)[0]
    rest = re.sub(r"token \d+", "token N", c)
    rest = re.sub(r"fnv \d+", "fnv N", rest)
    rest = re.sub(r"[0-9a-f]{16}", "H", rest)
    rest = re.sub(r"\d+", "N", rest)
    return "C04:%s" % rest[:110]


def run_lines(ctx, art, cases, tag="x"):
    lines, owner = [], []
    for ci, c in enumerate(cases):
        for l in c.lines:
            lines.append(l)
            owner.append(ci)
    impl = common.run_test_harness(ctx, art["test"], "TestC04", lines, timeout=2400, tag=tag)
    if impl is None or len(impl) != len(lines):
        return None
    model = judge = None
    if art.get("driver"):
        rc, model, _ = common.pipe_lines([art["driver"], "model"], lines)
        jl = [l + " | " + o for l, o in zip(lines, impl)]
        rc2, judge, _ = common.pipe_lines([art["driver"], "judge"], jl)
        if rc or rc2 or len(model) != len(lines) or len(judge) != len(lines):
            ctx.broken.append(("model", "C04 driver run failed", "rc %s %s" % (rc, rc2)))
            model = judge = None
    return lines, owner, impl, model, judge


def explore(ctx, art):
    gen = gen_cases(ctx, art.get("driver"))
    # (histories that re-use a token for another body *after* abandoning a transfer do so on purpose)
    sequential = {"stale-entry", "token-reuse", "token-reuse-sender"}
    bad_gen = [c for c in gen if not (c.kinds & sequential) and not etag_discipline_ok(c.lines)]
    if bad_gen:
        # must not happen: such a history is outside the property's precondition and is not run
        ctx.notes.append("generator produced %d histories that break the ETag discipline; not run" % len(bad_gen))
        ctx.count("generator-etag-discipline-broken", len(bad_gen))
        gen = [c for c in gen if (c.kinds & sequential) or etag_discipline_ok(c.lines)]
    cases = load_corpus() + gen
    nlines = sum(len(c.lines) for c in cases)
    ctx.log("cases: %d, lines: %d" % (len(cases), nlines))
    bad = {}      # case index -> (line index within the case, text)
    mism = {}
    total_lines = 0
    CH = 4000
    for base in range(0, len(cases), CH):
        chunk = cases[base:base + CH]
        res = run_lines(ctx, art, chunk)
        if res is None:
            return
        lines, owner, impl, model, judge = res
        total_lines += len(lines)
        first_of = {}
        for i, ci in enumerate(owner):
            first_of.setdefault(ci, i)
        for i, (l, o) in enumerate(zip(lines, impl)):
            ci = owner[i]
            if o.startswith("panic") or " ; panic " in o or (o == "bad-op"):
                if base + ci not in bad:
                    bad[base + ci] = (i - first_of[ci], "violates crash: `%s` -> %s" % (l, o))
                continue
            if judge is not None and judge[i] != "ok" and base + ci not in bad:
                bad[base + ci] = (i - first_of[ci], "%s: observed `%s`: %s" % (l, o[:300], judge[i]))
            if model is not None and canon(model[i]) != canon(o) and base + ci not in mism:
                mism[base + ci] = (i - first_of[ci], l, o, model[i])
        if len(bad) > 200:
            ctx.notes.append("stopped after %d cases: more than 200 failing cases" % (base + len(chunk)))
            break
    # list one failing history per distinct signature first, so that no kind of failure is crowded out by another
    def _sig(ci):
        return sig_of(bad[ci][1]) + (" [token-reuse]" if "token-reuse" in cases[ci].kinds else "")
    order, seen_sig = [], set()
    for ci in bad:
        if _sig(ci) not in seen_sig:
            seen_sig.add(_sig(ci))
            order.append(ci)
    order += [ci for ci in bad if ci not in set(order)]
    for ci in order[:6]:
        k, what = bad[ci]
        c = cases[ci]
        rep = c.lines[:k + 1] + ([] if c.lines[k] == "end" else ["end"])
        clause = what.split("violates ", 1)[-1]
        sig = sig_of(what) + (" [token-reuse]" if "token-reuse" in c.kinds else "")
        ctx.violations.append(common.Violation(clause.split(":", 1)[0], sig, what[:600],
                                               {"input": rep, "kinds": sorted(c.kinds)}))
    if len(bad) > 6:
        ctx.notes.append("%d further failing cases not listed" % (len(bad) - 6))
    if bad:
        hist = {}
        for ci, (i, what) in bad.items():
            k = sig_of(what) + (" [token-reuse]" if "token-reuse" in cases[ci].kinds else "")
            hist[k] = hist.get(k, 0) + 1
        ctx.notes.append("failing cases by signature: %s" % sorted(hist.items(), key=lambda kv: -kv[1]))
    if mism and art.get("driver"):
        # search around the mismatches: continuations of the differing histories, judged
        rng2 = random.Random(ctx.seed + 17)
        ext = []
        for ci, (k, l, o, m) in list(mism.items())[:8]:
            ext += extensions_around(cases[ci], k, rng2)
        res = run_lines(ctx, art, ext, tag="around")
        if res is not None:
            lines2, owner2, impl2, model2, judge2 = res
            first2, seen2 = {}, set()
            for i, ci in enumerate(owner2):
                first2.setdefault(ci, i)
            for i, (l2, o2) in enumerate(zip(lines2, impl2)):
                ci = owner2[i]
                if ci in seen2:
                    continue
                verdict = None
                if o2.startswith("panic") or " ; panic " in o2:
                    verdict = "violates crash: `%s` -> %s" % (l2, o2[:300])
                elif judge2 is not None and judge2[i] != "ok":
                    verdict = "%s: observed `%s`: %s" % (l2, o2[:300], judge2[i])
                if verdict:
                    seen2.add(ci)
                    if len(seen2) <= 3:
                        kk = i - first2[ci]
                        c = ext[ci]
                        ctx.violations.append(common.Violation(verdict.split("violates ", 1)[-1].split(":", 1)[0], sig_of(verdict), verdict[:600],
                                                               {"input": c.lines[:kk + 1] + ([] if c.lines[kk] == "end" else ["end"]), "kinds": sorted(c.kinds)}))
            ctx.notes.append("search around %d mismatching histories: %d continuations judged, %d failing" % (min(len(mism), 8), len(ext), len(seen2)))
    for ci, (k, l, o, m) in list(mism.items())[:3]:
        ctx.broken.append(("correspondence", "C04 model vs implementation",
                           "case %d line %d `%s`:\n impl  `%s`\n model `%s`\n case: %s" % (ci, k + 1, l, o[:500], m[:500], " ; ".join(cases[ci].lines[:k + 1])[:1500])))
    if mism:
        ctx.notes.append("%d cases where model and implementation differ" % len(mism))
    distinct = set()
    for c in cases:
        ctx.cov["evaluations"] += 1
        for k in c.kinds:
            ctx.count(k)
        if c.nontrivial:
            distinct.add(hash(tuple(c.lines)))
    ctx.cov["distinct_nontrivial"] = len(distinct)
    ctx.cov["traces_validated_against_impl"] = len(cases)
    ctx.cov["lines"] = total_lines
    ctx.cov["exhaustive"] = False
    ctx.cov["enumerated"] = ("all 8x8 SZX pairs (thorough: x all listed max message sizes and every boundary size; quick: a seeded "
                             "sample of the sizes per pair); single-fault scripts exhaustive on four small configurations x up/down/both "
                             "(thorough: double-fault scripts too, capped per configuration); directed ETag-change and interleaving cases")
    ctx.cov["rule"] = ("a case is one transfer history between two real BlockWise instances: cfg (SZX/max size/expiry of both sides), "
                       "registered request and response bodies with position dependent bytes, Do or one-way WriteMessage, then relay "
                       "decisions deliver / dup / drop / swap / replay k, injected stray or foreign blocks, sleeps, expiry sweeps, "
                       "representation (ETag) changes. non-trivial = the body spans at least two blocks or a fault was injected; "
                       "distinct by the exact line list.")
    for c in cases[:1] + [c for c in cases if "random" in c.kinds][:2]:
        ctx.sample({"history": c.lines[:14], "kinds": sorted(c.kinds)})
    guard_level(ctx, art)
    glue_level(ctx, art, "TestC04TcpServer", "tcpsrv")
    glue_level(ctx, art, "TestC04UdpDial", "udpdial")
    glue_level(ctx, art, "TestC04Discover", "discover")
    glue_level(ctx, art, "TestC04Pool", "pool")
    glue_level(ctx, art, "TestC04GiveUp", "giveup")
    glue_level(ctx, art, "TestC04Retrans", "retrans")
    glue_level(ctx, art, "TestC04Long", "long")
    glue_level(ctx, art, "TestC04Observe", "observe")
    csm_level(ctx, art)
    if ctx.tier == "thorough":
        conn_level(ctx, art)
        with common.Lock():
            rexe = common.build_test(ctx, "c04", race=True)
        if rexe:
            guard_level(ctx, art, exe=rexe, realtime=True, tag="guardrace")


def guard_level(ctx, art, exe=None, realtime=False, tag="guard"):
    """several goroutines on one token while the handler reads the delivered body slowly (harness/c04/guard_test.go)"""
    import subprocess
    exe = exe or art["test"]
    outp = os.path.join(ctx.work, tag + ".out")
    if os.path.exists(outp):
        os.remove(outp)
    env = dict(os.environ, VERIF_OUT=outp, VERIF_SEED=str(ctx.seed), VERIF_TIER=ctx.tier)
    if realtime:
        env["VERIF_REALTIME"] = "1"
    env.pop("VERIF_SCENARIO", None)
    try:
        p = subprocess.run([exe, "-test.run", "^TestC04Guard$", "-test.timeout", "600s"], cwd=ctx.work, env=env,
                           stdout=subprocess.PIPE, stderr=subprocess.STDOUT, text=True, timeout=700)
    except subprocess.TimeoutExpired:
        ctx.broken.append(("correspondence", "TestC04Guard timed out (%s)" % tag, ""))
        return
    out = open(outp).read().splitlines() if os.path.exists(outp) else []
    race = "WARNING: DATA RACE" in p.stdout
    if race:
        # the detector's report names the two accesses; the scenario that was running is the last line written
        last = out[-1] if out else "guard ?"
        ctx.violations.append(common.Violation(
            "exact", "C04:guard: data race on a transfer's entry", "race detector: two goroutines touch one token's reassembly state unsynchronised (%s)" % last,
            {"input": ["go test -race -run TestC04Guard ./c04 (harness/c04/guard_test.go)", last], "race_report": p.stdout[-3000:]}))
    if (p.returncode != 0 and not race) or not out:
        ctx.broken.append(("correspondence", "TestC04Guard failed rc=%d (%s)" % (p.returncode, tag), p.stdout[-2000:]))
        return
    n = 0
    nbad = 0
    for l in out:
        f = l.split()
        n += 1
        res = f[-1].split("=", 1)[1]
        ctx.count("%s-%s-%s" % (tag, f[1], res.split("-")[0]))
        if res.startswith("violates"):
            nbad += 1
            if nbad <= 2:
                scen = " ".join(f[1:-1])
                ctx.violations.append(common.Violation(
                    "exact", "C04:guard: " + re.sub(r"\d+", "N", res)[:80],
                    "concurrent handling of one token (%s%s): the handler read %s" % (scen, ", real time" if realtime else "", res),
                    {"input": ["go test -run TestC04Guard (harness/c04/guard_test.go)"], "scenario": scen, "realtime": realtime, "seed": ctx.seed,
                     "observed": l, "expected": "the handler reads exactly one of the supplied bodies, complete"}))
    ctx.cov[tag + "_scenarios"] = n


GLUE_FILES = {"TestC04Long": "conn_test.go", "TestC04Csm": "conn_test.go", "TestC04Pool": "pool_test.go", "TestC04GiveUp": "giveup_test.go", "TestC04Retrans": "retrans_test.go", "TestC04Observe": "observe_test.go"}


def glue_level(ctx, art, test, tag, prop="C04", clause="exact", only_prefix=None):
    """the same property on connections the library's own entry points create through options (harness/c04/glue_test.go)"""
    import subprocess
    outp = os.path.join(ctx.work, tag + ".out")
    if os.path.exists(outp):
        os.remove(outp)
    env = dict(os.environ, VERIF_OUT=outp, VERIF_SEED=str(ctx.seed), VERIF_TIER=ctx.tier)
    env.pop("VERIF_SCENARIO", None)
    try:
        p = subprocess.run([art["test"], "-test.run", "^%s$" % test, "-test.timeout", "300s"], cwd=ctx.work, env=env,
                           stdout=subprocess.PIPE, stderr=subprocess.STDOUT, text=True, timeout=400)
    except subprocess.TimeoutExpired:
        ctx.broken.append(("correspondence", "%s timed out" % test, ""))
        return
    out = open(outp).read().splitlines() if os.path.exists(outp) else []
    if p.returncode != 0 or not out:
        ctx.broken.append(("correspondence", "%s failed rc=%d" % (test, p.returncode), p.stdout[-2000:]))
        return
    if only_prefix:
        out = [l for l in out if l.split(" ", 1)[-1].startswith(only_prefix)]
    nbad = 0
    for l in out:
        f = l.split()
        res = f[-1].split("=", 1)[1]
        ctx.count("%s-%s" % (tag, res.split("-")[0]))
        if res.startswith("violates"):
            nbad += 1
            if nbad <= 2:
                scen = " ".join(f[1:-1])
                ctx.violations.append(common.Violation(
                    clause, "%s:%s: %s" % (prop, tag, re.sub(r"\d+", "N", res)[:90]),
                    "%s (%s): %s" % (test, scen, res),
                    {"input": ["go test -run %s (harness/c04/%s)" % (test, GLUE_FILES.get(test, "glue_test.go"))], "scenario": scen, "test": test, "seed": ctx.seed,
                     "observed": l, "expected": "every application is handed exactly what its own peer supplied, once, or the exchange fails"}))
    ctx.cov[tag + "_scenarios"] = len(out)
    if tag in ("udpdial", "discover") and all("skipped" in l for l in out):
        ctx.notes.append("udp.Dial scenarios skipped: no loopback socket in this environment")


def csm_level(ctx, art):
    """block-wise over a stream towards peers that announce Block-Wise-Transfer with / without / separately from
    Max-Message-Size (harness/c04/conn_test.go TestC04Csm): own and peer limits equal / smaller / larger x SZX 0..6 and BERT x
    get / post / both / one-way write through a relay that counts frames.  The transfer completes with the exact body or
    fails; an exchange that is still exchanging frames after three times what its bodies need is a `hang`."""
    import subprocess
    outp = os.path.join(ctx.work, "csm.out")
    if os.path.exists(outp):
        os.remove(outp)
    env = dict(os.environ, VERIF_OUT=outp, VERIF_SEED=str(ctx.seed), VERIF_TIER=ctx.tier)
    env.pop("VERIF_SCENARIO", None)
    try:
        p = subprocess.run([art["test"], "-test.run", "^TestC04Csm$", "-test.timeout", "300s"], cwd=ctx.work, env=env,
                           stdout=subprocess.PIPE, stderr=subprocess.STDOUT, text=True, timeout=400)
    except subprocess.TimeoutExpired:
        ctx.broken.append(("correspondence", "TestC04Csm timed out", ""))
        return
    out = open(outp).read().splitlines() if os.path.exists(outp) else []
    if p.returncode != 0 or not out:
        ctx.broken.append(("correspondence", "TestC04Csm failed rc=%d" % p.returncode, p.stdout[-2000:]))
        return
    seen_sig = {}
    for l in out:
        f = l.split()
        res = f[-1].split("=", 1)[1]
        bert = "bert" if "7" in (f[3], f[4]) else "szx0-6"
        ctx.count("csm-%s-%s-%s" % (f[1], bert, res.split("-")[0]))
        if res.startswith("violates"):
            clause = "hang" if res.startswith("violates-hang") else "oneway" if "one-way" in res else "exact"
            sig = "C04:csm:%s: %s" % (bert, re.sub(r"\d+", "N", res)[:90])
            seen_sig[sig] = seen_sig.get(sig, 0) + 1
            if seen_sig[sig] > 1 or len(seen_sig) > 4:
                continue
            scen = " ".join(f[1:-1])
            ctx.violations.append(common.Violation(
                clause, sig,
                "TestC04Csm (peer's CSM to the caller: %s, to the peer: %s; SZX %s/%s, max message size %s/%s; %s of %s + %s bytes): %s"
                % (f[1], f[2], f[3], f[4], f[5], f[6], f[7], f[8], f[9], res),
                {"input": ["go test -run TestC04Csm (harness/c04/conn_test.go)"], "scenario": scen, "test": "TestC04Csm", "seed": ctx.seed,
                 "observed": l, "expected": "a fault-free block-wise exchange over a stream completes with exactly the supplied bodies, or ends "
                                            "with an error - within a number of frames proportional to the number of blocks"}))
    if seen_sig:
        ctx.notes.append("TestC04Csm failing scenarios by signature: %s" % sorted(seen_sig.items()))
    ctx.cov["csm_scenarios"] = len(out)


def conn_level(ctx, art):
    """end-to-end Post/Get over the in-memory UDP and TCP connections (judge only)"""
    outp = os.path.join(ctx.work, "conn.out")
    if os.path.exists(outp):
        os.remove(outp)
    import subprocess
    env = dict(os.environ, VERIF_OUT=outp, VERIF_SEED=str(ctx.seed))
    try:
        p = subprocess.run([art["test"], "-test.run", "^TestC04Conn$", "-test.timeout", "600s"], cwd=ctx.work, env=env,
                           stdout=subprocess.PIPE, stderr=subprocess.STDOUT, text=True, timeout=700)
    except subprocess.TimeoutExpired:
        ctx.broken.append(("correspondence", "TestC04Conn timed out", ""))
        return
    out = open(outp).read().splitlines() if os.path.exists(outp) else []
    if p.returncode != 0 or not out:
        ctx.broken.append(("correspondence", "TestC04Conn failed rc=%d" % p.returncode, p.stdout[-2000:]))
        return
    n = 0
    for l in out:
        f = l.split()
        if f[0] == "conn":
            n += 1
            ctx.count("conn-" + f[1] + "-" + f[-1].split("=")[1].split("-")[0])
            if f[-1].startswith("violates"):
                ctx.violations.append(common.Violation("exact", "C04:conn:" + re.sub(r"\d+", "N", l)[:80], l, {"input": ["go test -run TestC04Conn", l]}))
    ctx.cov["conn_level_transfers"] = n


def keep_or_restore_driver(ctx, art):
    """The failing-input search (judge) must run even when the tree under test no longer lets the driver build
    (a regenerated fact that does not compile, a model edit in progress): keep a copy of the last driver that built
    and fall back to it — the judge only evaluates Spec/Blockwise.lean, which depends on nothing regenerated."""
    import shutil
    last = os.path.join(common.WORK, "lastgood", "drv_c04")
    if art.get("driver") and os.path.exists(art["driver"]):
        os.makedirs(os.path.dirname(last), exist_ok=True)
        try:
            shutil.copy2(art["driver"], last)
        except OSError:
            pass
        return
    for cand in (last, os.path.join(common.LEAN, ".lake", "build", "bin", "drv_c04")):
        if os.path.exists(cand):
            art["driver"] = cand
            ctx.notes.append("driver did not build: judge and model taken from the last good driver %s" % cand)
            return


def run(ctx):
    art = common.standard_prepare(ctx, MODULES, hx=False, test=True, generated=GENERATED)
    keep_or_restore_driver(ctx, art)
    if art.get("test"):
        explore(ctx, art)
    return common.finish(ctx)


def replay(ctx, rep):
    art = common.standard_prepare(ctx, MODULES, hx=False, test=True, generated=GENERATED)
    keep_or_restore_driver(ctx, art)
    lines = rep.get("input") or []
    if rep.get("scenario"):
        import subprocess
        outp = os.path.join(ctx.work, "guard_replay.out")
        env = dict(os.environ, VERIF_OUT=outp, VERIF_SEED=str(rep.get("seed", ctx.seed)), VERIF_SCENARIO=rep["scenario"], VERIF_TIER="thorough")
        if rep.get("realtime"):
            env["VERIF_REALTIME"] = "1"
        p = subprocess.run([art["test"], "-test.run", "^%s$" % rep.get("test", "TestC04Guard")], cwd=ctx.work, env=env, stdout=subprocess.PIPE,
                           stderr=subprocess.STDOUT, text=True, timeout=300)
        out = open(outp).read().splitlines() if os.path.exists(outp) else []
        print("\n".join(out) or p.stdout[-1500:])
        bad = any("violates" in l for l in out) or p.returncode != 0
        if bad:
            print("VIOLATION property=C04 replay=(replayed) still reproduces")
        return 1 if bad else 0
    if not lines or not lines[0].startswith("cfg"):
        print("replay:", rep.get("what") or rep.get("no_longer_checks"))
        return 1
    res = run_lines(ctx, art, [Case(lines, set(), True)], tag="replay")
    if res is None:
        return 1
    lines, owner, impl, model, judge = res
    bad = 0
    for i, (l, o) in enumerate(zip(lines, impl)):
        j = judge[i] if judge else "?"
        print("%s\n    implementation: %s\n    judge: %s" % (l, o, j))
        if model is not None and canon(model[i]) != canon(o):
            print("    model:          %s" % model[i])
        if j.startswith("violates") or o.startswith("panic"):
            bad += 1
    if bad:
        print("VIOLATION property=C04 replay=(replayed) still reproduces")
    return 1 if bad else 0
