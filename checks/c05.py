"""C05 — datagram duplicates never re-execute a handler (DESIGN.md §5 C05).

Proof: Props/C05.lean (dup_not_rehandled, dup_reply_equal, fresh_after_lifetime, own_mid_no_crosstalk, run_conforms) over
       Model/Dedup.lean for arbitrary event lists; Props/C05Lock.lean (mutex_per_mid, handler_once_per_mid_n,
       completed_copies_exactly_one_execution, no_deadlock, different_mids_independent, ...) over Model/DedupLockN.lean: n goroutines
       over the modelled MutexMap, for arbitrary schedules; Props/C05Opts.lean (table_admits_rfc_lengths, recode_legal,
       served_reply_is_first_reply) over Model/DedupRecode.lean: the cached reply is decoded again with the option table
       CoapOptionDefs - a reply whose options have lengths legal by their RFCs comes out as it went in.
Tie:   T — Generated/Dedup.lean: ExchangeLifetime (compiled value), lookup key, store key, per-MID lock shape of handleReq,
           checkMyMessageID constants (AST of udp/client/conn.go); Generated/OptionDefs.lean: the option table of message/option.go
           against the RFC lengths of Spec/DedupOpts.lean;
       X — scenarios on a real udp/client.Conn (in-memory session, synctest virtual clock): duplicates / reordering,
           CON/NON, handler behaviours, MIDs equal to own outgoing MIDs, both sides of 247 s (+-1 ns), copies processed
           concurrently (2..8 copies, also while the first handler runs and around the lifetime); request codes 0.01-0.08, 0.31;
           Reset replies and replies with unknown option numbers (datagrams decoded by the harness's own parser);
           replies carrying each RFC-defined option number (and unassigned ones) with every marked legal value length;
           handler log + datagrams compared with the model; the specification's judge on the observed history.
"""
import glob
import json
import os
import random

from . import common

MODULES = ["CoapVerif.Props.C05", "CoapVerif.Props.C05Lock", "CoapVerif.Props.C05Opts", "CoapVerif.Findings.C05"]
GENERATED = ["Dedup.lean", "OptionDefs.lean"]
L = 247 * 10**9
BEHS = ["pb", "pbe", "none", "sep", "empty", "hjm", "hjr", "rst", "rstc", "ox", "oc", "oxc"]
# request codes: the four methods package codes names, FETCH / PATCH / iPATCH (RFC 8132), two unassigned ones
REQ_CODES = [1, 2, 3, 4, 5, 6, 7, 8, 31]


def with_code(beh, code):
    return beh if code == 1 else "%s.%d" % (beh, code)


def code_family():
    """Every request code x CON/NON x {duplicate after the reply, 3 copies at once} on every level; the duplicate must not
    reach the handler whatever the code is."""
    out = []
    for lvl in ("", " dtlssrv"):
        for code in REQ_CODES:
            for typ in ("con", "non"):
                for beh in ("pb", "pbe"):
                    b = with_code(beh, code)
                    mid = 100 + code
                    out.append("own 0%s | recv %s %d c0de %s | recv %s %d c0de %s | par 3 %s %d c0de %s | sleep %d | recv %s %d c0de %s"
                               % (lvl, typ, mid, b, typ, mid, b, typ, mid, b, L + 1, typ, mid, b))
                out.append("own 0%s | par 4 %s %d c0de %s | recv %s %d c0de %s" % (lvl, typ, 300 + code, with_code("pb", code), typ, 300 + code, with_code("pb", code)))
    for code in REQ_CODES:
        for beh in ("pb", "none"):
            b = with_code(beh, code)
            out.append("own 0 udpsrv | recv con %d c0de %s | recv con %d c0de %s | par 3 con %d c0de %s" % (100 + code, b, 100 + code, b, 100 + code, b))
    return out


def option_family():
    """Replies that carry option numbers the library does not know (elective and critical, > 255, repeated, empty and long
    values) and Reset-typed replies: every replay must be the first reply, option for option."""
    out = []
    for lvl in ("", " dtlssrv"):
        for beh in ("ox", "oc", "oxc", "rst", "rstc"):
            for typ in ("con", "non"):
                other = "non" if typ == "con" else "con"
                out.append("own 0%s | recv %s 77 beef %s | recv %s 77 beef %s | sleep %d | recv %s 77 beef %s | par 3 %s 77 beef %s | sleep 2 | recv %s 77 beef %s"
                           % (lvl, typ, beh, typ, beh, L - 1, other, beh, typ, beh, typ, beh))
    for beh in ("ox", "oc", "oxc", "rst", "rstc"):
        out.append("own 0 udpsrv | recv con 77 beef %s | newconn | recv con 77 beef %s | par 3 con 77 beef %s" % (beh, beh, beh))
    return out


# Legal value lengths of the options a reply may carry, from the RFCs (NOT from the library's table): RFC 7252 section 5.10,
# RFC 7641 (Observe), RFC 7959 (Block2/Block1/Size2), RFC 7967 (No-Response), RFC 8613 (OSCORE), RFC 8768 (Hop-Limit),
# RFC 9177 (Q-Block1/2), RFC 9175 (Echo 1-40, Request-Tag 0-8).  Mirrored by Spec/DedupOpts.lean: rfcLen.
RFC_OPT_LEN = {1: (0, 8), 3: (1, 255), 4: (1, 8), 5: (0, 0), 6: (0, 3), 7: (0, 2), 8: (0, 255), 9: (0, 255), 11: (0, 255), 14: (0, 4),
               15: (0, 255), 16: (1, 1), 17: (0, 2), 19: (0, 3), 20: (0, 255), 23: (0, 3), 27: (0, 3), 28: (0, 4), 31: (0, 3),
               35: (1, 1034), 39: (1, 255), 60: (0, 4), 252: (1, 40), 258: (0, 1), 292: (0, 8)}
# numbers no RFC assigns (elective / critical, one / two byte option delta): any length is to be passed on
UNASSIGNED_OPTS = [2048, 2049, 65000, 65001]
# lengths where something changes: the ends of the legal range and their neighbours, 8/9 (a uint64 / the shortest limits), 12/13 and
# 268/269 (the option header grows), 40/41, 255/256
LEN_MARKS = [0, 1, 2, 3, 4, 7, 8, 9, 12, 13, 14, 39, 40, 41, 254, 255, 256, 268, 269, 270, 1033, 1034]


def legal_lengths(oid):
    lo, hi = RFC_OPT_LEN.get(oid, (0, 1034))
    return [n for n in LEN_MARKS if lo <= n <= hi]


def rand_ov(rng):
    oid = rng.choice(list(RFC_OPT_LEN) + UNASSIGNED_OPTS)
    return "ov-%d-%d" % (oid, rng.choice(legal_lengths(oid)))


def option_value_family():
    """A reply that carries one more option - every option number an RFC defines and some that none does - with a value of every
    marked length that is legal for it: the first copy, a duplicate, a duplicate of the other type; each must carry the option
    (the reply served to a duplicate has been through the library's encoder and decoder, with the library's option table)."""
    out = []
    n = 0
    for oid in list(RFC_OPT_LEN) + UNASSIGNED_OPTS:
        for ln in legal_lengths(oid):
            n += 1
            typ = ("con", "non")[n % 2]
            other = "non" if typ == "con" else "con"
            lvl = ("", " dtlssrv")[(n // 2) % 2]
            b = "ov-%d-%d" % (oid, ln)
            mid = 1000 + n
            out.append("own 0%s | recv %s %d 0e0f %s | recv %s %d 0e0f %s | recv %s %d 0e0f %s" % (lvl, typ, mid, b, typ, mid, b, other, mid, b))
            if n % 5 == 0 and ln <= 300:
                out.append("own 0 udpsrv | recv con %d 0e0f %s | newconn | recv con %d 0e0f %s" % (mid, b, mid, b))
    return out


def many_copies_family(rng):
    """3..8 copies of a confirmable request processed at once (k goroutines): at the start, while the handler of the first is
    still running (blk: virtual time passes in the handler), just before and just after the reply-cache lifetime, with and
    without the housekeeping sweep - one execution per lifetime, identical replies."""
    out = []
    for lvl in ("", " dtlssrv"):
        for k in range(3, 9):
            mid = rng.randrange(0, 15000)
            for beh in ("pb", "none", "empty", "rst") if k in (3, 8) else (rng.choice(["pb", "pbe", "none", "empty", "rst", "oc"]),):
                tick = " | tick" if k % 2 else ""
                out.append("own 0%s | par %d con %d %04x %s | sleep %d | par %d con %d %04x %s | sleep 2%s | par %d con %d %04x %s | recv con %d %04x %s"
                           % (lvl, k, mid, mid, beh, L - 1, k, mid, mid, beh, tick, k, mid, mid, beh, mid, mid, beh))
            dur = rng.choice([1, 5000, 10**9, L - 1, L + 1])
            out.append("own 0%s | blk con %d %04x %d %d con | recv con %d %04x blk | sleep %d%s | par %d con %d %04x blk"
                       % (lvl, mid + 1, mid + 1, dur, k, mid + 1, mid + 1, L + 1, " | tick" if k % 2 == 0 else "", k, mid + 1, mid + 1))
            out.append("own 0%s | blk con %d %04x %d %d con | sleep %d | par %d con %d %04x blk"
                       % (lvl, mid + 2, mid + 2, dur, k, L - 1, k, mid + 2, mid + 2))
    for k in range(3, 9):
        mid = rng.randrange(0, 15000)
        beh = ("pb", "none", "empty", "rst", "pbe", "oc")[k - 3]
        out.append("own 0 udpsrv | par %d con %d %04x %s | newconn | par %d con %d %04x %s | recv con %d %04x %s" % (k, mid, mid, beh, k, mid, mid, beh, mid, mid, beh))
    return out


def own_first(getmid):
    return (getmid - 32767 + 1) % 65536


def dtls_many_between(rng):
    """Connection created by a real dtls.Server: a request is answered, 63..70 requests with other message IDs are
    answered on the same connection, then a duplicate of the first datagram arrives (within the lifetime)."""
    out = []
    for typ, beh in (("con", "pb"), ("con", "none"), ("con", "pbe"), ("non", "pb"), ("con", "empty")):
        for n in (63, 64, 65, 70):
            mid0 = rng.randrange(0, 8000)
            ops = ["own 0 dtlssrv", "recv %s %d a1b2 %s" % (typ, mid0, beh)]
            for k in range(n):
                t2 = rng.choice(["con", "non"])     # every one of them gets a reply, i.e. a cache entry
                ops.append("recv %s %d %04x %s" % (t2, 9000 + k, k, rng.choice(["pb", "pbe", "none"] if t2 == "con" else ["pb", "pbe"])))
                if k == n // 2 and rng.random() < 0.5:
                    ops.append("tick")
            ops.append("recv %s %d a1b2 %s" % (typ, mid0, beh))
            out.append(" | ".join(ops))
    return out


def udpsrv_lines(rng, reps):
    """Connection made by a real udp.Server on a 0.0.0.0 listener (peer table): the application's NewConn(peer) in every
    position relative to the first copy and the duplicate."""
    out = []
    for beh in ("pb", "pbe", "none", "empty"):
        for pattern in ("r n d", "n r d", "r d n d", "r n n d", "r n d t d", "r r2 n d d2", "n r n d"):
            mid = rng.randrange(0, 60000)
            ops = ["own 0 udpsrv"]
            for p in pattern.split():
                if p in ("r", "d"):
                    ops.append("recv con %d aabb %s" % (mid, beh))
                elif p in ("r2", "d2"):
                    ops.append("recv con %d ccdd pbe" % ((mid + 1) % 65536))
                elif p == "n":
                    ops.append("newconn")
                else:
                    ops.append("tick")
            out.append(" | ".join(ops))
    # multicast x wildcard listener with several local addresses x de-duplication: two (three) copies of one multicast NON
    # request with unicast traffic of other peers - through the loopback address and through the address of the multicast
    # interface - before and between them
    for beh in ("pb", "pbe"):
        for pattern in ("l m i m", "i m l m", "m i m l m", "l m m i m", "m l i m", "i l m i m l m"):
            mid = rng.randrange(0, 60000)
            ops = ["own 0 udpsrv"]
            for p in pattern.split():
                ops.append({"l": "other lo", "i": "other if", "m": "mrecv non %d 11 %s" % (mid, beh)}[p])
            out.append(" | ".join(ops))
    return out * reps


def gen_scenario(rng):
    """One scenario line; returns (line, classes) where classes is a set of coverage labels."""
    cls = set()
    kind = rng.random()
    ops = []
    if kind < 0.25:
        # copies arriving while the handler is blocked (own MIDs kept far away from the request MIDs, see notes)
        ops.append("own 0")
        t = 0
        done = {}
        n = rng.randint(1, 4)
        mids = rng.sample(range(0, 16000), 3)
        for _ in range(n):
            mid = rng.choice(mids)
            tok = "%02x%02x" % (mid % 256, rng.randrange(256)) if rng.random() < 0.2 else "%04x" % mid
            typ = rng.choice(["con", "non"])
            r = rng.random()
            if mid not in done or t > done[mid] + L:
                dur = rng.choice([0, 1, 5000, 10**9, L - 1, L, L + 1])
                k = rng.randint(0, 8)
                ops.append("blk %s %d %s %d %d %s" % (typ, mid, tok, dur, k, typ if rng.random() < 0.8 else rng.choice(["con", "non"])))
                t += dur
                done[mid] = t
                cls.add("blocked-handler")
                if k:
                    cls.add("concurrent-copies")
            elif r < 0.6:
                ops.append("recv %s %d %s blk" % (typ, mid, tok))
                cls.add("dup-after-blocked")
            if rng.random() < 0.3:
                d = rng.choice([1, 10**9, L - 1, L, L + 1])
                ops.append("sleep %d" % d)
                t += d
            if rng.random() < 0.2:
                ops.append("tick")
        return " | ".join(ops), cls
    getmid = rng.choice([0, 100, rng.randrange(65536), rng.randrange(65536)])
    ops.append("own %d" % getmid)
    of = own_first(getmid)
    pool = [rng.randrange(65536) for _ in range(2)] + [(of + rng.randrange(0, 12)) % 65536 for _ in range(2)]
    if rng.random() < 0.3:
        pool.append((of + 16383 + rng.choice([-2, -1, 0, 1])) % 65536)   # checkMyMessageID guard boundary
    t = 0
    last = {}    # mid -> (time the last handler reply was produced, beh, tok, typ)
    n = rng.randint(3, 14)
    pending_sep = False
    for _ in range(n):
        r = rng.random()
        if r < 0.62:
            mid = rng.choice(pool)
            if mid in last and rng.random() < 0.85:
                _, beh, tok, typ = last[mid]
                if rng.random() < 0.12:
                    typ = "con" if typ == "non" else "non"
                    cls.add("dup-type-changed")
                if rng.random() < 0.05:
                    tok = "%04x" % rng.randrange(65536)
                cls.add("dup")
            else:
                beh = rng.choice(BEHS if rng.random() < 0.9 else ["pb"])
                if beh in ("ox", "oxc") and rng.random() < 0.7:
                    beh = "oc"                       # (the elective set has a 300 byte value: keep the histories short)
                if rng.random() < 0.08:
                    beh = rand_ov(rng)               # one more option of a legal length in the reply
                    cls.add("reply-option-of-legal-length")
                if rng.random() < 0.3:
                    beh = with_code(beh, rng.choice(REQ_CODES))
                    cls.add("request-code-not-GET")
                tok = "%04x" % rng.randrange(65536) if rng.random() < 0.95 else "-"
                typ = rng.choice(["con", "non"])
            if abs(mid - of) % 65536 < 16:
                cls.add("mid-near-own")
            # parallel copies of a NON-confirmable message whose ID sits on the guard boundary of checkMyMessageID are left out:
            # since repair F37 such a message can move the own counter, the copies' checks run before the per-ID lock, and a
            # reply to a NON request draws own IDs - whether copy B's check sees the boundary crossed depends on how many IDs
            # copy A has drawn by then (a scheduling matter the sequential model does not have)
            near_guard = typ == "non" and abs(((mid - of) % 65536) - 16383) <= 96
            if rng.random() < 0.15 and not near_guard:
                k = rng.randint(2, 8)
                ops.append("par %d %s %d %s %s" % (k, typ, mid, tok, beh))
                cls.add("parallel-process")
                if k >= 3:
                    cls.add("parallel-process-3-or-more-copies")
            else:
                ops.append("recv %s %d %s %s" % (typ, mid, tok, beh))
            cls.add(typ + "-" + beh.split(".")[0].split("-")[0])
            if beh.split(".")[0] == "sep":
                pending_sep = True
            if mid not in last or t > last[mid][0] + L:
                last[mid] = (t, beh, tok, typ)
        elif r < 0.85:
            if last and rng.random() < 0.7:
                # aim at the lifetime boundary of some earlier arrival
                mid = rng.choice(list(last))
                target = last[mid][0] + L + rng.choice([-1, 0, 1])
                if target > t:
                    ops.append("sleep %d" % (target - t))
                    cls.add("boundary%+d" % (target - last[mid][0] - L))
                    t = target
                    continue
            d = rng.choice([1, 10**6, 10**9, 100 * 10**9, L - 1, L, L + 1, 2 * L])
            ops.append("sleep %d" % d)
            t += d
        elif r < 0.93:
            ops.append("tick")
            cls.add("tick")
        elif pending_sep:
            ops.append("flush")
            pending_sep = False
            cls.add("separate-response")
        else:
            ops.append("tick")
    return " | ".join(ops), cls


def fixed_lines():
    """Boundary enumeration: request type x behaviour x offset around the lifetime x sweep / no sweep."""
    out = []
    for typ in ("con", "non"):
        for beh in BEHS:
            for off in (-1, 0, 1):
                for tick in (False, True):
                    ops = ["own 0", "recv %s 77 beef %s" % (typ, beh), "sleep %d" % (L + off)]
                    if tick:
                        ops.append("tick")
                    ops += ["recv %s 77 beef %s" % (typ, beh), "sleep 5", "recv %s 77 beef %s" % (typ, beh)]
                    out.append(" | ".join(ops))
    # requests carrying each of the first own message IDs after a NON exchange
    for getmid in (0, 100, 40000):
        of = own_first(getmid)
        for d in range(0, 6):
            for typ in ("con", "non"):
                out.append("own %d | recv non 5 a1 pb | recv %s %d b7 pb | recv %s %d b7 pb" % (getmid, typ, (of + d) % 65536, typ, (of + d) % 65536))
    return out


def corpus_lines():
    out = []
    for p in sorted(glob.glob(os.path.join(common.VERIF, "corpus", "C05", "*.json"))):
        out += json.load(open(p)).get("input", [])
    return out


def nontrivial(line):
    mids = []
    for op in line.split("|"):
        f = op.split()
        if not f:
            continue
        if f[0] == "recv":
            mids.append(f[2])
        elif f[0] == "par":
            return True
        elif f[0] == "blk":
            if int(f[5]) > 0:
                return True
            mids.append(f[2])
    return len(mids) != len(set(mids))


def level_of(line):
    f = line.split("|")[0].split()
    return f[2] if len(f) >= 3 and f[0] == "own" else "hand"


def run_lines(ctx, art, lines, tag="x"):
    # the datagram-server level needs real sockets (no synctest bubble): its own test function
    idx_u = [i for i, l in enumerate(lines) if level_of(l) == "udpsrv"]
    idx_m = [i for i, l in enumerate(lines) if level_of(l) != "udpsrv"]
    impl = [None] * len(lines)
    for idx, test, tg in ((idx_m, "TestC05", tag), (idx_u, "TestC05UDPServer", tag + "u")):
        if not idx:
            continue
        out = common.run_test_harness(ctx, art["test"], test, [lines[i] for i in idx], tag=tg, timeout=600)
        if out is None or len(out) != len(idx):
            # the harness process died (a fatal error / a panic in a goroutine of the library): the output is flushed line by
            # line, so the first line without output is the history that killed it
            n = len(out or [])
            if n < len(idx):
                bad = lines[idx[n]]
                log = (getattr(ctx, "harness_log", "") or "")
                why = next((l.strip() for l in log.splitlines() if l.startswith(("fatal error:", "panic:"))), "harness process died")
                ctx.violations.append(common.Violation("no-crash", "C05:crash:" + bad, "%s -> %s" % (bad, why),
                                                       {"input": [bad], "observed": why}))
            return None, None, None
        for i, o in zip(idx, out):
            impl[i] = o
    model = judge = None
    if art.get("driver"):
        rc, model, _ = common.pipe_lines([art["driver"], "model"], lines)
        rc2, judge, _ = common.pipe_lines([art["driver"], "judge"], [l + " || " + o for l, o in zip(lines, impl)])
        if rc or rc2 or len(model) != len(lines) or len(judge) != len(lines):
            ctx.broken.append(("model", "C05 driver run failed", ""))
            model = judge = None
    return impl, model, judge


def minimise(ctx, art, line):
    """Drop ops while the judge still rejects the implementation's history."""
    ops = [o.strip() for o in line.split("|")]
    budget = 40
    changed = True
    while changed and budget > 0:
        changed = False
        for i in range(len(ops) - 1, 0, -1):
            cand = ops[:i] + ops[i + 1:]
            budget -= 1
            impl, _, judge = run_lines(ctx, art, [" | ".join(cand)], tag="min")
            if judge and judge[0].startswith("violates"):
                ops = cand
                changed = True
                break
            if budget <= 0:
                break
    return " | ".join(ops)


def explore(ctx, art):
    rng = random.Random(ctx.seed)
    thorough = ctx.tier == "thorough"
    lines = corpus_lines() + fixed_lines()
    # the same histories on connections that the library builds itself: accepted by a dtls.Server, made by a udp.Server
    srv = dtls_many_between(random.Random(ctx.seed + 11)) + udpsrv_lines(random.Random(ctx.seed + 12), 3 if thorough else 1)
    srv += [l.replace("own 0 |", "own 0 dtlssrv |", 1) for l in fixed_lines() if l.startswith("own 0 |")]
    lines += srv
    fam = code_family() + option_family() + option_value_family() + many_copies_family(random.Random(ctx.seed + 13))
    lines += fam
    ncorpus = len(lines)
    classes = {}
    nd = 0
    for k in range(120000 if thorough else 12000):
        l, cls = gen_scenario(rng)
        lines.append(l)
        for c in cls:
            classes[c] = classes.get(c, 0) + 1
        if k % 8 == 0:
            # every eighth seeded scenario also on a connection accepted by a dtls.Server
            f = l.split(" | ", 1)
            lines.append(f[0] + " dtlssrv | " + f[1] if len(f) == 2 else f[0] + " dtlssrv")
            nd += 1
    classes["level-dtlssrv (seeded scenarios repeated on a server-made connection)"] = nd
    classes["level-dtlssrv/udpsrv (fixed families)"] = len(srv)
    classes["families: request codes 0.01-0.08/0.31, unknown options + Reset replies, reply option x legal value length, 3..8 copies at once (hand/dtlssrv/udpsrv)"] = len(fam)
    impl, model, judge = run_lines(ctx, art, lines)
    if impl is None:
        return
    distinct = set()
    nviol = 0
    for i, (l, o) in enumerate(zip(lines, impl)):
        ctx.cov["evaluations"] += 1
        if o.startswith("no-multicast-interface"):
            ctx.count("skipped: no multicast capable interface")
            continue
        if o.startswith("panic") or "bad-op" in o or "process-error" in o:
            ctx.violations.append(common.Violation("no-crash", "C05:crash:" + l, "%s -> %s" % (l, o), {"input": [l], "observed": o}))
            continue
        if model is not None and model[i].startswith("ambiguous "):
            ctx.count("schedule-dependent-own-mid (not compared)")
        elif model is not None and model[i] != o:
            ctx.broken.append(("correspondence", "C05 model vs implementation", "%s: impl `%s` model `%s`" % (l, o, model[i])))
        if judge is not None and judge[i] != "ok":
            nviol += 1
            if nviol <= 6:
                ml = minimise(ctx, art, l)
                mi, _, mj = run_lines(ctx, art, [ml], tag="min")
                clause = (mj[0].split()[1] if mj and len(mj[0].split()) > 1 else "judge")
                if any(v.signature.endswith(":" + ml) for v in ctx.violations):
                    continue
                ctx.violations.append(common.Violation(
                    clause, "C05:%s:%s" % (clause, ml), "%s: observed `%s`: %s" % (ml, mi[0] if mi else "?", mj[0] if mj else judge[i]),
                    {"input": [ml], "observed": mi[0] if mi else o, "judge": mj[0] if mj else judge[i], "found_as": l}))
        if nontrivial(l):
            distinct.add(l)
    for c, n in sorted(classes.items()):
        ctx.count(c, n)
    ctx.count("corpus+boundary-enumeration", ncorpus)
    ctx.cov["distinct_nontrivial"] = len(distinct)
    ctx.cov["traces_validated_against_impl"] = len(lines)
    ctx.cov["exhaustive"] = False
    ctx.cov["rule"] = ("one evaluation = one scenario (3-15 ops) on a real udp/client.Conn; non-trivial = some message ID arrives at least "
                       "twice (or copies are processed in parallel); distinct by scenario text. Boundary enumeration: {con,non} x 12 handler "
                       "behaviours x {247 s -1 ns, 247 s, +1 ns} x {sweep, no sweep}; requests carrying each of the first six own message IDs; "
                       "families: 9 request codes x {con,non} x levels; unknown-option / Reset replies x levels; 25 RFC option numbers + 4 unassigned x "
                       "marked legal value lengths (range ends, 8/9, 12/13, 40, 255, 268/269, 1034) in the reply x levels; 3..8 copies at once, during the "
                       "first handler, around the lifetime x levels hand / dtlssrv / udpsrv.")
    for l, o in list(zip(lines, impl))[:3] + list(zip(lines, impl))[ncorpus:ncorpus + 3]:
        ctx.sample({"input": l, "implementation": o})


def run(ctx):
    art = common.standard_prepare(ctx, MODULES, hx=False, test=True, generated=GENERATED)
    if art.get("test"):
        explore(ctx, art)
    ctx.assumptions += [
        "one arrival is one atomic model step: per-message-ID mutex of handleReq (regenerated lock shape; proved for n copies over the modelled MutexMap in Props/C05Lock.lean; exercised by the blocked-handler scenarios)",
        "MutexMap: its sections under the map lock are atomic, fewer than 65 536 goroutines refer to one key at a time (uint16 count), sync.Mutex is correct",
        "pkg/cache and pkg/sync maps behave as atomic maps (C14)",
        "a NON request counts as 'a reply was produced' only when the handler answered through the response writer",
    ]
    return common.finish(ctx)


def replay(ctx, rep):
    art = common.standard_prepare(ctx, MODULES, hx=False, test=True, generated=GENERATED)
    lines = rep.get("input") or []
    if not lines:
        print("replay file names no failing input:", rep.get("no_longer_checks"))
        return 1
    impl, model, judge = run_lines(ctx, art, lines, tag="replay")
    bad = 0
    for v in ctx.violations:
        if v.clause == "no-crash":
            print(v.what)
            bad += 1
    for l, o, m, j in zip(lines, impl or [], model or [], judge or []):
        print("%s\n  implementation: %s\n  model:          %s\n  judge:          %s" % (l, o, m, j))
        if j != "ok":
            bad += 1
    if bad:
        print("VIOLATION property=C05 replay=(replayed) still reproduces")
    return 1 if bad else 0
