"""C06 — confirmable requests are retransmitted correctly and boundedly (DESIGN.md §5 C06).

Proof: Props/C06.lean over Model/Retransmit.lean for arbitrary event lists (sends, ticks with any `now`, losses = absent
       events, acknowledgements / resets / responses at any point, cancellations, deadlines, NSTART queueing).
       Props/C06Judge.lean: the specification's judge accepts every history of the extended model (Model/RetransmitKinds.lean: requests
       of Conn.Do + Conn.Ping + Conn.WriteMessage of a confirmable non-request) - model_history_accepted, clause by clause.
Tie:   T — Generated/Retransmit.lean: exhaustion comparator, retransmit addend, expiry-before-retransmit, removal by received
           MID, clone + deferred removal (AST of udp/client/conn.go), default transmission parameters (compiled values);
       X — real cc.Do calls on a udp/client.Conn (in-memory session recording every WriteMessage, synctest virtual clock):
           every loss pattern over the 1+MAX transmissions x peer reaction x tick placement for small MAX (exhaustive), seeded
           multi-request scenarios with NSTART queueing, cancellation, deadlines, resets, early/late/duplicate responses,
           request mutation after send; pings and confirmable non-request writes (no NSTART slot); transmission log and call
           results compared with the model and judged by the spec.  Judged only: refused first write, real sockets, requests
           through Conn.WriteMessage / Conn.DoObserve with the block-wise layer on (seeded C06-U).
"""
import glob
import json
import os
import random

from . import common

MODULES = ["CoapVerif.Props.C06", "CoapVerif.Props.C06Window", "CoapVerif.Props.C06Judge", "CoapVerif.Findings.C06",
           "CoapVerif.Props.C06Busy"]
GENERATED = ["Retransmit.lean"]
REACTIONS = ["pig", "ack-resp-con", "ack-resp-non", "ack-only", "rst-resp", "resp-only", "pig-lost-then-pig", "none"]


def exhaustive_lines(mmax, acks=(1000, 2 * 10**9)):
    """One request; first copy that gets through = j; peer reaction; tick placement around every k*A."""
    out = []
    for A in acks:
        for M in range(0, mmax + 1):
            for j in list(range(0, M + 1)) + [None]:
                for reaction in REACTIONS:
                    if j is None and reaction != "none":
                        continue
                    if j is not None and reaction == "none":
                        continue
                    for style in ("after", "boundary", "before-and-after", "late-ticks"):
                        ops = ["cfg %d %d 1" % (A, M), "send 0 -"]
                        t = 0

                        def sleep_to(target):
                            nonlocal t
                            if target > t:
                                ops.append("sleep %d" % (target - t))
                                t = target
                        done = False
                        tag = 7
                        for k in range(0, M + 2):
                            # copy k is (expected to be) on the wire here (k = M+1: nothing more may be sent)
                            if j is not None and k == j and not done:
                                if reaction == "pig":
                                    ops.append("pig 0 %d" % tag)
                                elif reaction.startswith("ack-resp"):
                                    ops.append("ack 0")
                                    ops.append("sleep 5")
                                    t += 5
                                    ops.append("resp 0 %s %d" % (reaction[-3:], tag))
                                elif reaction == "ack-only":
                                    ops.append("ack 0")
                                elif reaction == "rst-resp":
                                    ops.append("rst 0")
                                    ops.append("resp 0 non %d" % tag)
                                elif reaction == "resp-only":
                                    ops.append("resp 0 con %d" % tag)
                                elif reaction == "pig-lost-then-pig":
                                    pass   # the reply to copy j is lost; the reply to copy j+1 (if there is one) arrives
                                done = True
                            elif j is not None and k == j + 1 and reaction == "pig-lost-then-pig":
                                ops.append("pig 0 %d" % tag)
                            due = (k + 1) * A
                            if style == "after":
                                sleep_to(due + 1)
                                ops.append("tick 0")
                            elif style == "boundary":
                                sleep_to(due)
                                ops.append("tick 0")
                                sleep_to(due + 1)
                                ops.append("tick 0")
                            elif style == "before-and-after":
                                sleep_to(due - 1)
                                ops.append("tick 0")
                                ops.append("tick 2")
                            else:
                                sleep_to(due + A // 2 + 3)
                                ops.append("tick 0")
                        ops.append("tick 0")
                        ops.append("ack 0")
                        ops.append("resp 0 non 9")
                        ops.append("cancel 0")
                        ops.append("tick %d" % (10 * A))
                        out.append(" | ".join(ops))
    return out


def udpsrv_lines(reps):
    """Request issued by the server side on the connection a real udp.Server returns from Server.NewConn(peer) - the peer's
    address in 4-byte and in 16-byte form - and answered through the server's socket (peer table).  Real time: ACK_TIMEOUT
    300 ms, every answer comes while fewer than 1+MAX copies are out (no reliance on the last copy's window)."""
    A = 300 * 10**6
    out = []
    for lvl in ("udpsrv4", "udpsrv16"):
        out.append("cfg %d 2 1 %s | send 0 - g | pig 0 7" % (A, lvl))
        out.append("cfg %d 2 1 %s | send 0 - p7 | ack 0 | sleep %d | tick 0 | resp 0 non 8" % (A, lvl, A + 20 * 10**6))
        out.append("cfg %d 2 1 %s | send 0 - g | resp 0 con 9" % (A, lvl))
        out.append("cfg %d 2 1 %s | send 0 - g | sleep %d | tick 0 | pig 0 6" % (A, lvl, A + 20 * 10**6))
        out.append("cfg %d 1 1 %s | send 0 - g | rst 0 | sleep %d | tick 0 | cancel 0" % (A, lvl, A + 20 * 10**6))
    return out * reps


def handler_issued_lines():
    """A request issued from inside a handler of the connection (`hsend`), then a burst of unrelated messages from the
    peer that is longer than the queue of received messages (16), then the acknowledgement / answer: all datagrams
    reach the connection through one reader in order, so the acknowledgement is behind the burst."""
    out = []
    for A in (1000, 2 * 10**9):
        for M in (1, 2, 4):
            for k in (0, 15, 16, 17, 20, 40):
                for reaction in ("ack-resp", "pig", "resp-non"):
                    for when in ("at-once", "after-copy"):
                        ops = ["cfg %d %d 1" % (A, M), "hsend 0 - %s" % ("p7" if k % 2 else "g")]
                        if when == "after-copy":
                            ops += ["sleep %d" % (A + 1), "tick 0"]
                        ops.append("burst %d" % k)
                        if reaction == "ack-resp":
                            ops += ["ack 0", "sleep %d" % (A + 1), "tick 0", "resp 0 non 7"]
                        elif reaction == "pig":
                            ops += ["pig 0 7", "sleep %d" % (A + 1), "tick 0"]
                        else:
                            ops += ["resp 0 non 7", "sleep %d" % (A + 1), "tick 0"]
                        ops += ["sleep %d" % A, "tick 0", "cancel 0"]
                        out.append(" | ".join(ops))
    # two requests: one from a handler, one from the application, NSTART 2
    out.append("cfg 1000 2 2 | send 1 - | hsend 0 - p7 | burst 17 | ack 0 | ack 1 | sleep 1001 | tick 0 | resp 0 non 5 | resp 1 con 6")
    return out


def busy_application_lines():
    """Far along in a connection's load: a handler of the application does not return (`hold` ... `release`) while the peer
    keeps sending - k unrelated messages (k around and far beyond ReceivedMessageQueueSize = 16: one in the handler, 16
    queued, the rest before the reader), then the acknowledgement / answer of the application's own confirmable request.
    Judged by Spec.RetransmitBusy: what got back during the hold is owed at the release at the latest."""
    out = []
    n = 0
    for A in (1000, 2 * 10**9):
        for M in (1, 2, 4):
            for k in (0, 1, 15, 16, 17, 24, 40, 300):
                for reaction in ("pig", "ack-resp", "resp-non", "resp-con"):
                    for when in ("at-once", "after-copy"):
                        for during in ("quiet", "pass"):
                            n += 1
                            ops = ["cfg %d %d 1" % (A, M), "send 0 - %s" % ("p7" if n % 3 == 0 else "g")]
                            if when == "after-copy":
                                ops += ["sleep %d" % (A + 1), "tick 0"]
                            ops += ["hold", "burst %d" % k]
                            if reaction == "pig":
                                ops.append("pig 0 7")
                            elif reaction == "ack-resp":
                                ops += ["ack 0", "resp 0 non 7"]
                            elif reaction == "resp-non":
                                ops.append("resp 0 non 7")
                            else:
                                ops.append("resp 0 con 7")
                            if during == "pass":
                                ops += ["sleep %d" % (A + 1), "tick 0"]
                            ops += ["release", "sleep %d" % (A + 1), "tick 0", "cancel 0"]
                            out.append(" | ".join(ops))
    # two requests of the application outstanding (NSTART 2), answers to both behind the burst; a request issued DURING the
    # hold (it takes the reading of the queue over); a ping and a confirmable write acknowledged during the hold
    for k in (15, 16, 17, 40):
        out.append("cfg 1000 2 2 | send 0 - g | send 1 - p7 | hold | burst %d | pig 1 6 | pig 0 7 | release | sleep 1001 | tick 0" % k)
        out.append("cfg 1000 2 2 | send 0 - g | hold | burst %d | pig 0 7 | send 1 - g | pig 1 6 | release | sleep 1001 | tick 0" % k)
        out.append("cfg 1000 2 1 | ping 0 - | hold | burst %d | rst 0 | release | sleep 1001 | tick 0" % k)
        out.append("cfg 1000 2 1 | wcon 0 - c3 | hold | burst %d | ack 0 | release | sleep 1001 | tick 0" % k)
        out.append("cfg 1000 2 1 | send 0 - g | hold | burst %d | rst 0 | resp 0 non 7 | release | cancel 0" % k)
    return out


def with_level(line, level):
    f = line.split(" | ", 1)
    return f[0] + " " + level + (" | " + f[1] if len(f) == 2 else "")


def last_copy_lines(acks=(1000, 2 * 10**9)):
    """All copies but the last are lost; the answer to the LAST copy arrives at various offsets after it - in particular
    just before / at / just after the instant the next copy would have been due - with and without a housekeeping pass
    in between.  Returns (line, label): label 'window' = no pass since the last copy (the judge demands success up to
    the would-be instant), 'pass-between' = a pass ran in between (O-C06-2: not demanded, outcome counted)."""
    out = []
    for A in acks:
        for M in (0, 1, 2, 4):
            for reaction in ("pig", "ack-resp", "resp-con", "resp-non"):
                for off in ("0", "1", "half", "due-1", "due", "due+1", "late"):
                    for between in (False, True):
                        ops = ["cfg %d %d 1" % (A, M), "send 0 - %s" % ("p7" if M % 2 else "g")]
                        t = 0
                        for k in range(1, M + 1):
                            ops.append("sleep %d" % (k * A + 1 - t))
                            t = k * A + 1
                            ops.append("tick 0")
                        nxt = (M + 1) * A          # a pass later than this would have sent the next copy
                        target = {"0": t, "1": t + 1, "half": t + A // 2, "due-1": nxt - 1, "due": nxt, "due+1": nxt + 1,
                                  "late": nxt + A // 2}[off]
                        if between:
                            mid = t + max(1, (target - t) // 2)
                            if mid > t:
                                ops.append("sleep %d" % (mid - t))
                                t = mid
                            ops.append("tick 0")
                        if target > t:
                            ops.append("sleep %d" % (target - t))
                            t = target
                        if reaction == "pig":
                            ops.append("pig 0 7")
                        elif reaction == "ack-resp":
                            ops += ["ack 0", "sleep 3", "resp 0 non 7"]
                        elif reaction == "resp-con":
                            ops.append("resp 0 con 7")
                        else:
                            ops.append("resp 0 non 7")
                        ops += ["tick 0", "cancel 0"]
                        out.append((" | ".join(ops), "pass-between" if between else "window"))
    return out


KINDS = ["g", "g", "q", "d", "p1", "p7", "p40", "p300", "u3", "u64", "r9", "R40"]
WKINDS = ["c3", "c0", "c40", "n9", "n300", "e"]


def entrance_lines():
    """The two other entrances of a confirmable REQUEST - Conn.WriteMessage of a request (`wreq`, one way) and Conn.DoObserve
    (`obs`, what Client.Observe calls: registration GET through Conn.WriteMessage, then the first notification) - on a
    connection with the block-wise layer ON (level bw: Conn.WriteMessage goes through BlockWise.WriteMessage, which
    transmits a copy of its own) and, for comparison, without it.  The caller's context ends (cancel / deadline) between
    the retransmissions: nothing may be sent afterwards and the call returns; or the acknowledgement / the first
    notification gets back after j copies.  A request of Conn.Do queued behind it (NSTART 1) gets the slot afterwards."""
    out = []
    for lvl in ("bw", "bw", "hand"):
        for A in (1000, 2 * 10**9):
            for M in (1, 2, 4):
                for what in ("wreq", "obs"):
                    for j in range(0, M + 1):
                        for end in ("cancel", "deadline", "ack", "answer"):
                            if lvl == "hand" and (j not in (0, M) or A != 1000):
                                continue
                            kind = " p7" if what == "wreq" and j % 2 else (" g" if what == "wreq" else "")
                            dl = "-" if end != "deadline" else str(j * A + A // 2 + 1)
                            ops = ["cfg %d %d 1 %s" % (A, M, lvl), "%s 0 %s%s" % (what, dl, kind)]
                            queued = (j + M) % 2 == 0
                            if queued:
                                ops.append("send 1 - g")
                            for k in range(1, j + 1):
                                ops += ["sleep %d" % (A + 1 if k == 1 else A), "tick 0"]
                            if end == "cancel":
                                ops.append("cancel 0")
                            elif end == "deadline":
                                ops.append("sleep %d" % (A // 2 + 2))
                            elif end == "ack":
                                ops.append("ack 0")
                                if what == "obs":
                                    ops += ["sleep 3", "resp 0 non 7"]
                            else:
                                ops.append("pig 0 7" if what == "obs" else "rst 0")
                            for k in range(j + 1, M + 3):
                                ops += ["sleep %d" % (A + 1), "tick 0"]
                            if queued:
                                ops += ["pig 1 9"]
                            ops += ["cancel 0", "tick %d" % (10 * A)]
                            out.append(" | ".join(ops))
    return out


def observe_f42_lines():
    """Finding F42 (FIXED: Conn.handle acknowledges a confirmable request by the token of its response, udp/client/conn.go
    acknowledgeByResponse): on the observe entrance (Conn.DoObserve -> NewObservation -> Conn.WriteMessage) the first notification
    that arrives BEFORE the acknowledgement used not to end the exchange; it has to now - these histories are judged like any
    other (the registration succeeds in the step of the notification, no copy after it).  The acknowledgement arrives later / never (all lost: the
    call must not fail, it was answered) / the notification comes after a retransmission; levels bw and hand; NON and CON
    notification.  Returns (line, is_control): the controls are the same histories through Conn.Do (`send`: F21 repaired in
    doInternal) and must stay clean."""
    out = []
    for lvl in ("bw", "hand"):
        for A in (1000, 2 * 10**9):
            for M in (1, 2, 4):
                for typ in ("non", "con"):
                    for what, ctl in (("obs 0 -", False), ("send 0 - g", True)):
                        head = ["cfg %d %d 1 %s" % (A, M, lvl), what]
                        out.append((" | ".join(head + ["resp 0 %s 8" % typ, "sleep %d" % (A + 1), "tick 0", "ack 0", "tick 0"]), ctl))
                        never = head + ["resp 0 %s 8" % typ]
                        for k in range(M + 2):
                            never += ["sleep %d" % (A + 1), "tick 0"]
                        out.append((" | ".join(never + ["cancel 0"]), ctl))
                        out.append((" | ".join(head + ["sleep %d" % (A + 1), "tick 0", "resp 0 %s 8" % typ, "sleep %d" % A, "tick 0",
                                                      "ack 0", "tick 0"]), ctl))
    return out


def kinds_lines(mmax, acks=(1000, 2 * 10**9)):
    """Confirmable messages that are not requests of Conn.Do: `ping` (Conn.Ping) and `wcon` (Conn.WriteMessage of a
    confirmable response / notification).  One exchange; first copy that gets through = j (or none); the peer's reaction
    (acknowledgement, reset, ACK-typed message with a payload); tick placement around every k*A; alone, or beside a request
    that holds the only NSTART slot (neither may wait for it), or with a context deadline / a housekeeping clock ahead of it."""
    out = []
    for A in acks:
        for M in range(0, mmax + 1):
            for what in ("ping", "wcon c3", "wcon n40", "wcon e"):
                for j in list(range(0, M + 1)) + [None]:
                    for reaction in ("ack", "rst", "pig", "none"):
                        if (j is None) != (reaction == "none"):
                            continue
                        for style in ("after", "boundary", "before-and-after"):
                            for beside in ("alone", "slot-held", "deadline"):
                                if beside != "alone" and style == "boundary":
                                    continue
                                ops = ["cfg %d %d 1" % (A, M)]
                                if beside == "slot-held":
                                    ops.append("send 1 - p7")
                                f = what.split()
                                dl = "-" if beside != "deadline" else str((M + 1) * A // 2 + 2)
                                ops.append("%s 0 %s%s" % (f[0], dl, " " + f[1] if len(f) > 1 else ""))
                                t = 0

                                def sleep_to(target):
                                    nonlocal t
                                    if target > t:
                                        ops.append("sleep %d" % (target - t))
                                        t = target
                                for k in range(0, M + 2):
                                    if j is not None and k == j:
                                        ops.append({"ack": "ack 0", "rst": "rst 0", "pig": "pig 0 5"}[reaction])
                                    due = (k + 1) * A
                                    if style == "after":
                                        sleep_to(due + 1)
                                        ops.append("tick 0")
                                    elif style == "boundary":
                                        sleep_to(due)
                                        ops.append("tick 0")
                                        sleep_to(due + 1)
                                        ops.append("tick 0")
                                    else:
                                        sleep_to(due - 1)
                                        ops.append("tick 0")
                                        ops.append("tick 2")
                                ops += ["tick 0", "ack 0", "rst 0", "cancel 0", "tick %d" % (10 * A)]
                                if beside == "slot-held":
                                    ops += ["pig 1 8"]
                                out.append(" | ".join(ops))
    # several pings / writes / requests outstanding together, all due in the same tick
    for A in acks:
        out.append("cfg %d 2 1 | send 0 - p7 | ping 1 - | wcon 2 - n40 | ping 3 - | send 4 - g | wcon 5 %d c3 | sleep %d | tick 0 | rst 3 | ack 2 | "
                   "sleep %d | tick 0 | pig 0 5 | sleep %d | tick 0 | sleep %d | tick 0 | ack 1 | pig 4 6 | cancel 1" % (A, 2 * A, A + 1, A, A, A))
    return out


def burst_lines(rng, reps):
    """Several requests of different kinds (with / without payload, different lengths and options) outstanding together
    (NSTART >= their number, or smaller so that some queue), all due for retransmission in the same housekeeping tick.
    Each history is repeated: the order in which one tick visits the pending entries is Go's random map order."""
    out = []
    for k in (2, 3, 5, 8):
        for M in (1, 2, 4):
            for variant in range(3):
                A = rng.choice([1000, 10**6, 2 * 10**9])
                N = k if variant < 2 else max(2, k // 2)
                kinds = [rng.choice(KINDS) for _ in range(k)]
                if variant == 0:
                    # the seeded shape: exactly one request with a payload among requests without
                    kinds = ["g"] * k
                    kinds[rng.randrange(k)] = rng.choice(["p7", "p40", "u64"])
                elif not any(x[0] in "pu" for x in kinds) or all(x[0] in "pu" for x in kinds):
                    kinds[0], kinds[-1] = "p40", "g"
                ops = ["cfg %d %d %d" % (A, M, N)]
                t = 0
                for i, kd in enumerate(kinds):
                    ops.append("send %d - %s" % (i, kd))
                    if variant == 1 and i % 2 == 1:
                        ops.append("sleep %d" % (A // 10 + 1))
                        t += A // 10 + 1
                for c in range(1, M + 2):
                    ops.append("sleep %d" % (A + 1 if c == 1 else A))   # every request sent so far is due again
                    ops.append("tick 0")
                    if c == 1 and variant == 2:
                        ops.append("ack 0")     # frees a slot: a queued request is sent while the others go on
                ops.append("tick 0")
                for i in range(k):
                    ops.append("pig %d %d" % (i, 10 + i) if i % 2 == 0 else "cancel %d" % i)
                line = " | ".join(ops)
                out += [line] * reps
    return out


def gen_scenario(rng):
    A = rng.choice([1, 1000, 10**6, 2 * 10**9])
    M = rng.choice([0, 1, 2, 3, 4, 4])
    N = rng.choice([1, 1, 1, 2, 2, 3, 0]) if rng.random() < 0.9 else rng.randrange(0, 5)
    ops = ["cfg %d %d %d" % (A, M, N)]
    cls = set(["nstart=%d" % min(N, 3), "max=%d" % M])
    nid = 0
    nreq = 0
    ids = []
    t = 0
    deadlines = set()   # absolute; kept distinct (two contexts ending at the same instant race in the Go runtime)
    n = rng.randint(4, 22)
    for _ in range(n):
        r = rng.random()
        if r < 0.18 and nid < 6:
            dl = "-"
            what = "send"
            w = rng.random()
            if w < 0.14:
                what = "ping"
                cls.add("ping")
            elif w < 0.28:
                what = "wcon"
                cls.add("confirmable-non-request-write")
            if rng.random() < 0.3:
                d = rng.choice([A + 5, 3 * A + 7, 10 * A + 3, 1]) + nid
                while t + d in deadlines:
                    d += 1
                deadlines.add(t + d)
                dl = str(d)
                cls.add("deadline")
            if what == "send":
                ops.append("send %d %s %s" % (nid, dl, rng.choice(KINDS)))
                nreq += 1
            elif what == "ping":
                ops.append("ping %d %s" % (nid, dl))
            else:
                ops.append("wcon %d %s %s" % (nid, dl, rng.choice(WKINDS)))
            ids.append(nid)
            nid += 1
            if nreq > N and N > 0:
                cls.add("queued-behind-nstart")
        elif r < 0.40:
            d = rng.choice([A - 1, A, A + 1, 1, A // 2, 2 * A + 1, rng.randrange(1, 3 * A + 2)])
            if d > 0:
                ops.append("sleep %d" % d)
                t += d
        elif r < 0.66:
            ahead = 0
            if rng.random() < 0.15:
                ahead = rng.choice([1, A, A + 1, 5 * A, 100 * A])
                cls.add("tick-ahead")
            ops.append("tick %d" % ahead)
        elif not ids:
            continue
        else:
            i = rng.choice(ids)
            k = rng.random()
            if k < 0.22:
                ops.append("ack %d" % i); cls.add("ack")
            elif k < 0.30:
                ops.append("rst %d" % i); cls.add("rst")
            elif k < 0.50:
                ops.append("pig %d %d" % (i, rng.randrange(1, 99))); cls.add("piggybacked")
            elif k < 0.72:
                ops.append("resp %d %s %d" % (i, rng.choice(["con", "non"]), rng.randrange(1, 99))); cls.add("separate-response")
            elif k < 0.88:
                ops.append("cancel %d" % i); cls.add("cancel")
            else:
                ops.append("mut %d" % i); cls.add("mutate-after-send")
    return " | ".join(ops), cls


def corpus_lines():
    out = []
    for p in sorted(glob.glob(os.path.join(common.VERIF, "corpus", "C06", "*.json"))):
        out += json.load(open(p)).get("input", [])
    return out


def is_udpsrv(line):
    f = line.split("|")[0].split()
    return len(f) == 5 and f[4].startswith("udpsrv")


def run_lines(ctx, art, lines, tag="x"):
    # the datagram-server level needs real sockets (no synctest bubble, real time): its own test function
    idx_u = [i for i, l in enumerate(lines) if is_udpsrv(l)]
    idx_m = [i for i, l in enumerate(lines) if not is_udpsrv(l)]
    impl = [None] * len(lines)
    for idx, test, tg in ((idx_m, "TestC06", tag), (idx_u, "TestC06UDPServer", tag + "u")):
        if not idx:
            continue
        out = common.run_test_harness(ctx, art["test"], test, [lines[i] for i in idx], tag=tg, timeout=900)
        if out is None or len(out) != len(idx):
            return None, None, None
        for i, o in zip(idx, out):
            impl[i] = o
    model = judge = None
    if art.get("driver"):
        rc, model, _ = common.pipe_lines([art["driver"], "model"], lines)
        rc2, judge, _ = common.pipe_lines([art["driver"], "judge"], [l + " || " + o for l, o in zip(lines, impl)])
        if rc or rc2 or len(model) != len(lines) or len(judge) != len(lines):
            ctx.broken.append(("model", "C06 driver run failed", ""))
            model = judge = None
    return impl, model, judge


REPEAT = 6   # the order in which one tick visits the pending entries is Go's random map order: failures may need retries


def fails(ctx, art, line, tag="min"):
    """Runs the line up to REPEAT times; returns (observation, judge verdict) of the first failing run, else None."""
    impl, _, judge = run_lines(ctx, art, [line] * (1 if is_udpsrv(line) else REPEAT), tag=tag)
    if not impl or not judge:
        return None
    for o, j in zip(impl, judge):
        if j.startswith("violates") and "unparsable" not in j:
            return o, j
    return None


def minimise(ctx, art, line):
    ops = [o.strip() for o in line.split("|")]
    budget = 40
    changed = True
    while changed and budget > 0:
        changed = False
        for i in range(len(ops) - 1, 0, -1):
            cand = ops[:i] + ops[i + 1:]
            budget -= 1
            if fails(ctx, art, " | ".join(cand)):
                ops = cand
                changed = True
                break
            if budget <= 0:
                break
    return " | ".join(ops)


def retransmitted(obs):
    seen = set()
    for seg in obs.split(" | "):
        f = seg.split()
        if len(f) < 1 or not f[0].startswith("tx=") or f[0] == "tx=-":
            continue
        for x in f[0][3:].split(","):
            i = x.split(".")[0]
            if i in seen:
                return True
            seen.add(i)
    return False


def explore(ctx, art):
    rng = random.Random(ctx.seed)
    thorough = ctx.tier == "thorough"
    lines = corpus_lines()
    ex = exhaustive_lines(4 if thorough else 2, acks=(1000, 2 * 10**9, 1) if thorough else (1000, 2 * 10**9))
    lines += ex
    bursts = burst_lines(random.Random(ctx.seed + 7), 12 if thorough else 4)
    lines += bursts
    lastc = last_copy_lines()
    last_label = {}
    for l, lab in lastc:
        last_label[len(lines)] = lab
        lines.append(l)
    # the same single-request histories with the parameters set through options.WithTransmission (level opt) and on a
    # connection accepted by a dtls.Server that was configured with that option (level dtlssrv; ACK_TIMEOUT below and
    # above the 2 s default, MAX_RETRANSMIT 0 included)
    lv = [with_level(l, "opt") for l in exhaustive_lines(2, acks=(1000,))]
    lv += [with_level(l, "dtlssrv") for l in exhaustive_lines(4 if thorough else 2, acks=(1000, 5 * 10**9))]
    lv += [with_level(l, "opt") for l, _ in last_copy_lines(acks=(1000,))]
    lv += [with_level(l, "dtlssrv") for l, _ in last_copy_lines(acks=(5 * 10**9,))]
    lines += lv
    # the transport refuses the first transmission of a request (the call fails at once): nothing of the exchange may stay
    # behind - no copy at a later housekeeping pass, no NSTART slot (a later request still goes out and succeeds)
    for a, m, n in ((1000, 4, 1), (2 * 10**9, 2, 1), (1000, 1, 2)):
        for lvl in ("hand", "opt"):
            for kind in ("g", "p40"):
                steps = ["cfg %d %d %d %s" % (a, m, n, lvl), "sendf 0 - %s" % kind]
                for k in range(m + 2):
                    steps += ["sleep %d" % (a + 1), "tick 0"]
                steps += ["send 1 - g", "pig 1 7", "sleep %d" % (a + 1), "tick 0"]
                lines.append(" | ".join(steps))
                lines.append(" | ".join(["cfg %d %d %d %s" % (a, m, n, lvl), "send 2 - g", "ack 2", "sendf 0 %d %s" % (50 * a, kind), "sleep %d" % (a + 1),
                                         "tick 0", "resp 2 con 5", "sleep %d" % (2 * a), "tick 0", "send 1 - g", "sleep %d" % (a + 1), "tick 0", "pig 1 9"]))
    kl = kinds_lines(3 if thorough else 2, acks=(1000, 2 * 10**9, 1) if thorough else (1000, 2 * 10**9))
    kl += [with_level(l, "opt") for l in kl[::9]] + [with_level(l, "dtlssrv") for l in kl[::9] if "send" not in l]
    lines += kl
    ctx.count("ping / confirmable non-request write (no NSTART slot): exhaustive loss patterns x reactions x tick placements", len(kl))
    el = entrance_lines()
    lines += el
    ctx.count("request through Conn.WriteMessage / Conn.DoObserve, block-wise layer on: context ends between retransmissions", len(el))
    fl = observe_f42_lines()
    lines += [l for l, _ in fl]
    ctx.count("observe entrance: first notification before the ACK (finding F42, fixed) + the same through Conn.Do (control)", len(fl))
    ul = udpsrv_lines(3 if thorough else 1)
    lines += ul
    ctx.count("level-udpsrv (server-issued request on a Server.NewConn connection, real sockets)", len(ul))
    hl = handler_issued_lines()
    lines += hl + [with_level(l, "opt") for l in hl[::7]]
    ctx.count("request-issued-from-a-handler x burst beyond the receive queue", len(hl))
    bl = busy_application_lines()
    lines += bl + [with_level(l, "opt") for l in bl[::7]]
    ctx.count("application handler does not return x burst 0..300 around the receive queue (16) x answer behind it", len(bl))
    nfixed = len(lines)
    classes = {}
    for k in range(200000 if thorough else 20000):
        l, cls = gen_scenario(rng)
        lines.append(l)
        if k % 10 == 0:
            lines.append(with_level(l, "opt"))     # every tenth seeded scenario also through the option constructor
        for c in cls:
            classes[c] = classes.get(c, 0) + 1
    impl, model, judge = run_lines(ctx, art, lines)
    if impl is None:
        return
    distinct = set()
    nviol = 0
    nbroken = 0
    for i, (l, o) in enumerate(zip(lines, impl)):
        ctx.cov["evaluations"] += 1
        if o.startswith("panic") or "bad-op" in o:
            ctx.violations.append(common.Violation("no-crash", "C06:crash:" + l, "%s -> %s" % (l, o), {"input": [l], "observed": o}))
            continue
        if model is not None and model[i] != "n/a" and model[i] != o:
            nbroken += 1
            if nbroken <= 10:
                ctx.broken.append(("correspondence", "C06 model vs implementation", "%s: impl `%s` model `%s`" % (l, o, model[i])))
        if judge is not None and judge[i] != "ok":
            ctx.count("judge-rejects/" + (judge[i].split()[1] if len(judge[i].split()) > 1 else "?"))
            nviol += 1
            if nviol <= 6:
                ml = minimise(ctx, art, l)
                r = fails(ctx, art, ml)
                if r is None:      # the minimised history did not reproduce this time: report the history as found
                    ml, r = l, (o, judge[i])
                mo, mj = r
                clause = mj.split()[1] if len(mj.split()) > 1 else "judge"
                if any(v.signature.endswith(":" + ml) for v in ctx.violations):
                    continue
                ctx.violations.append(common.Violation(
                    clause, "C06:%s:%s" % (clause, ml), "%s: observed `%s`: %s" % (ml, mo, mj),
                    {"input": [ml], "observed": mo, "judge": mj, "found_as": l,
                     "note": "schedule dependent histories are retried up to %d times on replay" % REPEAT}))
        if i in last_label:
            ok = "ret=0.ok:7" in o
            ctx.count("answer-to-last-copy/%s/%s" % (last_label[i], "call-succeeded" if ok else "call-did-not-succeed"))
        if retransmitted(o):
            distinct.add(l)
        if ".! " in o or ".!," in o:
            ctx.count("copy-differs-after-edit-of-queued-request (precondition breached, model agrees)")
        if i >= nfixed - len(bursts) and i < nfixed:
            # how many requests one tick retransmitted together
            for seg in o.split(" | "):
                n = seg.split()[0].count(",") + 1 if seg.startswith("tx=") and not seg.startswith("tx=- ") else 0
                if n >= 2:
                    ctx.count("retransmitted-in-one-tick>=2")
                    break
    for c, n in sorted(classes.items()):
        ctx.count(c, n)
    ctx.count("exhaustive-loss-patterns", len(ex))
    ctx.count("level-opt/dtlssrv (options.WithTransmission, dtls.Server-made connection)", len(lv))
    ctx.count("mixed-kinds-same-tick-bursts", len(bursts))
    ctx.cov["distinct_nontrivial"] = len(distinct)
    ctx.cov["traces_validated_against_impl"] = len(lines)
    ctx.cov["exhaustive"] = True
    ctx.cov["rule"] = ("one evaluation = one scenario on a real udp/client.Conn with real cc.Do calls; non-trivial = at least one request was "
                       "retransmitted (its earlier copy treated as lost); distinct by scenario text. Exhaustive part: MAX_RETRANSMIT 0..%d x "
                       "first copy that gets through (or none) x 8 peer reactions (piggybacked, ACK then CON/NON response, ACK only, reset, "
                       "response without ACK, reply lost then repeated, silence) x 4 tick placements (just after, exactly at then after, just "
                       "before then 1 ns after via a housekeeping clock 2 ns ahead, late) x ACK_TIMEOUT %s ns. Bursts: 2..8 requests of mixed kinds (GET, GET with queries, DELETE, POST/PUT with 1..300-byte payloads "
                       "and extra options) outstanding together and due in the same tick, each history repeated (random map order); every "
                       "retransmitted datagram is compared byte for byte with the first transmission of its request. Last-copy window: "
                       "MAX_RETRANSMIT 0/1/2/4 x 4 peer reactions x 7 arrival offsets after the last copy (0, 1 ns, half a timeout, 1 ns before / at / "
                       "1 ns after the instant the next copy would have been due, late) x {no pass, a housekeeping pass in between}."
                       % (4 if thorough else 2, "1000 / 2e9 / 1" if thorough else "1000 / 2e9"))
    for l, o in list(zip(lines, impl))[:2] + list(zip(lines, impl))[nfixed:nfixed + 3]:
        ctx.sample({"input": l, "implementation": o})


def late_lines(ctx):
    rng = random.Random(ctx.seed + 31)
    L = []
    for at in (300, 1900, 2500, 3100, 3500, 4500, 6500, 8500, 9500):
        for n in (0, 10, 16, 17, 40, 100):
            for dl in ("-", "60000"):
                L.append("late %s %d %d %s" % (dl, at, n, rng.choice(["pig", "sep"])))
    if ctx.tier != "thorough":
        L = [l for i, l in enumerate(L) if i % 2 == ctx.seed % 2 or " 3500 " in l or " 6500 " in l]
    # after the attempts are exhausted / after the caller's deadline nothing may succeed
    L += ["late - 10500 40 pig", "late - 12000 10 sep", "late 3000 3500 40 pig"]
    return L


def late_responses(ctx, art):
    """A response that gets back late - after retransmissions, and after the block-wise transfer timeout - on a connection
    whose block-wise layer is on (the default): the call must succeed with the whole body (finding F35)."""
    lines = late_lines(ctx)
    impl = common.run_test_harness(ctx, art["test"], "TestC06Late", lines, tag="late", timeout=600)
    if impl is None or len(impl) != len(lines):
        return
    rc, judge, _ = common.pipe_lines([art["driver"], "latejudge"], [l + " || " + o for l, o in zip(lines, impl)])
    if rc or len(judge) != len(lines):
        ctx.broken.append(("model", "C06 driver run failed (latejudge)", ""))
        return
    for l, o, j in zip(lines, impl, judge):
        ctx.cov["evaluations"] += 1
        f = l.split()
        ctx.count("late-%s-%s" % ("blockwise" if int(f[3]) > 16 else "single", "after-transfer-timeout" if int(f[2]) > 3000 else "early"))
        if o.startswith("panic"):
            ctx.violations.append(common.Violation("no-crash", "C06:late:panic", "%s -> %s" % (l, o[:200]), {"input": [l], "late": True, "observed": o}))
        elif j != "ok":
            sig = "C06:late:%s:%s:%s" % ("nodeadline" if f[1] == "-" else "deadline", "blockwise" if int(f[3]) > 16 else "single",
                                         "after-transfer-timeout" if int(f[2]) > 3000 else "early")
            ctx.violations.append(common.Violation("reply-before-exhaustion-succeeds", sig, "%s: observed `%s`: %s" % (l, o, j),
                                                   {"input": [l], "late": True, "observed": o, "judge": j}))


def run(ctx):
    art = common.standard_prepare(ctx, MODULES, hx=False, test=True, generated=GENERATED)
    if art.get("test"):
        explore(ctx, art)
        if art.get("driver"):
            late_responses(ctx, art)
    ctx.assumptions += [
        "a housekeeping tick is atomic (the Range-based sweep acting on a stale element while its call returns is a schedule effect outside the model)",
        "message IDs of concurrently pending requests are distinct (16-bit counter, at most a handful outstanding)",
        "x/sync semaphore.Weighted is a FIFO counting semaphore with cancellable waiters",
        "the time of a retransmission is the `now` handed to Conn.CheckExpirations",
    ]
    return common.finish(ctx)


def replay(ctx, rep):
    art = common.standard_prepare(ctx, MODULES, hx=False, test=True, generated=GENERATED)
    lines = rep.get("input") or []
    if not lines:
        print("replay file names no failing input:", rep.get("no_longer_checks"))
        return 1
    bad = 0
    if rep.get("late"):
        impl = common.run_test_harness(ctx, art["test"], "TestC06Late", lines, tag="replay")
        rc, judge, _ = common.pipe_lines([art["driver"], "latejudge"], [l + " || " + o for l, o in zip(lines, impl or [])])
        for l, o, j in zip(lines, impl or [], judge):
            print("%s: implementation `%s`  judge `%s`" % (l, o, j))
            if j != "ok":
                bad += 1
        if bad:
            print("VIOLATION property=C06 replay=(replayed) still reproduces")
        return 1 if bad else 0
    for l in lines:
        impl, model, judge = run_lines(ctx, art, [l] * REPEAT, tag="replay")
        k = next((i for i, j in enumerate(judge or []) if j != "ok"), 0)
        if impl and model and judge:
            print("%s\n  implementation: %s\n  model:          %s\n  judge:          %s" % (l, impl[k], model[k], judge[k]))
            if judge[k] != "ok":
                bad += 1
    if bad:
        print("VIOLATION property=C06 replay=(replayed) still reproduces")
    return 1 if bad else 0
