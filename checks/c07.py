"""C07 — stream framing independent of segmentation (DESIGN.md §5 C07).

Proof: Props/C07.lean — run_chunk_independent, run_delivers_sent, oversize_closes for every byte stream and chunking;
       Props/C07Opts.lean — the same run with messages that carry their options (runO_chunk_independent, runO_erase), and
       "complete": an option that is due (Spec/FramingOpts.lean, from the RFC length tables) is never skipped
       (table_admits_rfc_lengths, due_kept, walkOptsO_due).
Tie: T — length-class thresholds, option-extension constants and the signal code list are regenerated from /repo;
     X — a real tcp/client.Conn over net.Pipe (synctest): frames built by an independent Python encoder are cut into
         reads (single bytes, cuts inside headers, several frames per read, several segmentations of one stream) and the
         per-read deliveries / closed state are compared with the model and judged by the RFC-level specification.
"""
import random

from . import common

MODULES = ["CoapVerif.Props.C07", "CoapVerif.Props.C07Write", "CoapVerif.Props.C07Opts", "CoapVerif.Lemmas.FramingCodecLink"]
GENERATED = ["TcpFraming.lean", "CodecConsts.lean", "OptionDefs.lean"]
SIGNALS = [225, 226, 227, 228, 229]


# ---------------------------------------------------------------- independent frame encoder (RFC 8323 §3.2, RFC 7252 §3.1)

def ext(v):
    if v < 13:
        return v, b""
    if v < 269:
        return 13, bytes([v - 13])
    return 14, (v - 269).to_bytes(2, "big")


def enc_options(opts):
    out = b""
    prev = 0
    for num, val in opts:
        dn, de = ext(num - prev)
        ln, le = ext(len(val))
        out += bytes([dn * 16 + ln]) + de + le + val
        prev = num
    return out


def frame(code, token, opts, payload, declared=None):
    body = enc_options(opts) + ((b"\xff" + payload) if payload else b"")
    n = len(body) if declared is None else declared
    if n < 13:
        nib, e = n, b""
    elif n < 269:
        nib, e = 13, bytes([n - 13])
    elif n < 65805:
        nib, e = 14, (n - 269).to_bytes(2, "big")
    else:
        nib, e = 15, (n - 65805).to_bytes(4, "big")
    return bytes([nib * 16 + len(token)]) + e + bytes([code]) + token + body


BLOCK_OPTS = (23, 27, 28, 60)

# options by name, each with value lengths the defining RFC allows (both ends of the range): numbers the library's
# definition table lists (3 Uri-Host ... 258 No-Response) and numbers it does not list - 9 OSCORE (RFC 8613), 16 Hop-Limit
# (RFC 8768), 19/31 Q-Block (RFC 9177), 252 Echo / 292 Request-Tag (RFC 9175), unassigned even (elective: 40, 2050, 65000,
# 65534) and odd (critical: 2049, 2053, 65535) numbers.  "Complete" covers all of them (seeded C07-V dropped the even ones).
NAMED_OPTS = [(3, (1, 255)), (6, (0, 3)), (7, (0, 2)), (8, (0, 255)), (9, (0, 255)), (11, (0, 255)), (12, (0, 2)), (14, (0, 4)),
              (15, (0, 255)), (16, (1, 1)), (17, (0, 2)), (19, (0, 3)), (20, (0, 255)), (31, (0, 3)), (35, (1, 1034)),
              (39, (1, 255)), (40, (0, 300)), (252, (1, 40)), (258, (0, 1)), (292, (0, 8)), (2049, (0, 20)), (2050, (0, 20)),
              (2053, (0, 3)), (65000, (0, 270)), (65534, (0, 13)), (65535, (0, 13))]


def named_opts(rng):
    picks = sorted(rng.sample(NAMED_OPTS, rng.choice([1, 2, 3, 4, 6])))
    out = []
    for num, (lo, hi) in picks:
        for _ in range(2 if (num in (11, 15, 65000) and rng.random() < 0.3) else 1):   # repeatable options twice
            vl = rng.choice([lo, hi, min(hi, lo + 1), rng.randrange(lo, hi + 1)])
            out.append((num, bytes(rng.randrange(256) for _ in range(vl))))
    return out


def rand_frame(rng, max_size, noblock=False):
    """(frame bytes, kind); noblock: no Block1/Block2/Size1/Size2 option numbers (streams for a connection whose block-wise
    layer is enabled: re-assembly is C04's subject, here every frame must reach the handler as it is)"""
    code = rng.choice([1, 2, 3, 4, 65, 68, 69, 132, 160, 0] + SIGNALS * 2)
    token = bytes(rng.randrange(256) for _ in range(rng.choice([0, 0, 1, 2, 4, 8, rng.randrange(9)])))
    opts = []
    num = 0
    if code not in SIGNALS and rng.random() < 0.4:
        opts = named_opts(rng)
    elif code not in SIGNALS:
        for _ in range(rng.choice([0, 0, 1, 2, 3, 5])):
            num += rng.choice([0, 1, 3, 11, 12, 13, 14, 40, 255, 256, 269, 270, 300, 2000])
            if num == 0:
                num = 1
            if num > 65535:
                break
            if noblock and num in BLOCK_OPTS:
                num += 1
            vl = rng.choice([0, 1, 2, 7, 12, 13, 14, 30, 268, 269, 270])
            opts.append((num, bytes(rng.randrange(256) for _ in range(vl))))
    elif code == 225 and rng.random() < 0.5:
        opts = [(2, (rng.randrange(1, 1 << 24)).to_bytes(3, "big"))] + ([(4, b"")] if rng.random() < 0.5 else [])
    kind = rng.random()
    room = max(0, max_size - 16 - len(enc_options(opts)) - len(token))
    if kind < 0.25:
        pl = 0
    elif kind < 0.55:
        pl = rng.randrange(0, 13)
    elif kind < 0.8:
        pl = rng.choice([12, 13, 14, 200, 255, 256, 268, 269, 270, rng.randrange(13, 400)])
    else:
        pl = rng.choice([269, 300, 1024, 4000, 65804, 65805, 65806, 66000])
    pl = min(pl, room)
    payload = bytes((i * 7 + len(token)) & 0xFF for i in range(pl))
    listed = (1, 3, 4, 5, 6, 7, 8, 11, 12, 14, 15, 17, 20, 23, 27, 28, 35, 39, 60, 258)   # only for the histogram of inputs
    cls = "valid"
    if any(n not in listed and n % 2 == 0 for n, _ in opts):
        cls = "valid-opt-unlisted-elective"
    elif any(n not in listed for n, _ in opts):
        cls = "valid-opt-unlisted-critical"
    return frame(code, token, opts, payload), cls


def bad_frame(rng, max_size):
    k = rng.choice(["oversize", "oversize", "wrap32", "huge", "reserved-nibble", "trunc-opt", "optnum-overflow", "class-mismatch", "reserved-tkl"])
    tok = bytes(rng.randrange(256) for _ in range(rng.randrange(0, 9)))
    if k == "reserved-tkl":
        # RFC 8323 §3.2: TKL 9..15 is reserved — a message format error
        tkl = rng.randrange(9, 16)
        body = bytes(rng.randrange(256) for _ in range(tkl + rng.choice([0, 0, 3])))
        n = len(body) - tkl
        return bytes([min(n, 12) * 16 + tkl]) + bytes([1]) + body[: tkl + min(n, 12)], k
    if k == "oversize":
        d = max_size + rng.choice([0, 1, 2, 13, 300, 70000])   # declared body length: total certainly above the limit
        body = bytes(rng.randrange(256) for _ in range(rng.choice([0, 0, 1, 5, 40])))
        return frame(1, tok, [], b"", declared=d) + body, k
    if k == "wrap32":
        # F3: declared length 65805 + ext so that the 32-bit sum wraps to a small number
        want_total_mod = rng.randrange(2, 40)
        hdr = 1 + 4 + 1 + len(tok)
        extv = ((1 << 32) + want_total_mod - hdr - 65805) % (1 << 32)
        return bytes([0xF0 + len(tok)]) + extv.to_bytes(4, "big") + bytes([1]) + tok + bytes(rng.randrange(256) for _ in range(want_total_mod)), k
    if k == "huge":
        return bytes([0xF0 + len(tok)]) + rng.randrange(1 << 31, 1 << 32).to_bytes(4, "big") + bytes([1]) + tok, k
    if k == "reserved-nibble":
        body = bytes([rng.choice([0xF0, 0x1F, 0xF1, 0xDF])]) + b"\x00\x00"
        return frame(1, tok, [], b"", declared=len(body)) + body, k
    if k == "trunc-opt":
        body = bytes([0x15]) + b"ab"          # length 5 announced, 2 bytes present
        return frame(1, tok, [], b"", declared=len(body)) + body, k
    if k == "optnum-overflow":
        body = bytes([0xE0, 0xFF, 0xFF, 0xE0, 0xFF, 0xFF])   # two deltas of 65804: sum > 65535
        return frame(1, tok, [], b"", declared=len(body)) + body, k
    # class-mismatch: a payload marker with nothing behind it (documented leniency: no payload) — a VALID frame
    body = enc_options([(11, b"x")]) + b"\xff"
    return frame(1, tok, [], b"", declared=len(body)) + body, "marker-no-payload"


def chunkings(rng, stream, n):
    """n different segmentations of the same stream."""
    L = len(stream)
    out = []
    for style in (["bytes", "whole", "two"] + ["random"] * n)[:n]:
        if style == "whole" or L <= 1:
            cuts = []
        elif style == "bytes" and L <= 64:
            cuts = list(range(1, L))
        elif style == "two":
            cuts = [rng.randrange(1, L)]
        else:
            k = rng.randrange(1, min(12, L))
            cuts = sorted(set(rng.randrange(1, L) for _ in range(k)))
            if rng.random() < 0.5:   # cluster some cuts at the beginning (inside the first headers)
                cuts = sorted(set(cuts + [c for c in range(1, min(L, 8)) if rng.random() < 0.6]))
        pieces = [stream[a:b] for a, b in zip([0] + cuts, cuts + [L])]
        if rng.random() < 0.2:
            pieces.insert(rng.randrange(len(pieces) + 1), b"")   # a zero-length read
        out.append(pieces)
    return out


def gen_cases(ctx):
    rng = random.Random(ctx.seed)
    thorough = ctx.tier == "thorough"
    cases = []   # (cfg line, [chunk hex], meta)
    n_streams = 2500 if thorough else 500
    for i in range(n_streams):
        max_size = rng.choice([64, 300, 1152, 1152, 4096, 70000])
        cache = rng.choice([1, 2, 7, 64, 2048])
        queue = rng.choice([0, 1, 16])
        # a quarter of the streams go to the connection a tcp.Server creates for an accepted stream (configured through
        # options.With...: the wiring of the limits into the per-connection session is part of what is checked)
        srv = rng.random() < 0.25
        # one stream in eight goes to a connection that has a ping of its own outstanding : the stream starts with
        # the matching Pong, so the connection's pending-ping handler runs before the frames that follow it
        ping = (not srv) and rng.random() < 0.15
        frames = []
        kinds = []
        for _ in range(rng.choice([1, 2, 3, 5])):
            f, k = rand_frame(rng, max_size, noblock=srv)
            frames.append(f)
            kinds.append(k)
        if rng.random() < 0.45:
            f, k = bad_frame(rng, max_size)
            pos = rng.randrange(len(frames) + 1)
            frames.insert(pos, f)
            kinds.insert(pos, k)
        if ping:
            frames.insert(0, bytes([0x08, 0xe3]) + b"PPPPPPPP")   # the harness puts the ping's token in place of the placeholder
            kinds.insert(0, "pong-for-own-ping")
        stream = b"".join(frames)
        if rng.random() < 0.1:
            stream = stream[: rng.randrange(1, len(stream) + 1)]   # stream ends in the middle of a frame
        for pieces in chunkings(rng, stream, 4 if thorough else 3):
            cases.append(("%s %d %d %d" % ("cfgsrv" if srv else "cfgping" if ping else "cfg", max_size, cache, queue), [p.hex() or "-" for p in pieces],
                          {"kinds": kinds + (["via-server"] if srv else []), "len": len(stream), "chunks": len(pieces)}))
    return cases


def explore(ctx, art):
    cases = gen_cases(ctx)
    corpus = common.load_corpus(ctx) if hasattr(common, "load_corpus") else []
    lines = []
    owner = []
    for ci, (cfg, chunks, meta) in enumerate(cases):
        lines.append(cfg)
        owner.append(ci)
        for c in chunks:
            lines.append("chunk " + c)
            owner.append(ci)
    lines.append("end")
    owner.append(-1)
    impl = common.run_test_harness(ctx, art["test"], "TestC07", lines, timeout=1500)
    if impl is None or len(impl) != len(lines):
        return
    model = judge = None
    if art.get("driver"):
        dl = [("cfg" + l[6:]) if l.startswith("cfgsrv ") else ("cfg" + l[7:]) if l.startswith("cfgping ") else l for l in lines]   # the model does not care who made the connection
        rc, model, _ = common.pipe_lines([art["driver"], "model"], dl)
        jl = [l + " | " + o if l.startswith("chunk") else l for l, o in zip(dl, impl)]
        rc2, judge, _ = common.pipe_lines([art["driver"], "judge"], jl)
        if rc or rc2 or len(model) != len(lines) or len(judge) != len(lines):
            ctx.broken.append(("model", "C07 driver run failed", ""))
            model = judge = None
    bad_cases = {}
    mism = 0
    for i, (l, o) in enumerate(zip(lines, impl)):
        if not l.startswith("chunk"):
            continue
        ci = owner[i]
        if o.startswith("panic") or o in ("bad-op", "conn-error"):
            bad_cases.setdefault(ci, ("no-crash", "%s -> %s" % (l[:80], o)))
            continue
        if judge is not None and judge[i] != "ok":
            bad_cases.setdefault(ci, ("framing", "%s: observed `%s`: %s" % (l[:80], o[:160], judge[i])))
        if model is not None and model[i] != o:
            # deliveries queued at the moment of closing may legitimately be lost: accept a prefix when closed
            mo, io = model[i].split(), o.split()
            ok = False
            if mo[-1] == "1" and io[-1] == "1" and mo[0] == "ord" and io[0] == "ord":
                mk, ik = int(mo[1]), int(io[1])
                ok = ik <= mk and io[2:2 + 5 * ik] == mo[2:2 + 5 * ik] and io[2 + 5 * ik:] == mo[2 + 5 * mk:]
                if ok:
                    ctx.count("tail-dropped-at-close")
            if not ok:
                mism += 1
                if mism <= 3:
                    ctx.broken.append(("correspondence", "C07 model vs implementation",
                                       "case %d %s: impl `%s` model `%s`" % (ci, l[:60], o[:200], model[i][:200])))
    for ci, (clause, what) in list(bad_cases.items())[:10]:
        cfg, chunks, meta = cases[ci]
        replay_lines = [cfg] + ["chunk " + c for c in chunks] + ["end"]
        sig = "C07:%s:%s" % (clause, "+".join(sorted(set(meta["kinds"]))))
        ctx.violations.append(common.Violation(clause, sig, what, {"input": replay_lines, "meta": meta}))
    # coverage
    distinct = set()
    for cfg, chunks, meta in cases:
        ctx.cov["evaluations"] += 1
        for k in meta["kinds"]:
            ctx.count("frame-" + k)
        ctx.count("chunks-%s" % ("1" if meta["chunks"] == 1 else "2-4" if meta["chunks"] <= 4 else "5+"))
        if meta["chunks"] > 1 or len(meta["kinds"]) > 1:
            distinct.add((cfg, tuple(chunks)))
    ctx.cov["distinct_nontrivial"] = len(distinct)
    ctx.cov["traces_validated_against_impl"] = len(cases)
    ctx.cov["reads"] = sum(1 for l in lines if l.startswith("chunk"))
    ctx.cov["rule"] = ("each case = one connection (max size, read-buffer size, queue size) fed one byte stream (1-5 frames from an "
                       "independent encoder: all four length classes, tokens 0..8, signal and ordinary codes; optionally one "
                       "offending frame: oversize, >= 2^32 declared, malformed options; optionally cut short) in one segmentation; "
                       "every stream is run in several segmentations (byte-wise, whole, two parts, random incl. zero-length reads). "
                       "non-trivial = a cut exists (falls inside a frame/header) or a read holds more than one frame; distinct by (config, chunks).")
    for cfg, chunks, meta in cases[:3]:
        ctx.sample({"cfg": cfg, "chunks": chunks[:6], "kinds": meta["kinds"]})


def write_side(ctx, art):
    """The writing direction (Props/C07Write.lean): 1 + w goroutines write on one real connection at the same moment, one of
    them a frame of 20 KiB ... 300 KiB (the peer reads at most 64 KiB at a time); the collected stream must be exactly the
    written messages, those of each writer in its order (judge Spec/WritePath.lean)."""
    rng = random.Random(ctx.seed + 7)
    thorough = ctx.tier == "thorough"
    lines = []
    for i in range(200 if thorough else 40):
        big = rng.choice([100, 5000, 16384, 16385, 20000, 40000, 65536, 70000, 131072, 200000, 300000])
        lines.append("wr %d %d %d %d" % (rng.randrange(1 << 30), big, rng.choice([3, 6, 10]), rng.choice([1, 2, 3, 5])))
    # the frame-length classes of the WRITTEN frames (RFC 8323 3.2: 0-12 / 13-268 / 269-65804 / 65805+; the message has no
    # option, so the length is 1 + body bytes): both sides of every class boundary (seeded C07-T: class 14 ended one too late)
    for big in (11, 12, 13, 267, 268, 269, 65803, 65804, 65805, 65806):
        lines.append("wr %d %d %d %d" % (rng.randrange(1 << 30), big, 3, 1))
    # ... and in real time (no bubble): four big frames against 2-3 writers of 200-400 short messages each, so that the
    # writers contend for the connection's write lock on different processors
    for i in range(40 if thorough else 8):
        lines.append("wrr %d %d %d %d" % (rng.randrange(1 << 30), rng.choice([40000, 70000, 200000, 300000]), rng.choice([200, 300, 400]), rng.choice([2, 3])))
    # a write held up in the middle of its frame by a slow reader while the writer's context ends; then further writers
    for big in ([40000, 200000] if not thorough else [8000, 40000, 70000, 200000, 300000]):
        for ms in (50, 150):
            lines.append("wrs %d %d %d" % (rng.randrange(1 << 30), big, ms))
    impl = common.run_test_harness(ctx, art["test"], "TestC07Write", lines, tag="write", timeout=600)
    if impl is None or len(impl) != len(lines):
        return
    rc, judge, _ = common.pipe_lines([art["driver"], "wjudge"], [l + " || " + o for l, o in zip(lines, impl)])
    if rc or len(judge) != len(lines):
        ctx.broken.append(("model", "C07 driver run failed (wjudge)", ""))
        return
    for l, o, j in zip(lines, impl, judge):
        ctx.cov["evaluations"] += 1
        ctx.count("write-" + ("stalled" if l.startswith("wrs") else "big" if int(l.split()[2]) > 16384 else "small"))
        if o.startswith("panic") or o in ("bad-op", "conn-error"):
            ctx.violations.append(common.Violation("no-crash", "C07:wr:panic", "%s -> %s" % (l, o[:200]), {"input": [l], "write_side": True, "observed": o[:400]}))
        elif j != "ok":
            ctx.violations.append(common.Violation("written-stream-is-the-sent-messages", "C07:wr", "%s: %s" % (l, j[:300]),
                                                   {"input": [l], "write_side": True, "observed": o[:2000], "judge": j[:600]}))
    ctx.cov["traces_validated_against_impl"] = ctx.cov.get("traces_validated_against_impl", 0) + len(lines)


def run(ctx):
    art = common.standard_prepare(ctx, MODULES, hx=False, test=True, generated=GENERATED)
    if art.get("test"):
        explore(ctx, art)
        if art.get("driver"):
            write_side(ctx, art)
    return common.finish(ctx)


def replay(ctx, rep):
    art = common.standard_prepare(ctx, MODULES, hx=False, test=True, generated=GENERATED)
    lines = rep.get("input") or []
    if not lines:
        print("replay file names no failing input:", rep.get("no_longer_checks"))
        return 1
    if rep.get("write_side"):
        # a race between writers: repeat the line a few times
        bad = 0
        for k in range(10):
            impl = common.run_test_harness(ctx, art["test"], "TestC07Write", lines, tag="replay")
            rc, judge, _ = common.pipe_lines([art["driver"], "wjudge"], [l + " || " + o for l, o in zip(lines, impl)])
            for l, o, j in zip(lines, impl, judge):
                if j != "ok":
                    print("%s (run %d): %s" % (l, k, j[:300]))
                    bad += 1
            if bad:
                break
        if bad:
            print("VIOLATION property=C07 replay=(replayed) still reproduces")
        return 1 if bad else 0
    impl = common.run_test_harness(ctx, art["test"], "TestC07", lines, tag="replay")
    dl = [("cfg" + l[6:]) if l.startswith("cfgsrv ") else ("cfg" + l[7:]) if l.startswith("cfgping ") else l for l in lines]
    jl = [l + " | " + o if l.startswith("chunk") else l for l, o in zip(dl, impl)]
    rc, judge, _ = common.pipe_lines([art["driver"], "judge"], jl)
    bad = 0
    for l, o, j in zip(lines, impl, judge):
        if l.startswith("chunk"):
            print("%s: implementation `%s`  judge `%s`" % (l[:100], o[:200], j))
            if j != "ok":
                bad += 1
    if bad:
        print("VIOLATION property=C07 replay=(replayed) still reproduces")
    return 1 if bad else 0
