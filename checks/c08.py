"""C08 — observers only see the resource move forward (DESIGN.md §5 C08).

Proof: Props/C08.lean — validSeq = RFC 7641 §3.4, monotone_versions (wrap-around), delivered_fresh /
silent_after_cancel / own_token_only for every event history, register_only_205_203.
Tie: T — window shifts (AST of ValidSequenceNumber), timeout and accepted codes regenerated from /repo;
     X — predicate on a boundary product + random; event histories on real udp and tcp client.Conn (in-memory
         transport, synctest virtual time) compared line by line with the model and judged by the reference monitor.
     Tenth round: `reuse` lines (second use of the request message of a registration; Props/C08Reuse.lean) and overlapping
     cancellations (TestC08Coop: the real observation.Handler under the cooperative mutex overlay of the C14 check, all
     interleavings of the critical sections of `par cancel … & cancel …` steps, each schedule judged by the reference monitor).
     Eleventh round: burst histories (`burst_cases`: 64 … 257 observations outstanding at the same time on one connection, taken
     down one cancellation / failing registration at a time, a notification on the token right after each, one on every token
     at the end; Props/C08Burst.lean: frame + `burst_cancel_down` for tables of any size).
"""
import json
import os
import random
import re
import subprocess

from . import common

MODULES = ["CoapVerif.Props.C08", "CoapVerif.Props.C08Reuse", "CoapVerif.Props.C08Burst"]
GENERATED = ["Observe.lean"]
S = 1_000_000_000


def gen_valid(rng, thorough):
    vals = [0, 1, 2, 5, (1 << 23) - 1, 1 << 23, (1 << 23) + 1, (1 << 24) - 2, (1 << 24) - 1, 1 << 24, (1 << 31), (1 << 32) - 1]
    dts = [0, 1, 128 * S - 1, 128 * S, 128 * S + 1, 300 * S, -5]
    L = []
    for o in vals:
        for n in vals:
            for dt in dts:
                L.append("valid %d %d %d %d" % (o, n, 1000, 1000 + dt))
            L.append("valid %d %d - %d" % (o, n, 1000))
    for _ in range(20000 if thorough else 3000):
        o = rng.choice([rng.randrange(1 << 24), rng.randrange(1 << 32)])
        n = rng.choice([rng.randrange(1 << 24), (o + rng.choice([1, (1 << 23) - 1, 1 << 23, (1 << 23) + 1])) % (1 << 24),
                        (o - rng.choice([1, (1 << 23) - 1, 1 << 23, (1 << 23) + 1])) % (1 << 24)])
        last = rng.randrange(0, 500 * S)
        now = last + rng.choice([rng.randrange(0, 300 * S), 128 * S, 128 * S + 1, 128 * S - 1])
        L.append("valid %d %d %d %d" % (o, n, last, now))
    return L


def gen_case(rng):
    transport = rng.choice(["udp", "tcp", "udpbw", "tcpbw"])
    lines = ["cfg " + transport]
    toks = [7, 8, 9]
    t = 1000
    nid = 0
    regs = {}     # tok -> (id, state) as the generator believes; only used to steer, not to judge
    tagn = [0]
    kinds = set()
    if transport.endswith("bw"):
        kinds.add("blockwise-notifications")

    def tag():
        tagn[0] += 1
        return chr(ord("A") + (tagn[0] - 1) % 26) if tagn[0] <= 26 else chr(ord("a") + (tagn[0] - 27) % 26)

    seq_state = {}
    for _ in range(rng.randrange(6, 26)):
        r = rng.random()
        tok = rng.choice(toks)
        gap = rng.choice([1000, 1000, 1_000_000, 5_000_000, 128 * S - 1000, 128 * S, 128 * S + 1, 200 * S])
        if r < 0.18:
            flavour = rng.random()
            lines.append("reg %d%s" % (tok, " con" if flavour < 0.4 else " self" if flavour < 0.5 else ""))
            if flavour >= 0.4 and flavour < 0.5:
                kinds.add("callback-cancels-own-context")
            if tok in regs and regs[tok][1] != "gone":
                kinds.add("dup-token-reg")
            else:
                regs[tok] = (nid, "pending")
                seq_state[tok] = rng.choice([0, 5, (1 << 23) - 3, (1 << 24) - 4])
            nid += 1
        elif r < 0.75:
            t += gap
            if gap >= 128 * S - 1000:
                kinds.add("gap-around-128s")
            st = regs.get(tok, (None, "none"))[1]
            if st == "pending":
                code = rng.choice([69, 69, 69, 67, 132, 65, 68, 160])
                seq = rng.choice(["-", str(seq_state.get(tok, 0)), str(seq_state.get(tok, 0))])
                regs[tok] = (regs[tok][0], "live" if code in (69, 67) and seq != "-" else "gone")
                kinds.add("first-" + ("ok" if code in (69, 67) else "err") + ("-noobs" if seq == "-" else ""))
            else:
                code = 69
                base = seq_state.get(tok, 0)
                mv = rng.choice(["inc", "inc", "inc", "dup", "back", "jump-", "jump", "jump+", "wrap", "noobs", "rand"])
                kinds.add("seq-" + mv)
                if mv == "inc":
                    base = (base + rng.choice([1, 2, 100])) % (1 << 24)
                    seq = str(base)
                elif mv == "dup":
                    seq = str(base)
                elif mv == "back":
                    seq = str((base - rng.choice([1, 2, 50])) % (1 << 24))
                elif mv.startswith("jump"):
                    d = {"jump-": (1 << 23) - 1, "jump": 1 << 23, "jump+": (1 << 23) + 1}[mv]
                    seq = str((base + rng.choice([d, -d])) % (1 << 24))
                elif mv == "wrap":
                    base = (1 << 24) - rng.choice([1, 2])
                    seq = str(base)
                elif mv == "noobs":
                    seq = "-"
                else:
                    seq = str(rng.randrange(1 << 24))
                if seq != "-" and mv in ("inc", "wrap"):
                    seq_state[tok] = base
            if rng.random() < 0.08:
                # an option with a registry-illegal length (skipped by the decoder) in front of Observe
                lines.append("arrivex %d %d %s %d %s" % (tok, code, seq, t, tag()))
                kinds.add("skipped-option-before-observe")
            elif seq != "-" and int(seq) < (1 << 24) and rng.random() < 0.12:
                # the Observe value zero-padded to three bytes (legal: RFC 7252 section 3.2)
                lines.append("arrivep %d %d %s %d %s" % (tok, code, seq, t, tag()))
                kinds.add("observe-with-leading-zeros")
            elif st != "pending" and rng.random() < 0.08:
                # the token value without its leading zero bytes: a different token (length is part of a token), nobody's
                lines.append("arrivez %d %d %s %d %s" % (tok, code, seq, t, tag()))
                kinds.add("token-differs-in-length-only")
            else:
                lines.append("arrive %d %d %s %d %s" % (tok, code, seq, t, tag()))
        elif r < 0.80:
            # second use of the request message of a registration whose call has returned: the application writes its next
            # request (another token, same or shorter length) into the same message object and sends it
            if tok in regs and regs[tok][1] in ("live", "gone"):
                lines.append("reuse %d %d %d%s" % (tok, regs[tok][0], rng.choice([t2 for t2 in toks + [11] if t2 != tok]),
                                                   " short" if rng.random() < 0.3 else ""))
                kinds.add("request-message-reused-" + regs[tok][1])
        elif r < 0.90:
            if tok in regs:
                lines.append("cancel %d %d%s" % (tok, regs[tok][0], " done" if rng.random() < 0.3 else ""))
                kinds.add("cancel-" + regs[tok][1])
                if regs[tok][1] == "live":
                    regs[tok] = (regs[tok][0], "gone")
                t += 10_000_000
        else:
            if tok in regs:
                lines.append("regabort %d %d" % (tok, regs[tok][0]))
                kinds.add("abort-" + regs[tok][1])
                if regs[tok][1] == "pending":
                    regs[tok] = (regs[tok][0], "gone")
    return lines, kinds


def canon(line):
    """Events observed at one quiescence point are a set: the order in which the registration call's return and the
    callback of the same message are logged is a scheduling artefact of the harness."""
    return sorted(line.split(" ; "))


def dl(line):
    """the line as the driver sees it: whether a registration request is sent confirmable (`reg <tok> con`) is a transport
    detail below the model (it decides which exit of NewObservation a later `regabort` takes: waiting for the first
    response, or the write itself failing because the ACK never came)"""
    f = line.split()
    if f[0] in ("arrivex", "arrivep"):
        return "arrive " + " ".join(f[1:])
    if f[0] == "cancel" and len(f) == 4:
        return "cancel %s %s" % (f[1], f[2])     # Cancel with a context that has already ended is a cancellation all the same
    if f[0] == "reuse":
        return " ".join(f[:4])      # which length the other token has is below the model
    if f[0] == "arrivez":
        # for the model: a message with a token no registration has
        return "arrive %d %s" % (int(f[1]) + 1000000, " ".join(f[2:]))
    if f[0] == "cfg" and f[1].endswith("bw"):
        # block-wise transfer enabled and notifications of live observations delivered in two blocks (RFC 7959 2.6): below
        # the model - the application must see the same single notification
        return "cfg " + f[1][:-2]
    return "reg " + f[1] if f[0] == "reg" and len(f) == 3 else line


def jl_line(line):
    """the line as the judge sees it: as dl(), but `reg <tok> self` is kept (the judge accepts either outcome of a registration
    whose callback cancels its own context while the call returns, and holds the call to the outcome it reported)"""
    f = line.split()
    if f[0] == "reg" and len(f) == 3 and f[2] == "self":
        return line
    return dl(line)


def split_dereg(outs):
    """`dereg <id> <etag hex|->` (the ETag carried by the deregistration request Observation.Cancel wrote) is reported by the
    harness next to the events the model knows; it is judged separately (etag_violations)."""
    rest, deregs = [], []
    for o in outs:
        ev = o.split(" ; ")
        d = [e for e in ev if e.startswith("dereg ")]
        ev = [e for e in ev if not e.startswith("dereg ")]
        rest.append(" ; ".join(ev) if ev else "none")
        deregs.append(d)
    return rest, deregs


def tag_etag(tag):
    """the ETag the harness puts on a message with this tag (every other tag carries one, of varying length)"""
    c = ord(tag[0])
    return ("%02x" % c) * (1 + c % 8) if c % 2 == 0 else None


def etag_violations(case_lines, outs, deregs):
    """RFC 7641 3.6 / the library's Cancel: the deregistration request carries the ETag of the latest notification that was
    DELIVERED to the registration's callback with a sequence number and an ETag (byte-exact, whatever came before or after)."""
    last = {}
    bad = []
    for k, (l, o, d) in enumerate(zip(case_lines, outs, deregs)):
        for e in o.split(" ; "):
            f = e.split()
            if len(f) == 6 and f[0] == "cb" and f[3] != "-" and not l.startswith("arrivex"):
                t = tag_etag(f[5])
                if t is not None:
                    last[f[1]] = t
        for e in d:
            f = e.split()
            want = last.get(f[1], "-")
            if f[2] != want:
                bad.append((k, "deregistration request of registration %s carries ETag %s, the latest notification delivered with an ETag had %s" % (f[1], f[2], want)))
    return bad


def explore(ctx, art):
    rng = random.Random(ctx.seed)
    thorough = ctx.tier == "thorough"
    lines = gen_valid(rng, thorough)
    nvalid = len(lines)
    cases = []
    owner = [-1] * nvalid
    fixed = reuse_cases() + burst_cases(ctx.seed, thorough)
    for ci in range((3000 if thorough else 400) + len(fixed)):
        cl, kinds = fixed[ci] if ci < len(fixed) else gen_case(rng)
        cases.append((cl, kinds))
        for l in cl:
            lines.append(l)
            owner.append(ci)
    lines.append("end")
    owner.append(-1)
    impl = common.run_test_harness(ctx, art["test"], "TestC08", lines, timeout=1500)
    if impl is None or len(impl) != len(lines):
        return
    impl, deregs = split_dereg(impl)
    model = judge = None
    if art.get("driver"):
        rc, model, _ = common.pipe_lines([art["driver"], "model"], [dl(l) for l in lines])
        jl = [dl(l) if l.split()[0] in ("cfg", "valid", "end") else jl_line(l) + " | " + o for l, o in zip(lines, impl)]
        rc2, judge, _ = common.pipe_lines([art["driver"], "judge"], jl)
        if rc or rc2 or len(model) != len(lines) or len(judge) != len(lines):
            ctx.broken.append(("model", "C08 driver run failed", ""))
            model = judge = None
    bad = {}
    mism = 0
    for i, (l, o) in enumerate(zip(lines, impl)):
        f = l.split()
        if o.startswith("panic") or o in ("bad-op", "conn-error"):
            ctx.violations.append(common.Violation("no-crash", "C08:" + l, "%s -> %s" % (l, o), {"input": [l], "observed": o}))
            continue
        if f[0] == "valid":
            ctx.cov["evaluations"] += 1
            if judge is not None and judge[i] != o and len(ctx.violations) < 20:
                ctx.violations.append(common.Violation(
                    "freshness-predicate", "C08:" + l, "%s: implementation %s, RFC 7641 §3.4 says %s" % (l, o, judge[i]),
                    {"input": [l], "observed": o, "expected": judge[i]}))
            if model is not None and model[i] != o:
                ctx.broken.append(("correspondence", "C08 model vs implementation", "%s: impl %s model %s" % (l, o, model[i])))
            continue
        if f[0] in ("cfg", "end"):
            continue
        ci = owner[i]
        if judge is not None and judge[i] != "ok":
            bad.setdefault(ci, (i, "%s: observed `%s`: %s" % (l, o, judge[i])))
        if model is not None and canon(model[i]) != canon(o) and "callback-cancels-own-context" not in cases[ci][1]:
            mism += 1
            if mism <= 3:
                ctx.broken.append(("correspondence", "C08 model vs implementation", "case %d line `%s`: impl `%s` model `%s`" % (ci, l, o, model[i])))
    # ETag of the deregistration requests, case by case
    start = nvalid
    nbad = 0
    for ci, (cl, kinds) in enumerate(cases):
        n = len(cl)
        for k, what in etag_violations(cl, impl[start:start + n], deregs[start:start + n])[:1]:
            nbad += 1
            if nbad <= 6:
                ctx.violations.append(common.Violation("observe", "C08:deregistration-etag", "%s: %s" % (cl[k], what),
                                                       {"input": cl[:k + 1] + ["end"], "kinds": sorted(kinds)}))
        start += n
    for ci, (i, what) in list(bad.items())[:8]:
        cl, kinds = cases[ci]
        # shrink: cut the case after the first failing line
        first = sum(1 for k in range(i + 1) if owner[k] == ci)
        rep = cl[:first] + ["end"]
        clause = what.split("violates ", 1)[-1][:60]
        ctx.violations.append(common.Violation("observe", "C08:" + clause, what, {"input": rep, "kinds": sorted(kinds)}))
    distinct = set()
    for cl, kinds in cases:
        ctx.cov["evaluations"] += 1
        for k in kinds:
            ctx.count(k)
        if len(kinds) >= 2:
            distinct.add(tuple(cl))
    ctx.cov["distinct_nontrivial"] = len(distinct) + len(set(lines[:nvalid]))
    ctx.cov["traces_validated_against_impl"] = len(cases)
    ctx.cov["predicate_cases"] = nvalid
    ctx.cov["rule"] = ("predicate: boundary product of sequence numbers around 0, 2^23, 2^24-1, 2^32-1 x time differences around 128 s "
                       "(+/- 1 ns) and 'never', plus random pairs; histories: random event sequences (register, first response with "
                       "2.05/2.03/other codes and with/without Observe option, notifications increasing / duplicated / reordered / "
                       "jumping by 2^23 -1/0/+1 / wrapping / without Observe, inter-arrival gaps around 128 s, cancel, abort of a "
                       "pending registration, duplicate-token registration, unknown tokens) on udp and tcp connections; "
                       "burst histories: 64/65/80/128 (thorough: 63 ... 257) observations outstanding at once, taken down in order / "
                       "reversed / shuffled to 0, 1, an eighth, a quarter -1/0/+1 or half of them by Cancel, refused or aborted "
                       "registrations, each followed by a notification on its token, then one on every token; optional second wave. "
                       "non-trivial history = at least two different kinds of event; distinct by the exact line list.")
    for cl, kinds in cases[:2]:
        ctx.sample({"history": cl, "kinds": sorted(kinds)})


def reuse_cases():
    """Second use of the request message of a registration (fixed histories; the random histories contain `reuse` lines too):
    after the registration call has returned the application writes its next request into the same message object (another
    token; same length or shorter), and only later cancels.  The cancellation must take effect for the token the observation
    was REGISTERED with: nothing that arrives on it afterwards reaches the callback; an observation under the other token is
    not touched."""
    out = []
    for cfg in ("udp", "tcp", "udpbw"):
        for short in ("", " short"):
            out.append((["cfg " + cfg, "reg 7", "arrive 7 69 5 1000 A", "reuse 7 0 8" + short, "arrive 7 69 6 2000 B", "cancel 7 0",
                         "arrive 7 69 7 20000000 C", "arrive 8 69 1 20001000 D"], {"request-message-reused-live", "fixed"}))
            out.append((["cfg " + cfg, "reg 8", "arrive 8 69 1 1000 A", "reg 7", "arrive 7 69 5 2000 B", "reuse 7 1 8" + short,
                         "cancel 7 1", "arrive 8 69 2 20000000 C", "arrive 7 69 6 20001000 D", "cancel 8 0", "arrive 8 69 3 40000000 E"],
                        {"request-message-reused-live", "reused-token-is-observed", "fixed"}))
            out.append((["cfg " + cfg, "reg 7", "arrive 7 69 5 1000 A", "reuse 7 0 8" + short, "reuse 7 0 9", "reg 9 con", "arrive 9 69 1 2000 B",
                         "cancel 7 0 done", "arrive 7 69 6 20000000 C", "arrive 9 69 2 20001000 D"], {"request-message-reused-live", "fixed"}))
    return out


# ---------------------------------------------------------------- many simultaneous observations (eleventh round)

BURST_SIZES = {"quick": [64, 65, 80, 128], "thorough": [63, 64, 65, 80, 100, 128, 129, 200, 257]}


def burst_case(rng, cfg, n, keep, order, fail_every=0, second_wave=False):
    """`any number of simultaneous observations, cancel at every point of the stream`: n registrations are outstanding at the
    same time on one connection (the observation table holds n entries), then the table is taken down to `keep` entries, one
    cancellation (or failing registration: error answer / ended context) at a time; right after each of them a notification
    arrives on that token (it must not reach the callback), and at the end one arrives on every token (the observations still
    registered must get theirs).  `second_wave`: the cancelled tokens are registered again and taken down again."""
    lines = ["cfg " + cfg]
    kinds = {"burst", "burst-%d-simultaneous" % n, "burst-keep-%s" % ("0" if keep == 0 else "1" if keep == 1 else "quarter" if abs(keep * 4 - n) <= 4 else "some"),
             "burst-order-" + order}
    tagn = [0]

    def tag():
        tagn[0] += 1
        return chr(ord("A") + tagn[0] % 26) if (tagn[0] // 26) % 2 == 0 else chr(ord("a") + tagn[0] % 26)

    t = [1000]
    nid = [0]

    def wave(toks):
        regs = {}
        seq = {}
        for tok in toks:
            con = cfg.startswith("udp") and rng.random() < 0.15
            lines.append("reg %d%s" % (tok, " con" if con else ""))
            regs[tok] = nid[0]
            nid[0] += 1
        pending = set()
        for k, tok in enumerate(toks):
            if fail_every and k % fail_every == fail_every - 1:
                pending.add(tok)      # its first answer comes only while the table is being taken down
                continue
            t[0] += 1000
            seq[tok] = rng.choice([5, 5, (1 << 24) - 2, 70000])
            lines.append("arrive %d 69 %d %d %s" % (tok, seq[tok], t[0], tag()))
        victims = list(toks)
        if order == "reverse":
            victims.reverse()
        elif order == "shuffled":
            rng.shuffle(victims)
        victims = victims[:len(toks) - keep]
        for tok in victims:
            if tok in pending:
                pending.discard(tok)
                if rng.random() < 0.5:
                    t[0] += 1000
                    lines.append("arrive %d %d %s %d %s" % (tok, rng.choice([132, 160, 65]), rng.choice(["-", "3"]), t[0], tag()))
                    kinds.add("burst-registration-refused")
                else:
                    lines.append("regabort %d %d" % (tok, regs[tok]))
                    kinds.add("burst-registration-aborted")
                seq[tok] = 9
            else:
                lines.append("cancel %d %d%s" % (tok, regs[tok], " done" if rng.random() < 0.2 else ""))
                t[0] += 10_000_000
            t[0] += 1000
            seq[tok] = (seq[tok] + 1) % (1 << 24)
            lines.append("arrive %d 69 %d %d %s" % (tok, seq[tok], t[0], tag()))
        for tok in toks:
            t[0] += 1000
            seq[tok] = (seq.get(tok, 5) + 1) % (1 << 24)
            lines.append("arrive %d 69 %d %d %s" % (tok, seq[tok], t[0], tag()))
        return victims

    toks = list(range(100, 100 + n))
    victims = wave(toks)
    if second_wave:
        kinds.add("burst-second-wave")
        wave(sorted(victims))
    return lines, kinds


def burst_cases(seed, thorough):
    """the burst histories of one run: fixed shapes for every table size of the tier (cancel everything in registration order
    on udp, take the table down to a quarter in reverse order on tcp) + seeded ones (size, transport, order, how many stay,
    failing registrations in between, second wave)"""
    rng = random.Random(seed * 7919 + 11)
    sizes = BURST_SIZES["thorough" if thorough else "quick"]
    out = []
    for n in sizes:
        out.append(burst_case(rng, "udp", n, 0, "in-order"))
        if thorough or n in (64, 80):
            out.append(burst_case(rng, "tcp", n, n // 4, "reverse", fail_every=7))
    for _ in range(12 if thorough else 3):
        n = rng.choice(sizes)
        out.append(burst_case(rng, rng.choice(["udp", "tcp", "udp", "udpbw"]), n, rng.choice([0, 1, n // 8, n // 4 - 1, n // 4, n // 4 + 1, n // 2]),
                              rng.choice(["in-order", "reverse", "shuffled", "shuffled"]), fail_every=rng.choice([0, 0, 3, 5, 11]),
                              second_wave=(n <= 130 and rng.random() < 0.4)))
    return out


# ---------------------------------------------------------------- overlapping cancellations, critical section by critical section

COOP_HISTORIES = [
    # a handle kept from an observation cancelled long ago (id 0) and the live observation that reuses its token (id 1) are
    # cancelled together (shutdown code that cancels every handle it holds, from several goroutines)
    "reg 7;arrive 7 5 A;cancel 7 0;reg 7;arrive 7 9 B;par cancel 7 0 & cancel 7 1;arrive 7 10 C",
    "reg 7;cancel 7 0;reg 7;par cancel 7 1 & cancel 7 0;arrive 7 10 C;arrive 7 11 D",
    "reg 7;cancel 7 0;reg 7;par cancel 7 0 & cancel 7 1 & cancel 7 1;arrive 7 10 C",
    "reg 7;cancel 7 0;reg 7;cancel 7 1;reg 7;arrive 7 8 A;par cancel 7 0 & cancel 7 1 & cancel 7 2;arrive 7 10 C",
    # the same handle cancelled twice at once; two observations with different tokens cancelled at once
    "reg 7;arrive 7 5 A;par cancel 7 0 & cancel 7 0;arrive 7 10 C",
    "reg 7;reg 8;par cancel 7 0 & cancel 8 1;arrive 7 10 C;arrive 8 10 D",
    "reg 7;reg 8;cancel 7 0;reg 7;par cancel 7 0 & cancel 8 1;arrive 8 10 C;arrive 7 10 D;cancel 7 2;arrive 7 11 E",
]


def build_coop(ctx):
    """the C08 harness built with C14's overlay: the RWMutex of pkg/sync.Map is the cooperative mutex"""
    ov = os.path.join(ctx.work, "overlay_c08")
    os.makedirs(ov, exist_ok=True)
    mp = os.path.join(common.REPO, "pkg", "sync", "map.go")
    src = open(mp).read()
    nocomment = lambda t: re.sub(r"//[^\n]*", "", re.sub(r"/\*.*?\*/", "", t, flags=re.S))
    if len(re.findall(r"\bmutex\s+sync\.RWMutex\b", nocomment(src))) != 1 or nocomment(src).count("sync.RWMutex") != 1:
        ctx.broken.append(("correspondence", "C08 overlay: pkg/sync/map.go does not declare exactly one `mutex sync.RWMutex`", ""))
        return None
    new = re.sub(r"(\bmutex\s+)sync\.RWMutex\b", r"\1CoopRWMutex", src)
    new, n = re.subn(r'\n\t"sync"\n', "\n", new, count=1)
    if n != 1 or re.search(r"\bsync\.", nocomment(new).replace("package sync", "")):
        ctx.broken.append(("correspondence", "C08 overlay: pkg/sync/map.go uses package sync for more than the mutex", ""))
        return None
    open(os.path.join(ov, "map.go"), "w").write(new)
    open(os.path.join(ov, "zz_coop_verif.go"), "w").write(
        open(os.path.join(common.HARNESS, "c14", "overlay", "zz_coop_verif.go.txt")).read())
    oj = os.path.join(ctx.work, "overlay_c08.json")
    json.dump({"Replace": {mp: os.path.join(ov, "map.go"),
                           os.path.join(common.REPO, "pkg", "sync", "zz_coop_verif.go"): os.path.join(ov, "zz_coop_verif.go")}}, open(oj, "w"))
    exe = os.path.join(common.WORK, "ht_c08coop.test")
    with common.Lock():
        rc, out = common.sh([common.GO, "test", "-c", "-tags", "verif c14coop", "-overlay", oj, "-o", exe, "./c08"],
                            cwd=common.HARNESS, env=common.GOENV, timeout=900)
    if rc != 0:
        ctx.broken.append(("correspondence", "harness-build c08 (overlay)", out[-2000:]))
        return None
    return exe


def run_coop(ctx, exe, lines, tag):
    inp = os.path.join(ctx.work, tag + ".in")
    outp = os.path.join(ctx.work, tag + ".out")
    open(inp, "w").write("\n".join(lines) + "\n")
    if os.path.exists(outp):
        os.remove(outp)
    e = dict(os.environ, VERIF_IN=inp, VERIF_OUT=outp, VERIF_SEED=str(ctx.seed), VERIF_TIER=ctx.tier)
    try:
        p = subprocess.run([exe, "-test.run", "^TestC08Coop$", "-test.timeout", "300s"], cwd=ctx.work, env=e,
                           stdout=subprocess.PIPE, stderr=subprocess.STDOUT, text=True, timeout=330)
    except subprocess.TimeoutExpired:
        ctx.broken.append(("correspondence", "harness TestC08Coop timed out", ""))
        return None
    out = open(outp).read().splitlines() if os.path.exists(outp) else []
    if p.returncode != 0 or len(out) != len(lines):
        ctx.broken.append(("correspondence", "harness TestC08Coop failed (rc=%d)" % p.returncode, p.stdout[-3000:]))
        return None
    return out


def coop_judge_lines(hist, observed):
    """one schedule of one history, as the driver's judge reads it (the registration request is answered at once: the first
    response is part of the `reg` line)"""
    ops = hist.split(";")
    obs = observed.split(" / ")
    if len(obs) != len(ops):
        return None
    jl = ["cfg udp"]
    for k, (op, o) in enumerate(zip(ops, obs)):
        f = op.split()
        if f[0] == "arrive":
            op = "arrive %s 69 %s %d %s" % (f[1], f[2], (k + 1) * 1000, f[3])
        jl.append(op + " | " + o)
    return jl


def coop_check(ctx, art, hists=None, report=True):
    """Cancellations that overlap (a stale handle and the live observation on a reused token; the same handle twice; several
    observations): every interleaving of the critical sections of the observation table, on the real net/observation.Handler
    under the cooperative scheduler of the C14 check; each schedule's history is judged by the reference monitor.  (The model
    takes Cancel's clean-up as ONE table operation - `Props/C08`: 'every interleaving at the granularity of ... LoadAndDelete
    calls' - which is exactly what this part ties to the code.)"""
    exe = build_coop(ctx)
    if not exe or not art.get("driver"):
        return []
    hists = hists or COOP_HISTORIES
    out = run_coop(ctx, exe, ["coop " + h for h in hists], "c08coop")
    if out is None:
        return []
    found = []
    nsched = 0
    for h, line in zip(hists, out):
        for part in line.split(" || "):
            sched, _, observed = part.partition(" :: ")
            nsched += 1
            jl = coop_judge_lines(h, observed)
            if jl is None or "panic" in observed or "bad-op" in observed:
                found.append((h, sched, observed, "violates no-crash"))
                continue
            rc, judge, _ = common.pipe_lines([art["driver"], "judge"], jl)
            if rc or len(judge) != len(jl):
                ctx.broken.append(("model", "C08 driver run failed (coop)", ""))
                return found
            for l, j in zip(jl, judge):
                if j.startswith("violates"):
                    found.append((h, sched, observed, "%s: %s" % (l, j)))
                    break
    ctx.cov["evaluations"] += nsched
    ctx.cov["coop_schedules"] = nsched
    ctx.count("overlapping-cancellations-schedules", nsched)
    if report:
        for h, sched, observed, what in found[:4]:
            clause = what.split("violates ", 1)[-1][:60]
            ctx.violations.append(common.Violation("observe", "C08:coop:" + clause,
                                                   "overlapping cancellations `%s` under schedule %s: observed `%s`: %s" % (h, sched, observed, what),
                                                   {"coop": h, "schedule": sched, "observed": observed}))
    return found


def run(ctx):
    art = common.standard_prepare(ctx, MODULES, hx=False, test=True, generated=GENERATED)
    if art.get("test"):
        explore(ctx, art)
        coop_check(ctx, art)
    # block-wise notifications of observations registered with options, served by a peer that answers every follow-up GET by
    # its full option set and puts its ETag on some blocks only (C04's harness): each notification must keep the Observe option
    # of its first block - without it the freshness check is skipped
    from . import c04
    with common.Lock():
        t4 = common.build_test(ctx, "c04")
    if t4:
        c04.observe_check(ctx, t4, "C08", "observe")
    return common.finish(ctx)


def replay(ctx, rep):
    if rep.get("scenario") and str(rep.get("test", "")).startswith("TestC04"):
        from . import c04
        rc = c04.replay(ctx, rep)
        if rc:
            print("VIOLATION property=C08 replay=(replayed) still reproduces")
        return rc
    art = common.standard_prepare(ctx, MODULES, hx=False, test=True, generated=GENERATED)
    if rep.get("coop"):
        found = coop_check(ctx, art, hists=[rep["coop"]], report=False)
        for h, sched, observed, what in found:
            print("%s under schedule %s: observed `%s`: %s" % (h, sched, observed, what))
        if found:
            print("VIOLATION property=C08 replay=(replayed) still reproduces")
        return 1 if found else 0
    lines = rep.get("input") or []
    if not lines:
        print("replay file names no failing input:", rep.get("no_longer_checks"))
        return 1
    impl = common.run_test_harness(ctx, art["test"], "TestC08", lines, tag="replay")
    impl, deregs = split_dereg(impl)
    jl = [dl(l) if l.split()[0] in ("cfg", "valid", "end") else jl_line(l) + " | " + o for l, o in zip(lines, impl)]
    rc, judge, _ = common.pipe_lines([art["driver"], "judge"], jl)
    bad = 0
    for k, what in etag_violations(lines, impl, deregs):
        print("%s: %s" % (lines[k], what))
        bad += 1
    for l, o, j in zip(lines, impl, judge):
        print("%s: implementation `%s`  judge `%s`" % (l, o, j))
        if (l.startswith("valid") and o != j) or j.startswith("violates"):
            bad += 1
    if bad:
        print("VIOLATION property=C08 replay=(replayed) still reproduces")
    return 1 if bad else 0
