"""C09 — blocking calls end on cancellation or close; close is clean (PARTIAL; DESIGN.md §5 C09).

Proof: Props/C09.lean — waits_cover_ctx_and_conn (decided over the blocking points read from the AST on every run),
returns_after_cancel / slot_chain_drains (every peer behaviour), close protocol invariants for every interleaving.
Tie: T — Generated/BlockingWaits.lean (primary); X — the interruption grid on real udp/tcp connections (in-memory
transports, synctest): operation x interruption point x cause, then concurrent Close from three goroutines;
stream writes stalled by a peer that stopped reading (real time); source facts closeTakesWriteLock / writeArmsDeadline;
registryCloseVisitsAll (pkg/connections) with stream / DTLS servers whose transports report an error from Close();
the option-buffer retry loop of the readers' decode (Generated/PoolRetry.lean) with peers that send 16 ... 5000 options.
"""
import random

from . import common

MODULES = ["CoapVerif.Props.C09", "CoapVerif.Findings.C09", "CoapVerif.Props.C18Runner",
           "CoapVerif.Props.C09Registry",   # Stop ends every accepted connection whatever a connection's Close() reports
           "CoapVerif.Props.C09Reader"]     # the reader comes back from decoding whatever the peer has sent
GENERATED = ["BlockingWaits.lean", "PoolRetry.lean"]
OPS = ["get", "observe", "obscancel", "ping", "write"]
POINTS = ["pre", "sent", "acked", "queued", "midblock"]
CAUSES = ["cancel", "deadline", "close", "peerclose", "garbage"]


def explore(ctx, art):
    lines = ["case %s %s %s %s" % (t, o, p, c) for t in ("udp", "tcp") for o in OPS for p in POINTS for c in CAUSES]
    # queued behind the connection-wide limit while holding the endpoint slot of its own path; after the interrupted call has
    # returned, a follow-up request for the same path (context that does not end) must return when the connection is closed
    lines += ["case %s %s queuedg %s" % (t, o, c) for t in ("udp", "tcp") for o in ("get", "observe") for c in CAUSES]
    # the second use of a connection: the same "after send" cells after a series of one-way writes whose context had already
    # ended - whatever serialises the writers must not be left taken by a write that gave up (seeded C09-T)
    lines += ["case %s %s sentaf %s" % (t, o, c) for t in ("udp", "tcp") for o in OPS for c in CAUSES]
    if ctx.tier == "thorough":
        lines = lines * 3     # the scheduler inside a bubble is not seeded: repeat the grid
    # datagram session whose reader returns (and completes the done signal) only 50 ms after Close(): a pending operation
    # must return on Close(), not on the completion of the shutdown
    lines += ["case udp %s slowrun %s" % (o, c) for o in OPS for c in ("close", "cancel")]
    # the connection's own handler blocks and the peer floods until the receive queue is full: the socket reader is parked in
    # its hand-over to the queue when Close() comes (udp: session whose Run loop delivers the datagrams, as the real ones do)
    lines += ["case %s flood qfull close" % t for t in ("udp", "tcp")]
    # "during send": the stream peer has stopped reading, the frame write is blocked in the transport (real time)
    lines += ["case tcp %s stalled %s" % (o, c) for o in OPS for c in CAUSES]
    # server side (real sockets, real time): a blocked DiscoveryRequest; Stop() with 0/1/3 connections whose handlers block
    lines += ["case udp discover live %s" % c for c in ("cancel", "deadline", "close")]
    # ... and the "before send" point of a discovery: issued before the server serves (the library lets it wait for Serve), and
    # Serve never comes (seeded C09-U; on the tree before fix F38 the call ignored its own context there)
    lines += ["case udp discover liveunserved %s" % c for c in ("cancel", "deadline", "close")]
    lines += ["case %s srvstop k%d stop" % (t, k) for t in ("udp", "tcp", "dtls") for k in (0, 1, 3)]
    # ... and with one more peer that connects right before Stop() while the application's OnNewConn callback for it is still
    # running (150 ms): the connection is not in the server's table yet, only its own context can tell it about the stop
    lines += ["case %s srvstop k%ds stop" % (t, k) for t in ("tcp", "dtls") for k in (0, 1)]
    # ... and with connections the application closed itself just before (cc.Close() on the accepted connection), whose first
    # on-close callback takes 60 ms: Stop() comes while the shutdown of such a connection - started by its reader or by the
    # datagram server's housekeeping sweep - is still walking the callbacks; each must run exactly once (seeded C09-N)
    lines += ["case %s srvstop k%dc stop" % (t, k) for t in ("udp", "tcp", "dtls") for k in (1, 2)]
    # ... and (datagram server) with the housekeeping sweep busy in an inactivity callback of the application (100 ms) when
    # Stop() comes: the sweep holds its snapshot of the connection table, so Stop() and the sweep both find the same closed
    # connections and both shut their sessions down
    lines += ["case udp srvstop k%di stop" % k for k in (2, 3, 3)]
    # ... and a datagram server that got its context from the application (options.WithContext) and is shut down by
    # cancelling it (no Stop()), with a request of the server's own in flight on every peer's connection (acknowledged,
    # never answered, context without deadline)
    lines += ["case udp srvstop k%dx stop" % k for k in (1, 3)]
    # ... and a datagram server whose application closed the peers' connections and whose peers came back at once (a new
    # connection per peer before any housekeeping pass): the callbacks of the old connections too run exactly once
    lines += ["case udp srvstop k%dr stop" % k for k in (1, 3)]
    # a stream server accepts a connection whose peer is already gone: the signalling message written during the set-up
    # fails; the connection handed to OnNewConn must still complete its done signal and run its callbacks once
    lines += ["case tcp srvstop deadpeer stop"]
    # a stream / DTLS server (in-memory listener) whose accepted transport connections RELEASE the connection in Close() but
    # report an error - what a tls.Conn / pion conn does when its close_notify alert cannot be delivered to a failed peer -
    # all of them (f) / every second one (h); the peers are silent.  Stop() must still end every connection: Serve returns,
    # every peer sees its connection end, every done signal is completed, every callback ran once (seeded C09-V: the registry
    # pkg/connections gave up at the first connection whose Close() reported an error)
    lines += ["case %s srvstop k%d%s stop" % (t, k, m) for t in ("tcp", "dtls") for k, m in ((2, "f"), (5, "f"), (4, "h"), (6, "h"))]
    # DTLS (pion's real handshake and record layer, loopback): the peer never answers the ClientHello; the peer completes the
    # handshake and stays silent / acknowledges without responding
    lines += ["case dtls %s handshake %s" % (o, c) for o in OPS if o != "obscancel" for c in ("cancel", "deadline", "close")]
    # (no `peerclose` here: a DTLS peer's closure reaches the client only as a close_notify datagram, and pion's listener side
    # does not always get it out before its socket demultiplexer forgets the peer - 1 run in ~20 on loopback; the client then
    # cannot know.  The harness still accepts the case for experiments.)
    lines += ["case dtls %s %s %s" % (o, p, c) for o in OPS for p in ("live", "liveack") for c in ("cancel", "deadline", "close")]
    impl = common.run_test_harness(ctx, art["test"], "TestC09", lines, timeout=1500)
    if impl is None or len(impl) != len(lines):
        return
    # "whatever the peer does": after the request is out the peer sends one WELL-FORMED message that carries N (empty Uri-Path)
    # options - unusual, legal, within one datagram of the default MTU up to ~1460 - so that the option buffer of the pooled
    # message that receives it has to grow 16 -> 32 -> ... past N; then cancel / Close().  N sits on both sides of every power
    # of two the buffer passes through that matters (16|17, 1024|1025) and beyond (1100, 1400; streams: 2049, 5000).  Real
    # time, in-memory transports, bound 0.5 s.  The same for servers: one more peer has sent such a message right before
    # Stop().  A separate run of the harness, last: a reader that never comes back from decoding spins for the rest of the
    # process (seeded C09-W: the growth clamped at 1024 entries without an exit).
    many = ["case %s %s opts%d close" % (t, o, n) for t in ("udp", "tcp") for o in OPS for n in (1024, 1025)]
    many += ["case %s get opts%d %s" % (t, n, c) for t in ("udp", "tcp") for n in (16, 17, 1100, 1400) for c in ("cancel", "close")]
    many += ["case tcp get opts%d %s" % (n, c) for n in (2049, 5000) for c in ("cancel", "close")]
    many += ["case %s srvstop k1o%d stop" % (t, n) for t in ("udp", "tcp", "dtls") for n in (1024, 1025, 1100)]
    impl2 = common.run_test_harness(ctx, art["test"], "TestC09", many, timeout=600, tag="manyopts")
    if impl2 is None or len(impl2) != len(many):
        return
    lines, impl = lines + many, impl + impl2
    judge = None
    if art.get("driver"):
        rc, judge, _ = common.pipe_lines([art["driver"], "judge"], [l + " | " + o for l, o in zip(lines, impl)])
        rc2, waits, _ = common.pipe_lines([art["driver"], "waits"], [])
        ctx.cov["blocking_points"] = waits
        if rc or len(judge) != len(lines):
            ctx.broken.append(("model", "C09 driver run failed", ""))
            judge = None
    # real sockets, real time: a case whose set-up did not come together (a peer not yet in its handler after a second
    # on a loaded machine) is repeated alone, twice at most; only a set-up that fails every time is reported
    for i, (l, o) in enumerate(zip(lines, impl)):
        f = l.split()
        realtime = f[2] in ("srvstop", "discover") or f[1] == "dtls" or f[3] == "stalled" or f[3].startswith("opts")
        if realtime and o in ("conn-error", "setup-failed"):
            for attempt in range(2):
                again = common.run_test_harness(ctx, art["test"], "TestC09", [l], timeout=300, tag="retry")
                if again and again[0] not in ("conn-error", "setup-failed"):
                    ctx.notes.append("rig: `%s` needed %d repetition(s) to set up" % (l, attempt + 1))
                    impl[i] = again[0]
                    if judge is not None:
                        rcj, jj, _ = common.pipe_lines([art["driver"], "judge"], [l + " | " + again[0]])
                        if not rcj and len(jj) == 1:
                            judge[i] = jj[0]
                    break
    seen = set()
    for i, (l, o) in enumerate(zip(lines, impl)):
        ctx.cov["evaluations"] += 1
        f = l.split()
        ctx.count("%s-%s" % (f[2], f[4]))
        if o.startswith("panic") or o in ("conn-error", "setup-failed", "bad-op"):
            ctx.violations.append(common.Violation("no-crash", "C09:" + l, "%s -> %s" % (l, o), {"input": [l], "observed": o}))
            continue
        seen.add(l)
        if judge is not None and judge[i] != "ok":
            ctx.violations.append(common.Violation("returns-and-clean-close", "C09:" + l, "%s: observed `%s`: %s" % (l, o, judge[i]),
                                                   {"input": [l], "observed": o, "judge": judge[i]}))
    ctx.cov["distinct_nontrivial"] = len(seen)
    ctx.cov["traces_validated_against_impl"] = len(lines)
    ctx.cov["exhaustive"] = True
    ctx.cov["rule"] = ("the complete grid {udp, tcp} x {get, observe, observation cancel, ping, one-way write} x {before send, after send, after ACK, "
                       "queued behind the limiter (limit 1), mid block-wise transfer} x {cancel, deadline, local close, peer close, garbage}, plus tcp x "
                       "op x {frame write blocked because the peer stopped reading} x cause (real time, bound 0.5 s); DiscoveryRequest x {cancel, "
                       "deadline, server stop}; Stop() from three goroutines of udp/tcp servers with 0/1/3 connections whose handlers block; "
                       "every case is distinct; each ends with Close from three goroutines + one more Close, checking the done signal and that two "
                       "registered on-close callbacks ran exactly once. Bound: the call must return within 1 ms of virtual time after the cause.")
    for l, o in list(zip(lines, impl))[:3]:
        ctx.sample({"case": l, "observed": o})


def run(ctx):
    art = common.standard_prepare(ctx, MODULES, hx=False, test=True, generated=GENERATED)
    if art.get("test"):
        explore(ctx, art)
    # the sweep that completes a closed datagram peer's shutdown (and every connection's housekeeping) is driven by the
    # housekeeping runner: the same register / finish / tick histories as in C18, against Model/Runner.lean
    from . import c18
    with common.Lock():
        rt = common.build_test(ctx, "c18")
        rd = common.build_driver(ctx, "C18")
    if rt and rd:
        c18.runner_check(ctx, rt, rd, random.Random(ctx.seed), ctx.tier == "thorough", "C09", "returns-and-clean-close")
    return common.finish(ctx)


def replay(ctx, rep):
    art = common.standard_prepare(ctx, MODULES, hx=False, test=True, generated=GENERATED)
    lines = rep.get("input") or []
    if not lines:
        print("replay file names no failing input:", rep.get("no_longer_checks"))
        return 1
    if lines[0].startswith("conns") or lines[0].startswith("ctor"):
        from . import c18
        return c18.replay(ctx, rep)
    if lines[0].startswith("rcfg"):   # a housekeeping-runner history
        from . import c18
        with common.Lock():
            rt = common.build_test(ctx, "c18")
            rd = common.build_driver(ctx, "C18")
        impl = common.run_test_harness(ctx, rt, "TestC18Runner", lines, tag="replay")
        rc, model, _ = common.pipe_lines([rd, "runner"], lines)
        bad = 0
        for l, o, m in zip(lines, impl, model):
            print("%s: implementation `%s`  specification `%s`" % (l, o, m))
            bad += o != m
        if bad:
            print("VIOLATION property=C09 replay=(replayed) still reproduces")
        return 1 if bad else 0
    impl = common.run_test_harness(ctx, art["test"], "TestC09", lines, tag="replay")
    rc, judge, _ = common.pipe_lines([art["driver"], "judge"], [l + " | " + o for l, o in zip(lines, impl)])
    bad = 0
    for l, o, j in zip(lines, impl, judge):
        print("%s: implementation `%s`  judge `%s`" % (l, o, j))
        if j != "ok":
            bad += 1
    if bad:
        print("VIOLATION property=C09 replay=(replayed) still reproduces")
    return 1 if bad else 0
