"""C10 — servers stay up, peers stay isolated (PARTIAL; DESIGN.md §5 C10).

Proof: Props/C10.lean — key_normalisation, one_conn_per_key, in_arrival_order, non_interference, discovery_routing for the
datagram server's dispatch model.
Tie: X — getConnKey (hook, read-only) against the model on the address matrix; real loopback UDP, TCP, TLS and DTLS servers with
well-behaved clients and fuzz peers (garbage, truncated, oversize, unsolicited ACK/RST/responses, connect-and-stall, DTLS
ClientHello-then-silence), discovery with several responders, stray responses and refused duplicate-token calls (the
observed counts are also compared with the registration model `dtrace`).  Real sockets, real time: a rig problem is never a violation.
Connection histories (`streams`): a real tcp / dtls server behind an in-memory listener that reports any (remote, local) address
pair - two open connections with equal remote and different local addresses included -, judged by Spec/StreamServer and compared
event by event with Model/StreamServer (registry keyed by the remote address only; Props/C10Streams).  Housekeeping histories
(`hk`): a datagram server whose housekeeping pass the harness runs, meeting the peer's next datagram and Stop on one closed connection.
Tokens (`discover tok`): discoveries with application-chosen tokens while responders and other peers send messages whose tokens are
related to them but different (leading / trailing zero bytes, prefixes, the empty token): Props/C10Tokens (the tables keyed by
a number derived from the token agree with tables keyed by the token on every history whose tokens the key separates; the real
Token.Hash is evaluated on every line's tokens).  Failed connection attempts (`streams ... f ... f*<n>`): transient Accept errors,
isolated and in series, up to 40 in one server's life: Props/C10Accept.
"""
import itertools
import json
import os
import random

from . import common

MODULES = ["CoapVerif.Props.C10", "CoapVerif.Props.C10Wiring", "CoapVerif.Props.C10Streams", "CoapVerif.Props.C10Tokens",
           "CoapVerif.Props.C10Accept"]
GENERATED = ["OptionWiring.lean", "ConnRegistry.lean"]
KINDS = [("concrete", "5"), ("concrete", "6"), ("concrete6", "5"), ("multicast", "5"), ("multicast", "9"), ("multicast6", "5"),
         ("unspecified", "0"), ("unspecified6", "0"), ("empty", "0")]


def _hex(bs):
    return "".join("%02x" % b for b in bs) if bs else "-"


def token_lines(ctx, rng):
    """`discover tok <D>:<S> ...`: every discovery token D comes with a DIFFERENT token S that a length-forgetting or
    truncating key would confuse with it: D without its leading zero bytes, with zero bytes appended, a prefix / an
    extension of D, the empty token, all-zero tokens of different lengths, 8-byte tokens (what Discover draws) that begin with
    a zero byte.  All 2n tokens of a line are different."""
    L = ["discover tok 00abcdef:abcdef 00:- 0000d15c:d15c a1b2:a1b200 c3c4:c3c4c5 e5f60708:00e5f60708 0011223344556677:11223344556677",
         "discover tok 0000000000000000:- 00000000000000:000000 0000:00000000",
         "discover tok 00:-",
         "discover tok 00abcdef:abcdef"]
    for _ in range(8 if ctx.tier == "thorough" else 3):
        used, pairs = set(), []
        for _ in range(rng.randrange(2, 7)):
            t = [rng.randrange(1, 256)] + [rng.randrange(256) for _ in range(rng.randrange(0, 6))]
            room = 8 - len(t)
            kind = rng.choice(["lead", "lead", "leadrev", "trail", "trailrev", "ext", "pre", "lead8", "zeros"])
            if kind == "lead":
                d, s_ = [0] * rng.randrange(1, room + 1) + t, t
            elif kind == "leadrev":
                d, s_ = t, [0] * rng.randrange(1, room + 1) + t
            elif kind == "trail":
                d, s_ = t, t + [0] * rng.randrange(1, room + 1)
            elif kind == "trailrev":
                d, s_ = t + [0] * rng.randrange(1, room + 1), t
            elif kind == "ext":
                d, s_ = t, t + [rng.randrange(256)]
            elif kind == "pre":
                d, s_ = t + [rng.randrange(256)], t
            elif kind == "lead8":
                t = (t + [rng.randrange(256) for _ in range(7)])[:7]
                d, s_ = [0] + t, t
            else:
                a, b = rng.sample(range(0, 9), 2)
                d, s_ = [0] * max(a, 1), [0] * b
            if d == s_ or not d or _hex(d) in used or _hex(s_) in used:
                continue
            used |= {_hex(d), _hex(s_)}
            pairs.append(_hex(d) + ":" + _hex(s_))
        if pairs:
            L.append("discover tok " + " ".join(pairs))
    return L


def explore(ctx, art):
    rng = random.Random(ctx.seed)
    thorough = ctx.tier == "thorough"
    lines = []
    for (ka, ia), (kb, ib) in itertools.product(KINDS, KINDS):
        for ra, rb in (("1", "1"), ("1", "2")):
            lines.append("keyeq %s %s %s %s %s %s" % (ra, ka, ia, rb, kb, ib))
    nkey = len(lines)
    for i in range(6 if thorough else 2):
        lines.append("serve udp %d %d %d %d" % (rng.randrange(1 << 30), rng.choice([2, 3, 4]), rng.choice([1, 2, 4]), 30 if thorough else 15))
        lines.append("serve tcp %d %d %d %d" % (rng.randrange(1 << 30), rng.choice([2, 3, 4]), rng.choice([1, 2, 4]), 30 if thorough else 15))
        lines.append("serve dtls %d %d %d %d" % (rng.randrange(1 << 30), rng.choice([2, 3]), rng.choice([1, 2, 3]), 20 if thorough else 10))
        lines.append("serve tls %d %d %d %d" % (rng.randrange(1 << 30), rng.choice([2, 3]), rng.choice([1, 2, 3]), 20 if thorough else 10))
    # peer-table histories on a real server (hook VerifConnKeys), compared with the model's `step` after every event
    for _ in range(40 if thorough else 10):
        evs = []
        for _ in range(rng.randrange(4, 14)):
            evs.append(rng.choice("wwwmnc") + str(rng.randrange(1, 5)))
        lines.append("table " + " ".join(evs))
    lines.append("table w1 w2 m1 w1 n3 w3 m3 c2 w2 m9")
    # the same under concurrency: server-initiated NewConn calls for a new peer at the moment its first datagram arrives
    # (the application's monitor factory takes 2 ms): one connection per peer
    lines.append("tablerace %d 3" % (60 if thorough else 15))
    lines.append("tablerace %d 2" % (60 if thorough else 15))
    # one peer's burst of well-formed requests to a slow resource (handler 150 ms) while a second peer asks for a fast one
    lines.append("serve udpbacklog 0 150 40 0")
    lines.append("serve udpbacklog 0 150 8 0")      # below the receive-queue size: the second peer must be served at once
    # the application adds a route at run time while a peer's handler is running; a handler creates a route itself
    lines.append("serve muxlive 0 0 0 0")
    # a stream peer pipelines requests with messages the application's request monitor drops (one write)
    lines.append("serve tcpmonitor 0 0 0 0")
    # the server gives up a confirmable request of its own towards a peer that stays silent: the others are still served
    lines.append("serve udpgiveup 0 0 0 0")
    # one peer's burst beyond the receive queue while the handler is busy with its first request: handled in arrival order
    lines.append("serve udporder 0 120 40 0")
    lines.append("serve udporder 0 60 100 0")
    # wildcard-bound datagram server reached over two local addresses (127.0.0.1, 127.0.0.2) while a request is queued
    lines.append("serve udpwild 0 60 0 0")
    for n in ([0, 1, 3, 5] if thorough else [0, 3]):
        lines.append("discover %d" % n)
    for n in ([1, 2, 4] if thorough else [1, 3]):
        lines.append("discover %d dup" % n)
    for n in ([1, 2, 4] if thorough else [2]):
        lines.append("discover %d failsend" % n)
    # responders that answer block-wise (two blocks): the per-responder connection fetches the second block with the discovery
    # request it finds by token (udp/server multicastRequests); the receiver must get one complete body per responder
    for n in ([1, 2, 4] if thorough else [2]):
        lines.append("discover %d bw" % n)
    # discoveries whose tokens are related to, but different from, the tokens of other messages that arrive meanwhile
    lines += token_lines(ctx, random.Random(ctx.seed + 2222))
    impl = common.run_test_harness(ctx, art["test"], "TestC10", lines, timeout=600)
    if impl is None or len(impl) != len(lines):
        return
    model = judge = None
    if art.get("driver"):
        # `discover n bw` is `discover n` for the model and the judge: block-wise delivery is below them
        dl = [l[:-3] if l.startswith("discover ") and l.endswith(" bw") else l for l in lines]
        rc, model, _ = common.pipe_lines([art["driver"], "model"], dl)
        rc2, judge, _ = common.pipe_lines([art["driver"], "judge"], [l + " | " + o for l, o in zip(dl, impl)])
        if rc or rc2 or len(model) != len(lines) or len(judge) != len(lines):
            ctx.broken.append(("model", "C10 driver run failed", ""))
            model = judge = None
    for i, (l, o) in enumerate(zip(lines, impl)):
        ctx.cov["evaluations"] += 1
        ctx.count(l.split()[0] + ("-" + l.split()[1] if l.startswith("serve") else ""))
        if o.startswith("panic"):
            ctx.violations.append(common.Violation("no-crash", "C10:" + l.split()[0] + ":panic", "%s -> %s" % (l, o), {"input": [l], "observed": o}))
            continue
        if o.startswith("rig-error"):
            ctx.notes.append("rig problem (not a violation): %s -> %s" % (l, o))
            continue
        if judge is not None and not judge[i].startswith("ok"):
            kind = l.split()[0] + ("-" + l.split()[1] if l.startswith("serve") else "")
            if l.startswith("discover tok"):
                kind = "discover-tok"
            if l.startswith("serve udpbacklog"):
                # receive queue of a connection: 16 messages (+1 in the handler); a burst within it must never delay others
                kind += ":over-queue" if int(l.split()[4]) > 17 else ":within-queue"
            ctx.violations.append(common.Violation("serves-and-isolates", "C10:%s" % kind, "%s: observed `%s`: %s" % (l, o, judge[i]),
                                                   {"input": [l], "observed": o, "judge": judge[i]}))
        if model is not None and model[i] != "n/a" and model[i] != o and not o.startswith("rig-error"):
            ctx.broken.append(("correspondence", "C10 model vs implementation", "%s: impl %s model %s" % (l, o, model[i])))
    ctx.cov["distinct_nontrivial"] = len(set(lines))
    ctx.cov["traces_validated_against_impl"] = len(lines) - nkey
    ctx.cov["rule"] = ("peer-table key equality on the full matrix of local address kinds (concrete v4/v6, multicast v4/v6, unspecified v4/v6, empty) x "
                       "same/different remote; real loopback servers (UDP, TCP, TLS with peers that never start/finish the handshake, DTLS-PSK with stalled-handshake peers) with 2-4 well-behaved clients exchanging 15-30 request/response pairs "
                       "while 1-4 adversarial peers send garbage, truncated and oversize messages, unsolicited ACK/RST/responses, reserved token "
                       "lengths, or connect and stall; discovery with 0-5 responders, each also sending a stray response with a foreign token, "
                       "and with a duplicate-token DiscoveryRequest issued (and refused) while the first is still waiting. "
                       "every line is a distinct case; non-trivial = all of them (each serve line interleaves >= 1 adversarial and >= 2 good peers).")
    for l, o in list(zip(lines, impl))[nkey:nkey + 3]:
        ctx.sample({"case": l, "observed": o})


def stream_lines(ctx, rng):
    """connection histories for the stream / DTLS servers: 2 remote addresses x 3 local addresses, so that two simultaneously
    open connections with EQUAL remote and different local addresses (one source ip:port reaching a wildcard listener over
    two of its addresses) occur in most histories; housekeeping passes and Stop happen while they are open."""
    L = ["streams tcp o1.1.1 q1 o2.1.2 q1 q2 q1 h x2 q1 h s",
         "streams dtls o1.1.1 q1 o2.1.2 q1 q2 q1 h x1 q2 h s",
         "streams tcp o1.1.1 o2.1.2 o3.1.3 h q1 q2 q3 s",
         "streams tcp o1.1.1 o2.2.1 o3.1.2 q1 q2 q3 h x3 q1 q2 x1 h o4.1.3 q4 h s",
         "streams dtls o1.1.1 o2.2.1 q1 h x2 h q1 o3.2.1 q3 h s"]
    # connection attempts that FAIL inside Accept (EMFILE / ENFILE / ECONNABORTED: listener open, server running), far along
    # one server's life: isolated incidents, each followed by a peer that connects, is served and hangs up (16 / 12 of them),
    # and series of failures (24 + 16 = 40 failed Accepts in one life) between the requests of open connections
    L.append("streams tcp " + " ".join("f o%d.%d.%d q%d x%d" % (i, 1 + i % 2, 1 + i % 3, i, i) for i in range(1, 17)) + " f o17.1.1 q17 h s")
    L.append("streams dtls o1.2.2 " + " ".join("f o%d.1.%d q%d q1 x%d" % (i, 1 + i % 3, i, i) for i in range(2, 14)) + " f q1 h s")
    L.append("streams tcp o1.1.1 f*24 q1 o2.2.1 f*16 q2 q1 h s")
    L.append("streams dtls f*12 o1.1.1 q1 f*12 o2.1.2 q1 q2 x1 f q2 h s")
    for k in range(24 if ctx.tier == "thorough" else 8):
        t = "tcp" if k % 2 == 0 else "dtls"
        evs, opn, nid = [], {}, 0      # opn: id -> [remote, local]
        for _ in range(rng.randrange(6, 16)):
            c = rng.random()
            free = [(r, l) for r in (1, 2) for l in (1, 2, 3) if not any(v[0] == r and v[1] == l for v in opn.values())]
            if (c < 0.35 or not opn) and free and len(opn) < 5:
                r, l = rng.choice(free)
                nid += 1
                opn[nid] = [r, l]
                evs.append("o%d.%d.%d" % (nid, r, l))
            elif c < 0.65 and opn:
                evs.append("q%d" % rng.choice(sorted(opn)))
            elif c < 0.82 and opn:
                i = rng.choice(sorted(opn))
                del opn[i]
                evs.append("x%d" % i)
            elif c < 0.92:
                evs.append("h")
            else:
                evs.append(rng.choice(["f", "f", "f*2", "f*5"]))
        for i in sorted(opn):
            evs.append("q%d" % i)
        evs += ["h", "s"]
        L.append("streams %s %s" % (t, " ".join(evs)))
    return L


def hk_lines(ctx, rng):
    """datagram server with the housekeeping pass in the harness' hand: the three ways a closed peer connection is cleaned up
    (pass, the peer's next datagram, Stop) meet on one connection"""
    L = ["hk w1 w2 m1 m2 p:wo w1 w2",
         "hk w1 w2 m1 m2 p:s",
         "hk w1 w2 c1 c2 p:mo w1 w2 p",
         "hk w1 w2 w3 c1 m2 c3 p:wo w1 w2 w3 p:w2 s",
         "hk w1 m1 p w1 c1 w1 p s",
         "hk w1 w2 w3 m1 c2 m3 p:w3 p:w2 w1 w2 w3 p s"]
    for _ in range(16 if ctx.tier == "thorough" else 5):
        evs = ["w1", "w2", "w3"]
        for _ in range(rng.randrange(4, 10)):
            c = rng.random()
            i = rng.randrange(1, 4)
            if c < 0.3:
                evs.append("w%d" % i)
            elif c < 0.5:
                evs.append("m%d" % i)
            elif c < 0.65:
                evs.append("c%d" % i)
            elif c < 0.75:
                evs.append("p")
            else:
                evs.append("p:" + rng.choice("wwmc") + rng.choice([str(i), "o"]))
        evs.append(rng.choice(["p:s", "s", "p"]))
        L.append("hk " + " ".join(evs))
    return L


def connection_histories(ctx, art):
    """`streams` and `hk` lines run in their own harness process; when that process dies (a panic in a goroutine of the library
    cannot be recovered by the harness) the lines are run one by one, and a line whose own process dies is a concrete failing
    input."""
    rng = random.Random(ctx.seed + 1010)
    lines = []
    cdir = os.path.join(common.VERIF, "corpus", "C10")
    for f in sorted(os.listdir(cdir)) if os.path.isdir(cdir) else []:
        if f.endswith(".json"):
            lines += [l for l in json.load(open(os.path.join(cdir, f))).get("input", []) if l.split()[0] in ("streams", "hk")]
    lines += [l for l in stream_lines(ctx, rng) + hk_lines(ctx, rng) if l not in lines]
    nb = len(ctx.broken)
    out = common.run_test_harness(ctx, art["test"], "TestC10", lines, timeout=600, tag="conn")
    if out is None or len(out) != len(lines):
        out = []
        for l in lines:
            o = common.run_test_harness(ctx, art["test"], "TestC10", [l], timeout=120, tag="conn1")
            if o and len(o) == 1:
                out.append(o[0])
                continue
            tail = [x for x in (getattr(ctx, "harness_log", "") or "").splitlines() if x.startswith(("panic:", "fatal error:"))][:1]
            out.append("crash " + (tail[0] if tail else "the harness process died"))
        del ctx.broken[nb:]          # replaced by the concrete lines below
    if not art.get("driver"):
        return
    rc, model, _ = common.pipe_lines([art["driver"], "model"], lines)
    rc2, judge, _ = common.pipe_lines([art["driver"], "judge"], [l + " | " + o for l, o in zip(lines, out)])
    if rc or rc2 or len(model) != len(lines) or len(judge) != len(lines):
        ctx.broken.append(("model", "C10 driver run failed (connection histories)", ""))
        return
    for l, o, m, j in zip(lines, out, model, judge):
        ctx.cov["evaluations"] += 1
        kind = l.split()[0] + ("-" + l.split()[1] if l.startswith("streams") else "")
        ctx.count(kind)
        if o.startswith("rig-error"):
            ctx.notes.append("rig problem (not a violation): %s -> %s" % (l, o))
            continue
        if o.startswith(("crash ", "panic")):
            ctx.violations.append(common.Violation("no-crash", "C10:%s:crash" % kind, "%s: the server's process died: %s" % (l, o),
                                                   {"input": [l], "observed": o}))
            continue
        if not j.startswith("ok"):
            clause = "no-crash" if "crashed" in j else "serves-and-isolates"
            if "stopped accepting" in j:
                kind += ":accept-failures-series" if "a series of" in j else ":accept-failures-isolated"
            ctx.violations.append(common.Violation(clause, "C10:%s" % kind, "%s: observed `%s`: %s" % (l, o, j),
                                                   {"input": [l], "observed": o, "judge": j}))
        if m != "n/a" and m != o:
            ctx.broken.append(("correspondence", "C10 stream-server model vs implementation", "%s: impl %s model %s" % (l, o, m)))
    ctx.cov["traces_validated_against_impl"] = ctx.cov.get("traces_validated_against_impl", 0) + len(lines)
    ctx.cov["distinct_nontrivial"] = ctx.cov.get("distinct_nontrivial", 0) + len(set(lines))


def run(ctx):
    art = common.standard_prepare(ctx, MODULES, hx=False, test=True, generated=GENERATED)
    if art.get("test"):
        explore(ctx, art)
        connection_histories(ctx, art)
    # peer isolation under the servers' own housekeeping: three peers on one real tcp / dtls server (one silent, one
    # talkative), monitors from options.WithKeepAlive / WithInactivityMonitor / the default configuration; the observed
    # peer's connection must behave as if it were alone (harness/c18 server levels, judged by C18's reference monitor)
    from . import c18
    with common.Lock():
        st = common.build_test(ctx, "c18")
        sd = common.build_driver(ctx, "C18")
    if st and sd:
        c18.server_peers_check(ctx, st, sd, random.Random(ctx.seed + 77), 400 if ctx.tier == "thorough" else 120, "C10", "serves-and-isolates")
    return common.finish(ctx)


def replay(ctx, rep):
    art = common.standard_prepare(ctx, MODULES, hx=False, test=True, generated=GENERATED)
    lines = rep.get("input") or []
    if not lines:
        print("replay file names no failing input:", rep.get("no_longer_checks"))
        return 1
    if rep.get("server_peers"):
        from . import c18
        return c18.replay(ctx, rep)
    impl = common.run_test_harness(ctx, art["test"], "TestC10", lines, tag="replay")
    if impl is None or len(impl) != len(lines):
        tail = [x for x in (getattr(ctx, "harness_log", "") or "").splitlines() if x.startswith(("panic:", "fatal error:"))][:1]
        print("%s: the harness process died: %s" % (lines, tail[0] if tail else ""))
        print("VIOLATION property=C10 replay=(replayed) still reproduces")
        return 1
    rc, judge, _ = common.pipe_lines([art["driver"], "judge"], [l + " | " + o for l, o in zip(lines, impl)])
    bad = 0
    for l, o, j in zip(lines, impl, judge):
        print("%s: implementation `%s`  judge `%s`" % (l, o, j))
        if not j.startswith("ok"):
            bad += 1
    if bad:
        print("VIOLATION property=C10 replay=(replayed) still reproduces")
    return 1 if bad else 0
