"""C11 — each received message is processed once; handlers may call back (DESIGN.md §5 C11).

Proof: Props/C11.lean — small-step model of the replaceable single consumer (Model/Reader.lean): exactly_once, dispatch_fifo,
       one_current_loop, current_never_blocked and progress of the queue head for handlers whose every blocking wait is
       preceded by a replacement request; Findings/C11.lean — the library's own blocking operations are *not* all of
       that form (F11 limiter, F12 first notification, ping), with the stall exhibited on the model.
Tie:   T — Generated/WaitShape.lean: every blocking construct in the anchored functions with its wake-up cases and
           whether TryToReplaceLoop precedes it, plus the recognised structure of loop / TryToReplaceLoop; the programs
           the model runs for Do / DoObserve / Ping place `replace` exactly where the source has it;
       X — real udp/tcp connections under synctest: queue sizes 0/1/2/16, default and other limits, handlers {return,
           nested Do (same / own endpoint), two nested calls in a row, nested Observe, nested Ping}, several nesting
           levels, calls from outside handlers, answers in any order, close at any point; handler entry/exit log and
           nested-call results with virtual times compared with the model and judged by Spec/Dispatch.lean.
"""
import glob
import json
import os
import random

from . import common

MODULES = ["CoapVerif.Props.C11", "CoapVerif.Findings.C11", "CoapVerif.Props.C11NStart", "CoapVerif.Findings.C11NStart",
           "CoapVerif.Props.C11ReplyCache"]
GENERATED = ["WaitShape.lean", "Dedup.lean"]


def _install_local_known():
    extra = os.environ.get("VERIF_KNOWN_EXTRA")
    if not extra or getattr(common, "_c11_known_patched", False):
        return
    orig = common.load_known

    def load():
        out = list(orig())
        try:
            have = {(k.get("property"), k.get("id")) for k in out}
            for k in json.load(open(extra)).get("findings", []):
                if (k.get("property"), k.get("id")) not in have:
                    out.append(k)
        except OSError:
            pass
        return out
    common.load_known = load
    common._c11_known_patched = True


def gen_scenario(rng):
    udp = rng.random() < 0.55
    q = rng.choice([0, 0, 1, 1, 2, 16, 16])
    lim, ep = rng.choice([(1, 1), (1, 1), (0, 0), (0, 0), (0, 0), (2, 1), (1, 2), (0, 1)])
    ops = []
    nm = 1
    nk = 1
    waiting = []       # nested exchanges not yet answered: (k, kind, acked)
    blocking = 0
    pinged = False     # one ping per history (a pong answers the latest ping only)
    hijacked = []      # requests whose handler took the message over (`j`) and whose new owner has not given it back yet
    for _ in range(rng.randint(3, 14)):
        r = rng.random()
        if r < 0.45:
            pr = rng.random()
            if pr < 0.45:
                prog = "r"
            elif pr < 0.7:
                prog = "g%d" % nk
                waiting.append([nk, "g", False]); nk += 1
            elif pr < 0.8:
                prog = "h%d" % nk
                waiting.append([nk, "h", False]); nk += 1
            elif pr < 0.88:
                prog = "g%d+g%d" % (nk, nk + 1)
                waiting.append([nk, "g", False]); waiting.append([nk + 1, "g2", False]); nk += 2
            elif pr < 0.95:
                prog = "o%d" % nk
                waiting.append([nk, "o", False]); nk += 1
            elif not pinged:
                pinged = True
                if rng.random() < 0.5:
                    prog = "p"
                    waiting.append([0, "p", False])
                else:
                    prog = "p+g%d" % nk          # blocks without a replacement request first, asks for one later
                    waiting.append([nk, "g2", False]); nk += 1
            else:
                prog = "r"
            if prog != "r":
                blocking += 1
            if rng.random() < 0.05:
                prog = "j+" + prog       # the handler passes the request message on before anything else
                hijacked.append(nm)
            ops.append("arrive:%d:%s" % (nm, prog))
            nm += 1
        elif r < 0.49:
            n = rng.randint(2, 5)
            ops.append("burst:" + "-".join(str(nm + i) for i in range(n)))
            nm += n
        elif r < 0.53:
            ops.append("call:%s%d" % (rng.choice(["g", "g", "h"]), nk))
            waiting.append([nk, "c", False]); nk += 1
        elif r < 0.85 and waiting:
            w = rng.choice(waiting)
            if w[1] == "p":
                ops.append("pong")
                waiting.remove(w)
            elif udp and not w[2] and rng.random() < 0.35:
                ops.append("ack:%d" % w[0])
                w[2] = True
            elif udp and w[2]:
                ops.append("sep:%d" % w[0])
                waiting.remove(w)
            else:
                ops.append("resp:%d" % w[0])
                waiting.remove(w)
        elif r < 0.87 and udp:
            nempty = sum(1 for o in ops if o.startswith("empty:")) + 1
            ops.append("empty:%d:%s" % (nempty, rng.choice(["rst", "rst", "ack"])))
        elif r < 0.93:
            ops.append("sleep:%d" % rng.choice([100, 1000, 5000, 31000]))
        elif r < 0.96:
            ops.append("close")
        elif hijacked:
            ops.append("rel:%d" % hijacked.pop(0))
        else:
            ops.append("settle")
    ops.append(rng.choice(["settle", "sleep:31000", "sleep:31000"]))
    if any(":s" in o for o in ops) and ops[-1] == "settle":
        ops[-1] = "sleep:31000"      # a history does not end while a handler is still busy with its own work
    return "scn %s %d %d %d %s" % ("udp" if udp else "tcp", q, lim, ep, " ".join(ops)), (blocking >= 1 and nm > 2)


def stale_family(rng=None):
    """A replaced loop's handler returns while the current loop is inside a handler that has not asked for a replacement yet
    (it is busy with its own work: `s<ms>`); only then that handler issues a nested request.  Every loop must have its own
    `readingMessages` flag, otherwise the returning handler marks the *current* loop as reading, no replacement is made and
    nobody reads the awaited answer.  Inner requests confirmable (`g`) and non-confirmable (`n`: one hand-over only), the first
    handler returning because its answer came (then it goes on working for a moment) or because its call ran into its deadline,
    both transports, several queue sizes; with three handlers either of the two replaced loops returns first."""
    out = []
    combos = [(tr, q, x, y) for tr in ("udp", "tcp") for q in (16, 1, 0) for x in ("n", "g") for y in ("n", "g")]
    if rng is not None:
        combos = [rng.choice(combos) for _ in range(6)]
    for tr, q, x, y in combos:
        a, b = (100, 500) if rng is None else (rng.choice([50, 100, 300]), rng.choice([500, 800, 2000]))
        ans1 = "sep:1" if (tr == "udp" and x == "n") else "resp:1"
        ans2 = "sep:2" if (tr == "udp" and y == "n") else "resp:2"
        # the first handler gets its answer, works on for a ms; the second pauses b ms, then calls
        out.append("scn %s %d 0 0 arrive:1:%s1+s%d %s arrive:2:s%d+%s2 sleep:%d sleep:%d %s sleep:31000 settle"
                   % (tr, q, x, a, ans1, b, y, a + 50, b, ans2))
        # the first handler's call runs into its deadline while the second pauses
        out.append("scn %s %d 0 0 arrive:1:%s1 sleep:25000 arrive:2:s6000+%s2 sleep:7000 %s sleep:31000 settle" % (tr, q, x, y, ans2))
        # three handlers: 1 and 2 wait in nested calls on replaced loops, 3 pauses on the current one; 2 (or 1) returns by its
        # deadline first, then 3 calls
        out.append("scn %s %d 0 0 arrive:1:%s1 sleep:3000 arrive:2:%s2 sleep:24000 arrive:3:s8000+%s3 sleep:9000 resp:3 sleep:31000 settle"
                   % (tr, q, x, y, y))
        out.append("scn %s %d 0 0 arrive:1:%s1 arrive:2:%s2 sleep:1000 resp:2 sleep:26000 arrive:3:s6000+%s3 sleep:7000 resp:3 sleep:31000 settle"
                   % (tr, q, x, y, x))
    return out


def requeue_family(rng=None):
    """Several messages wait in the queue behind two busy handlers: the first one issued a nested request (its loop was replaced)
    and returns first, while the replacement loop is still busy with the second handler's own work.  The replaced loop then
    stands at its select with its loopDone closed *and* the queue ready (Go picks either): whether it leaves or takes the
    next message, every message must reach its handler in arrival order (`dispatch-order`)."""
    out = []
    combos = [(tr, q, x, n) for tr in ("udp", "tcp") for q in (16, 6) for x in ("n", "g") for n in (3, 5)]
    if rng is not None:
        combos = [rng.choice(combos) for _ in range(8)]
    for tr, q, x, n in combos:
        a, b = (500, 3000) if rng is None else (rng.choice([200, 500, 900]), rng.choice([2000, 3000, 5000]))
        ans = "sep:1" if (tr == "udp" and x == "n") else "resp:1"
        burst = "burst:" + "-".join(str(3 + i) for i in range(n))
        # handler 1: nested request, answered at once, then it works on for a ms; handler 2 works b ms on the new loop
        out.append("scn %s %d 0 0 arrive:1:%s1+s%d %s arrive:2:s%d %s sleep:%d sleep:%d settle" % (tr, q, x, a, ans, b, burst, a + 100, b + 500))
        # the same, the messages arrive one by one
        out.append("scn %s %d 0 0 arrive:1:%s1+s%d %s arrive:2:s%d %s sleep:%d sleep:%d settle"
                   % (tr, q, x, a, ans, b, " ".join("arrive:%d:r" % (3 + i) for i in range(n)), a + 100, b + 500))
    return out


def callback_family(rng=None):
    """An observation's callback issues a nested request on its own connection; before the answer, further notifications of the
    same observation (and ordinary requests) arrive, then the answer: the callback's request must get it, every notification
    must reach the callback once and in order."""
    out = []
    combos = [(tr, q, x, m) for tr in ("udp", "tcp") for q in (16, 0) for x in ("g", "n") for m in (1, 2)]
    if rng is not None:
        combos = [rng.choice(combos) for _ in range(6)]
    for tr, q, x, m in combos:
        ans = "sep:7" if (tr == "udp" and x == "n") else "resp:7"
        more = "&".join(["note:1"] * m)
        # the further notifications and the answer are sent without waiting for quiescence in between: a goroutine that waits for a
        # lock is not "idle" for synctest, and a confirmable request's second hand-over (on its ACK) can still rescue the connection
        out.append("scn %s %d 0 0 watch:1:%s7 resp:1 note:1 %s&%s sleep:31000 settle" % (tr, q, x, more, ans))
        out.append("scn %s %d 0 0 watch:1:%s7 resp:1 note:1 arrive:1:r&%s&arrive:2:r&%s&note:1 sleep:31000 settle" % (tr, q, x, more, ans))
        if tr == "udp" and x == "g":
            out.append("scn udp %d 0 0 watch:1:g7 resp:1 note:1 ack:7 %s&sep:7 sleep:31000 settle" % (q, more))
    # two observations: a notification of the other one in between; a nested ping from the callback
    out.append("scn tcp 16 0 0 watch:1:g7 resp:1 watch:2:r resp:2 note:1 note:2&note:1&resp:7&note:2 sleep:31000 settle")
    out.append("scn udp 16 0 0 watch:1:n7 resp:1 watch:2:r resp:2 note:1 note:2&note:1&sep:7&note:2 sleep:31000 settle")
    out.append("scn tcp 16 0 0 watch:1:p resp:1 note:1 note:1&pong sleep:11000 settle")
    out.append("scn udp 16 0 0 watch:1:p resp:1 note:1 note:1&pong sleep:11000 settle")
    return out


def framesize_family(rng=None):
    """Stream transport with a small read buffer (ConnectionCacheSize n, `tcp@n`): frames whose size makes the bytes pending at
    one read k*n-1, k*n, k*n+1 — a request, the awaited answer of a nested call, the answer of a call outside a handler.  A
    complete frame must be dispatched when it has arrived, not when the peer sends something else."""
    out = []
    combos = [(c, k, d) for c in (16, 64) for k in (1, 2, 3) for d in (-1, 0, 1)]
    if rng is not None:
        combos = [(rng.choice([16, 32, 64, 100]), rng.choice([1, 2, 3, 4, 5]), rng.choice([-1, 0, 0, 1])) for _ in range(8)]
    for c, k, d in combos:
        n = k * c + d
        if n < 14:
            continue
        out.append("scn tcp@%d 16 0 0 pad:%d arrive:1:r settle sleep:1000 settle" % (c, n))
        out.append("scn tcp@%d 16 0 0 arrive:1:g1 pad:%d resp:1 sleep:31000 settle" % (c, n))
        out.append("scn tcp@%d 1 0 0 call:g1 pad:%d resp:1 sleep:100 pad:%d arrive:1:r pad:%d arrive:2:r sleep:31000 settle" % (c, n, n, n + c))
    # one write with two frames, the read ends inside the HEADER (2 + token bytes) of the second: the complete first frame has been
    # dispatched when the rest arrives and must not be dispatched again (`resp2`: the awaited response, then a message that belongs to
    # nobody; `mon`: a message the request monitor drops, then a request)
    cuts = [(c, d) for c in (16, 64) for d in (1, 2, 3, 4)]
    if rng is not None:
        cuts = [(rng.choice([16, 24, 32, 64, 100]), rng.choice([1, 2, 3, 4])) for _ in range(4)]
    for c, d in cuts:
        out.append("scn tcp@%d 16 0 0 call:g1 pad:%d resp2:1 settle" % (c, c - d))
        out.append("scn tcp@%d 1 0 0 arrive:1:g1 pad:%d resp2:1 arrive:2:r settle" % (c, c - d))
        out.append("scn tcp@%d 16 0 0 pad:%d mon:1:r arrive:2:r settle" % (c, c - d))
    return out


def empty_family(rng=None):
    """Empty messages of the peer (code 0.00, no token) on the datagram transport: an ACK that matches nothing is discarded by
    the message layer; a Reset that matches nothing is an accepted message and reaches the application's handler once (this is
    how an application learns that the peer rejected a non-confirmable message); a Reset / ACK that matches a pending ping or
    request completes it (`pong`, `ack:<k>`).  Alone, between requests, while a handler waits in a nested call, and on the
    stream transport (where there are no such messages: the op does nothing)."""
    out = []
    for q in ((16, 0) if rng is None else (rng.choice([0, 1, 16]),)):
        out += [
            "scn udp %d 0 0 empty:1:rst settle" % q,
            "scn udp %d 0 0 empty:1:ack settle" % q,
            "scn udp %d 0 0 arrive:1:r empty:1:rst empty:2:ack empty:3:rst arrive:2:r settle" % q,
            "scn udp %d 0 0 arrive:1:g1 empty:1:rst ack:1 empty:2:ack empty:3:rst sep:1 empty:4:rst settle" % q,
            "scn udp %d 0 0 arrive:1:p empty:1:rst pong empty:2:rst sleep:11000 settle" % q,
            "scn udp %d 0 0 burst:1-2-3 empty:1:rst burst:4-5 empty:2:rst settle" % q,
            "scn udp %d 0 0 watch:1:g7 resp:1 note:1 empty:1:rst note:1 resp:7 empty:2:rst sleep:31000 settle" % q,
        ]
    if rng is None:
        out.append("scn tcp 16 0 0 arrive:1:r empty:1:rst empty:2:ack arrive:2:r settle")
    return out


def midclash_family(rng=None):
    """The peer's message IDs happen to meet ours: requests of the peer, answered by the handler (so their replies sit in the response
    cache under the peer's message IDs), carry exactly the message IDs the connection will use for its own next messages —
    confirmable ones (the reply is a piggybacked ACK, no ID of ours is drawn: a contiguous window above our last ID) and
    non-confirmable ones (the reply goes out as a confirmable response and draws two IDs: the third).  Then the connection sends
    requests and the peer answers them piggybacked (an ACK under our ID).  The cache is about the peer's confirmable /
    non-confirmable messages; the ACK is the awaited response and must reach the call."""
    out = []
    for q in ((16, 0) if rng is None else (rng.choice([0, 1, 16]),)):
        n = 6 if rng is None else rng.randint(3, 8)
        window = " ".join("arrivem:%d:a:con:+%d" % (i, i) for i in range(1, n + 1))
        out += [
            "scn udp %d 0 0 %s call:g1 resp:1 call:g2 resp:2 sleep:31000 settle" % (q, window),
            "scn udp %d 0 0 call:g1 resp:1 %s call:g2 resp:2 call:g3 ack:3 sep:3 sleep:31000 settle" % (q, window),
            "scn udp %d 0 0 %s arrive:20:g1 resp:1 arrive:21:g2+g3 resp:2 resp:3 sleep:31000 settle" % (q, window),
            "scn udp %d 0 0 call:g1 resp:1 arrivem:1:a:non:+3 call:g2 resp:2 sleep:31000 settle" % q,
            "scn udp %d 0 0 call:g1 resp:1 arrivem:1:a:non:+3 arrivem:2:a:non:+4 arrivem:3:a:non:+5 call:g2 resp:2 call:g3 resp:3 sleep:31000 settle" % q,
            "scn udp %d 0 0 call:g1 %s resp:1 call:n2 resp:2 sleep:31000 settle" % (q, window),
        ]
    return out


def noteclash_family(rng=None):
    """A notification (confirmable or not) carries exactly the message ID the connection will use for its own next message; the
    observation's callback then issues a nested confirmable request, which the peer answers piggybacked — an ACK under our ID.  The
    connection must keep its own message IDs away from the peer's confirmable messages (or otherwise cope): the nested request gets
    its answer."""
    out = []
    for q in ((16, 0) if rng is None else (rng.choice([0, 1, 16]),)):
        for d in (1, 2, 3):
            out.append("scn udp %d 0 0 watch:1:g7 resp:1 notem:1:con:+%d resp:7 note:1 sleep:31000 settle" % (q, d))
            if d > 1:
                out.append("scn udp %d 0 0 watch:1:g7 resp:1 notem:1:non:+%d resp:7 note:1 sleep:31000 settle" % (q, d))
        out.append("scn udp %d 0 0 watch:1:g7+g8 resp:1 notem:1:con:+1 resp:7 resp:8 sleep:31000 settle" % q)
        out.append("scn udp %d 0 0 watch:1:g7 resp:1 note:1 resp:7 notem:1:con:+1 call:g8 resp:8 sleep:31000 settle" % q)
    return out


# Finding F37 (repaired in /repo 57c17ac): the same with a NON-confirmable notification whose message ID equals the connection's
# next own ID stalled the tree before the repair.  `handleReq` takes the per-message-ID lock for every received message and keys it
# by the number alone, although the peer's IDs and ours are different spaces; `checkMyMessageID` moved our counter away from the
# peer's confirmable messages only.  The callback ran under lock X (the notification's ID), its nested request was sent with our ID
# X, and the piggybacked answer (ACK X) waited for lock X: the nested request ended by its deadline.  The line is part of the
# generated set now; a relapse is reported as C11:nested-stall:mid-lock.
MIDLOCK_NON = ["scn udp 16 0 0 watch:1:g7 resp:1 notem:1:non:+1 resp:7 note:1 sleep:31000 settle"]


def sametoken_family(rng=None):
    """Two messages under the token of a pending request, back to back (stream transport: in one write): the first is the response,
    the second belongs to nobody any more and reaches the connection's handler — exactly once, never dropped."""
    out = []
    for tr in ("tcp", "udp"):
        for q in ((16, 1) if rng is None else (rng.choice([0, 1, 2, 16]),)):
            out += [
                "scn %s %d 0 0 call:g1 resp2:1 settle" % (tr, q),
                "scn %s %d 0 0 arrive:1:g1 resp2:1 arrive:2:r settle" % (tr, q),
                "scn %s %d 0 0 call:g1 call:h2 resp2:2 resp2:1 arrive:1:g3 resp2:3 settle" % (tr, q),
                "scn %s %d 0 0 arrive:1:g1+g2 resp2:1 resp2:2 burst:2-3 settle" % (tr, q),
            ]
    return out


def dedup_family(rng=None):
    """While a handler is busy (a nested request, a confirmable write) the peer re-sends the very datagram that is being handled
    (same message ID, same token: it has not seen an ACK / a reply yet), and again after the handler has returned.  The handler
    runs once; the copies are answered from the reply cache.  Confirmable requests, and non-confirmable ones whose handler
    answers (a copy of a non-confirmable request that left no reply is a new request for this library).  The copy and the message
    that lets the handler finish are sent without waiting for quiescence in between (see `callback_family`)."""
    out = []
    for q in ((16, 0) if rng is None else (rng.choice([0, 1, 16]),)):
        out += [
            "scn udp %d 0 0 arrivem:1:w1:con:+7000 dup:1&yield&ack:1 dup:1 settle" % q,
            "scn udp %d 0 0 arrivem:1:a+w1:non:+7000 dup:1&yield&ack:1 dup:1 settle" % q,
            "scn udp %d 0 0 arrivem:1:w1:con:+7000 dup:1&ack:1 dup:1 settle" % q,
            "scn udp %d 0 0 arrivem:1:w1:con:+7000 dup:1&dup:1&yield&ack:1 arrive:2:r dup:1 settle" % max(q, 2),
            "scn udp %d 0 0 arrivem:1:g1:con:+7000 resp:1 dup:1 dup:1 arrive:2:r dup:1 settle" % q,
            "scn udp %d 0 0 arrivem:1:a+g1:non:+7000 resp:1 dup:1 settle" % q,
            "scn udp %d 0 0 arrivem:1:r:con:+7000 dup:1 arrivem:2:a:non:+7001 dup:2 dup:1 settle" % q,
        ]
    return out


# F36 (found here, fixed in /repo ad8bf20): the per-message-ID lock of `handleReq` was held over the handler and a copy of the request
# that is being handled, taken by the replacement loop, waited for it: when the handler's nested request was answered by a *separate*
# response (its ACK came before the copy, or the nested request is non-confirmable), nothing asked for another loop and the answer
# stayed in the queue behind the copy until the nested request's deadline (real sockets: docs/notes/trials/c11/duplock_demo_test.go).
# Now the copy hands the loop over before it waits (`Generated.Dedup.copyWaitsAfterHandover`, `copy_waits_after_handover`).  These
# lines keep watching it; a relapse is reported as C11:nested-stall:dup-lock.
DUPLOCK = ["scn udp 16 0 0 arrivem:1:g1:con:+7000 ack:1 dup:1&yield&sep:1 sleep:31000 settle"]
# … and when the answer is piggybacked but arrives right behind the copy: the hand-over the ACK triggers comes before the replacement
# loop has taken the copy (scheduling-dependent)
DUPLOCK_THOROUGH = ["scn udp 16 0 0 arrivem:1:n1:con:+7000 dup:1&sep:1 sleep:31000 settle",
                    "scn udp 0 0 0 arrivem:1:a+n1:non:+7000 dup:1&sep:1 sleep:31000 settle",
                    "scn udp 16 0 0 arrivem:1:g1:con:+7000 dup:1&resp:1 sleep:31000 settle",
                    # queue size 0: a second copy blocks the socket reader behind the first, so not even the ACK is read
                    "scn udp 0 0 0 arrivem:1:w1:con:+7000 dup:1&dup:1&ack:1 sleep:31000 settle"]


def monitor_family(rng=None):
    """A request monitor that drops some messages (the harness's drops DELETE) on a connection: a dropped message and a request
    right behind it — on the stream transport in the same write; the request is a message like any other and must be dispatched
    without waiting for more bytes from the peer.  Alone, as the last thing the peer sends, and while a handler waits in a nested
    call whose answer follows."""
    out = []
    for tr in ("tcp", "udp"):
        for q in ((16, 0) if rng is None else (rng.choice([0, 1, 16]),)):
            out += [
                "scn %s %d 0 0 mon:1:r settle" % (tr, q),
                "scn %s %d 0 0 arrive:1:r mon:2:r mon:3:r settle" % (tr, q),
                "scn %s %d 0 0 mon:1:g1 resp:1 mon:2:r settle" % (tr, q),
                "scn %s %d 0 0 arrive:1:g1 mon:2:g2 resp:2 resp:1 settle" % (tr, q),
            ]
    return out


def nstart_family(rng=None):
    """NSTART (RFC 7252 4.7; `udp@<n>`: at most n outstanding interactions, default 1) with requests of the application outstanding
    on the connection while the peer sends a message of its own whose handler (or observation callback) issues a nested request:
    the application's requests are non-confirmable (awaiting their response), confirmable and not yet acknowledged, or
    confirmable, acknowledged and awaiting a separate response — as many of them as there are slots.  Then the answers of the
    outstanding requests arrive *behind* the peer's message, then the answer of the nested request.  Whatever takes part in NSTART,
    a handler that waits for a slot must not be the one the slot's release waits for: every call gets its answer.  The limiter is
    unlimited (F11 would mask it).  Between the peer's request and the acknowledgement that frees the slot there are fewer messages
    than the receive queue holds, exactly as many, or more (the socket reader then stands behind a full queue: F41, see
    NSTART_FULL_QUEUE below)."""
    out = []
    combos = [(ns, q, ctx, inner) for ns in (1, 2) for q in (16, 1, 0) for ctx in ("non", "con", "acked") for inner in ("g", "n")]
    if rng is not None:
        combos = [(rng.choice([1, 1, 2, 3]), rng.choice([16, 2, 1, 0]), rng.choice(["non", "non", "con", "acked"]), rng.choice(["g", "g", "n", "w"]))
                  for _ in range(6)]
    for ns, q, ctx, inner in combos:
        ids = [9, 8, 7][:ns]
        pre = " ".join("call:%s%d" % ("n" if ctx == "non" else "g", k) for k in ids)
        if ctx == "acked":
            pre += " " + " ".join("ack:%d" % k for k in ids)
        ans = " ".join(("resp:%d" if ctx == "con" else "sep:%d") % k for k in ids)
        inner_ans = {"g": "resp:1", "n": "sep:1", "w": "ack:1"}[inner]
        tr = "udp@%d" % ns
        # the answers of the outstanding requests right behind the peer's request
        out.append("scn %s %d 0 0 %s arrive:1:%s1 %s %s sleep:31000 settle" % (tr, q, pre, inner, ans, inner_ans))
        # further requests of the peer in between — fewer than the queue holds, as many, more (small queues) — and behind
        for between in ((min(q, 2), q + 1, q + 2) if rng is None else (rng.randint(0, min(q, 3)), q + rng.randint(1, 3))):
            if between > 4:
                continue
            more = " ".join("arrive:%d:r" % (20 + i) for i in range(between))
            out.append("scn %s %d 0 0 %s arrive:1:%s1 %s %s arrive:5:r %s sleep:31000 settle" % (tr, q, pre, inner, more, ans, inner_ans))
        # the nested request comes from an observation's callback
        if inner != "w":
            out.append("scn %s %d 0 0 watch:1:%s5 resp:1 %s note:1 %s %s note:1 sleep:31000 settle" % (tr, q, inner, pre, ans, inner_ans.replace(":1", ":5")))
    if rng is None:
        for q in (16, 0):
            out += [
                # handlers only: every nested confirmable request waits for the slot of the one before it until that one is acknowledged
                "scn udp@1 %d 0 0 arrive:1:g1 arrive:2:g2 ack:1 ack:2 sep:2 sep:1 sleep:31000 settle" % q,
                "scn udp@1 %d 0 0 arrive:1:g1 ack:1 arrive:2:g2 ack:2 arrive:3:g3 resp:3 sep:1 sep:2 sleep:31000 settle" % q,
                "scn udp@2 %d 0 0 arrive:1:g1 arrive:2:g2 arrive:3:g3 ack:2 resp:1 sep:2 resp:3 sleep:31000 settle" % q,
                # a one-way confirmable write and a non-confirmable request outstanding
                "scn udp@1 %d 0 0 call:n9 arrive:1:w1 sep:9 ack:1 sleep:31000 settle" % q,
                "scn udp@1 %d 0 0 call:n9 call:w8 arrive:1:g1 ack:8 sep:9 resp:1 sleep:31000 settle" % q,
                # a request that is never answered keeps no slot once it is acknowledged
                "scn udp@1 %d 0 0 call:g9 ack:9 arrive:1:g1+g2 resp:1 resp:2 sleep:31000 settle" % q,
            ]
    return out


# F41 (found here in round 10, repaired in /repo a2d1ac6): `prepareWriteMessage` waited for an NSTART slot
# (`acquireOutstandingInteraction`) before any `TryToReplaceLoop`.  The slot it waits for is given back when the holder's acknowledgement
# has been read by the socket reader — but the socket reader stood behind a full receive queue that only the waiting handler's loop
# could drain: nobody read the acknowledgement (nor anything else) until the holder's request ran into its deadline.  Queue size 0: one
# message between the peer's request and the acknowledgement is enough; queue size N: N + 1 (default NSTART 1, default queue 16: 17).
# Now the wait hands the loop over first (`Generated.WaitShape`: precededByReplace, `Props.C11NStart.nstart_wait_never_keeps_a_queued_message`).
# These lines (and the full-queue lines of nstart_family) keep watching it; a relapse is reported as C11:nested-stall:nstart
# (model and implementation agree and the model's current loop sits in the NSTART wait).
NSTART_FULL_QUEUE = ["scn udp@1 0 0 0 call:g9 arrive:1:g1 arrive:2:r ack:9 sep:9 resp:1 sleep:31000 settle",
                     "scn udp@1 1 0 0 arrive:1:g1 arrive:2:g2 arrive:3:r arrive:4:r ack:1 sep:1 ack:2 sep:2 sleep:31000 settle",
                     "scn udp@1 0 0 0 call:n9 call:w8 arrive:1:g1 sep:9 ack:8 resp:1 sleep:31000 settle",
                     # the default queue of 16: 17 messages in between
                     "scn udp@1 16 0 0 call:g9 arrive:1:g1 %s ack:9 sep:9 resp:1 sleep:31000 settle" % " ".join("arrive:%d:r" % (20 + i) for i in range(17))]


def hijack_family(rng=None):
    """A handler takes its request message over (Hijack, handler step `j`) and passes it on to another part of the application; that
    new owner is done — and gives the message back to the pool (`rel:<m>`) — while the connection is still busy with that very
    request: the handler works on (`s<ms>`), answers, or waits in a nested call.  The peer's next messages are read meanwhile (into
    pooled message objects, possibly the one just given back) and wait in the receive queue.  When the handler returns the
    connection finishes its own part for request m.  Every later message must reach its handler exactly once: a message object that
    holds a queued message belongs to that message.  Also: released only after the handler has returned, never released, released
    when nothing else arrives; both transports, queue sizes 16 / 1 / 0."""
    out = []
    combos = [(tr, q) for tr in ("udp", "tcp") for q in (16, 1, 0)]
    if rng is not None:
        combos = [(rng.choice(["udp", "tcp"]), rng.choice([16, 2, 1, 0])) for _ in range(3)]
    for tr, q in combos:
        a = 100 if rng is None else rng.choice([20, 100, 700])
        n = 3 if rng is None else rng.randint(1, 5)
        burst = "burst:" + "-".join(str(2 + i) for i in range(n))
        one_by_one = "&".join("arrive:%d:r" % (2 + i) for i in range(n))
        sep = "sep:1" if tr == "udp" else "resp:1"
        out += [
            # the handler works on after it has passed the message on; the new owner is done first; the next messages queue up
            "scn %s %d 0 0 arrive:1:j+s%d rel:1&%s sleep:%d settle" % (tr, q, a, one_by_one, a + 100),
            "scn %s %d 0 0 arrive:1:j+a+s%d rel:1&%s sleep:%d settle" % (tr, q, a, burst, a + 100),
            # … one idle point later
            "scn %s %d 0 0 arrive:1:j+s%d rel:1 %s sleep:%d settle" % (tr, q, a, burst, a + 100),
            # the handler waits in a nested call; the replacement loop is busy with request 2; 3 … queue up; then the answer
            "scn %s %d 0 0 arrive:1:j+g1 rel:1&arrive:2:s%d&%s resp:1 sleep:%d sleep:31000 settle"
            % (tr, max(q, 1), a, "&".join("arrive:%d:r" % (3 + i) for i in range(n)), a + 100),
            "scn %s %d 0 0 arrive:1:j+n1 arrive:2:s%d rel:1&%s %s sleep:%d sleep:31000 settle"
            % (tr, max(q, 1), a, "&".join("arrive:%d:r" % (3 + i) for i in range(n)), sep, a + 100),
            # the new owner is done after the handler has returned / never / twice the pattern in a row
            "scn %s %d 0 0 arrive:1:j+a settle rel:1&%s settle" % (tr, q, burst),
            "scn %s %d 0 0 arrive:1:j+s%d %s sleep:%d settle" % (tr, q, a, burst, a + 100),
            "scn %s %d 0 0 arrive:1:j+s%d rel:1&arrive:2:j+s%d&arrive:3:r sleep:%d rel:2&arrive:4:r&arrive:5:r sleep:%d settle" % (tr, q, a, a, a + 50, 2 * a + 100),
        ]
    return out


# EXCHANGE_LIFETIME is 247 s; the reply cache of a datagram connection must answer a copy of a message that is that young, however
# many other exchanges the peer has had on the connection in between.  Sizes around powers of two up to 8192 (+1) are part of the set.
FLOOD_SIZES_QUICK = [4095, 4096, 4097]
FLOOD_SIZES_THOROUGH = [1023, 1024, 1025, 2048, 2049, 4095, 4096, 4097, 6000, 8192, 8193]


def flood_family(rng=None, sizes=None):
    """A busy, long-lived datagram connection: the peer sends a request, then n further distinct confirmable (or non-confirmable)
    requests (`flood:<m0>:<n>:<con|non>`, every handler answers, so every reply is cached), all inside EXCHANGE_LIFETIME; then a
    copy of the first request (same message ID) turns up — and copies of requests in the middle of the run.  A copy is answered from
    the reply cache: no handler runs twice.  n = 4095, 4096, 4097 in both tiers (1023 … 8193 in thorough); randomised copies draw
    n from 4000 … 4300; the virtual clock is moved 200 s in one variant (still inside the lifetime)."""
    out = []
    if rng is not None:
        n = rng.randint(4000, 4300)
        i = rng.randint(0, 200)
        q = rng.choice([16, 1, 0])
        return ["scn udp %d 0 0 arrivem:1:a:con:+7000 flood:10000:%d:con dup:1 dup:%d arrive:2:r dup:1 settle" % (q, n, 10000 + i),
                "scn udp %d 0 0 arrivem:1:a:%s:+7000 flood:10000:%d:con sleep:%d dup:1 settle" % (q, rng.choice(["con", "non"]), n, rng.choice([1000, 45000, 200000]))]
    for n in (sizes or FLOOD_SIZES_QUICK):
        out.append("scn udp 16 0 0 arrivem:1:a:con:+7000 flood:10000:%d:con dup:1 arrive:2:r dup:10000 dup:1 settle" % n)
    # non-confirmable requests (the replies are confirmable messages of the connection: 500 at a time, the peer acknowledges them)
    out.append("scn udp 0 0 0 arrivem:1:a:non:+7000 %s dup:1 dup:10000 settle" % " ".join("flood:%d:500:non" % (10000 + 500 * i) for i in range(9)))
    if sizes:
        out.append("scn udp 16 0 0 arrivem:1:a:con:+7000 flood:10000:6000:con sleep:200000 dup:1 dup:10000 dup:13000 settle")
        out.append("scn udp 1 0 0 arrive:1:g1 flood:10000:4097:con resp:1 dup:10000 sleep:31000 settle")
        out.append("scn tcp 16 0 0 arrive:1:g1 flood:10000:4097:con resp:1 sleep:31000 settle")
    return out


# one discovery of a real udp.Server over a loopback socket each (real time, about 1.6 s per line): the receiver callback issues a
# blocking request on the responder's connection; order of the responder's messages after it
DISCOVERY = ["disc ack-d2-sep", "disc d2-ack-sep", "disc ack-sep-d2", "disc d2-pig"]


FIXED = [
    # F11 with the default limits 1/1: the answer is on the connection, nobody reads it, the outer call times out at 30 s
    "scn tcp 16 1 1 call:g9 arrive:1:g1 resp:9 sleep:31000 settle",
    "scn udp 16 1 1 call:g9 ack:9 arrive:1:g1 sep:9 sleep:31000 settle",
    "scn tcp 16 1 1 arrive:1:g1 arrive:2:g2 resp:1 sleep:31000 settle",
    # F12: Observe inside a handler on a stream transport returns only at its 20 s deadline although the peer answered after 1 s
    "scn tcp 16 0 0 arrive:1:o1 arrive:2:r sleep:1000 resp:1 sleep:20000 settle",
    "scn udp 16 0 0 arrive:1:o1 arrive:2:r sleep:1000 resp:1 sleep:20000 settle",
    # Ping inside a handler (pong is read inline, but not while the socket reader is stuck behind a full queue)
    "scn tcp 0 0 0 arrive:1:p arrive:2:r pong sleep:11000 settle",
    "scn udp 0 0 0 arrive:1:p arrive:2:r pong sleep:11000 settle",
    "scn udp 16 0 0 arrive:1:p arrive:2:r pong settle",
    # a replaced loop returns (its nested call times out) while the current loop is inside a handler that has not yet asked
    # for a replacement; that handler's later nested call must still get its answer (per-loop readingMessages flag)
    "scn udp 16 0 0 arrive:1:g1 sleep:25000 arrive:2:p+g2 sleep:11000 resp:2 sleep:31000 settle",
    "scn tcp 16 0 0 arrive:1:g1 sleep:25000 arrive:2:p+g2 sleep:11000 resp:2 sleep:31000 settle",
    "scn tcp 1 0 0 arrive:1:h1 arrive:2:h2 sleep:25000 arrive:3:p+g3 sleep:6000 sleep:5000 resp:3 arrive:4:r sleep:31000 settle",
    # arrival order: bursts before a blocking handler arrives, and again after it has returned
    "scn udp 16 0 0 burst:1-2-3-4 arrive:5:g1 burst:6-7 resp:1 burst:8-9-10 settle",
    "scn tcp 1 0 0 burst:1-2-3 arrive:4:g1 resp:1 burst:5-6-7-8 settle",
    "scn udp 0 0 0 burst:1-2-3-4-5 settle",
    # what works: nested calls to any depth, any answer order, every queue size
    "scn udp 16 0 0 arrive:1:r arrive:2:r arrive:3:r settle",
    "scn udp 0 0 0 arrive:1:g1 arrive:2:g2 arrive:3:g3 resp:3 resp:2 resp:1 settle",
    "scn udp 1 0 0 arrive:1:g1 arrive:2:g2 arrive:3:g3 resp:1 resp:3 resp:2 settle",
    "scn tcp 0 0 0 arrive:1:g1 arrive:2:g2 arrive:3:g3 arrive:4:r resp:2 resp:3 resp:1 settle",
    "scn udp 16 0 0 arrive:1:g1+g2 resp:1 arrive:2:r resp:2 settle",
    "scn udp 16 1 1 arrive:1:g1 arrive:2:h2 resp:1 resp:2 settle",
    "scn udp 16 0 0 arrive:1:g1 close arrive:2:r settle",
    "scn tcp 2 0 0 arrive:1:g1 arrive:2:r arrive:3:r arrive:4:r arrive:5:r close settle",
]


def corpus_lines():
    out = []
    for p in sorted(glob.glob(os.path.join(common.VERIF, "corpus", "C11", "*.json"))):
        try:
            out += json.load(open(p)).get("input", [])
        except (OSError, ValueError):
            pass
    return out


def gen_lines(ctx):
    rng = random.Random(ctx.seed * 7727 + 11)
    L = [(l, True) for l in corpus_lines() + FIXED + stale_family() + requeue_family() + callback_family() + framesize_family()
         + empty_family() + midclash_family() + sametoken_family() + dedup_family() + monitor_family() + noteclash_family() + nstart_family() + hijack_family() + NSTART_FULL_QUEUE + MIDLOCK_NON + DUPLOCK + DISCOVERY
         + flood_family(sizes=FLOOD_SIZES_THOROUGH if ctx.tier == "thorough" else None)]
    if ctx.tier == "thorough":
        L += [(l, True) for l in DUPLOCK_THOROUGH]
    for _ in range(20 if ctx.tier == "thorough" else 2):
        L += [(l, True) for l in dedup_family(rng)]
    for _ in range(20 if ctx.tier == "thorough" else 2):
        L += [(l, True) for l in midclash_family(rng) + sametoken_family(rng)]
    for _ in range(20 if ctx.tier == "thorough" else 2):
        L += [(l, True) for l in empty_family(rng)]
    for _ in range(40 if ctx.tier == "thorough" else 6):
        L += [(l, True) for l in stale_family(rng)]
    for _ in range(40 if ctx.tier == "thorough" else 4):
        L += [(l, True) for l in nstart_family(rng)]
    for _ in range(20 if ctx.tier == "thorough" else 2):
        L += [(l, True) for l in hijack_family(rng)]
    for _ in range(3 if ctx.tier == "thorough" else 1):
        L += [(l, True) for l in flood_family(rng)]
    for _ in range(30 if ctx.tier == "thorough" else 3):
        L += [(l, True) for l in requeue_family(rng) + callback_family(rng) + framesize_family(rng)]
    for _ in range(10000 if ctx.tier == "thorough" else 1500):
        L.append(gen_scenario(rng))
    return L


def canon(line, ops=None):
    """Event sets per idle point. After `close` the loops may or may not take what is still queued (select chooses at random
    between the queue and the connection's Done), so only the part of the history before the close is compared."""
    segs = line.split(";")
    if ops is not None and "close" in ops:
        segs = segs[:ops.index("close")]
    return ";".join(",".join(sorted(seg.split(","))) for seg in segs)


def _short(obs):
    """the observation of a history with thousands of messages, for the one-line report (the replay file has all of it)"""
    return obs if len(obs) <= 600 else obs[:200] + " … " + obs[-300:]


def _run_once(ctx, exe, lines, tag, hang_s=None):
    """One run of the harness binary (as common.run_test_harness, without its bookkeeping): the lines it answered."""
    import subprocess
    inp = os.path.join(ctx.work, tag + ".in")
    outp = os.path.join(ctx.work, tag + ".out")
    open(inp, "w").write("\n".join(lines) + "\n")
    if os.path.exists(outp):
        os.remove(outp)
    e = dict(os.environ, VERIF_IN=inp, VERIF_OUT=outp, VERIF_SEED=str(ctx.seed), VERIF_TIER=ctx.tier)
    if hang_s:
        e["VERIF_HANG_S"] = str(hang_s)
    try:
        subprocess.run([exe, "-test.run", "^TestC11$", "-test.timeout", "1500s"], cwd=ctx.work, env=e,
                       stdout=subprocess.PIPE, stderr=subprocess.STDOUT, text=True, timeout=1530)
    except subprocess.TimeoutExpired:
        pass
    return open(outp).read().splitlines() if os.path.exists(outp) else []


def run_resilient(ctx, art, lines, tag):
    """The harness answers every line and flushes.  A history in which a goroutine of the connection waits for a lock can never
    end under synctest (the bubble is never idle, virtual time stands still): the harness's real-time watchdog answers `hang`
    and ends the process; a panic on a library goroutine ends it without an answer.  Either way the remaining lines are run in
    a new process.  A `hang` is confirmed by running the line alone with a longer limit before it is reported."""
    res = []
    rest = list(lines)
    incidents = 0
    confirmed = 0
    while rest:
        out = _run_once(ctx, art["test"], rest, tag)[:len(rest)]
        res += out
        if len(out) == len(rest):
            break
        incidents += 1
        if incidents > 300:
            ctx.broken.append(("correspondence", "harness TestC11 ended prematurely more than 300 times", ""))
            return None
        if out and out[-1] == "hang":
            if confirmed < 3:               # once three hangs are confirmed the defect is established; later ones are taken as reported
                again = _run_once(ctx, art["test"], [rest[len(out) - 1]], tag + "h", hang_s=6)
                if again and again[0] != "hang":
                    res[-1] = again[0]      # slow machine, not a hang
                else:
                    confirmed += 1
        else:
            res.append("panic:process-crash")
            out = out + [None]
        rest = rest[len(out):]
        if incidents >= 12 and rest:
            # the check has failed with concrete inputs; the rest of the search is not worth minutes of real-time watchdogs
            res += ["skipped"] * len(rest)
            ctx.notes.append("%d lines not run after 12 hangs / crashes" % len(rest))
            break
    if incidents:
        ctx.notes.append("the harness process ended prematurely %d time(s) (hang or crash of a library goroutine); remaining lines were run in new processes" % incidents)
    return res


def evaluate(ctx, art, lines, tag="x"):
    impl = run_resilient(ctx, art, lines, tag)
    if impl is None or len(impl) != len(lines):
        return None
    rc, model, _ = common.pipe_lines([art["driver"], "model"], lines)
    rc3, cls, _ = common.pipe_lines([art["driver"], "classify"], lines)
    if rc3 or len(cls) != len(lines):
        ctx.broken.append(("model", "C11 driver run failed", ""))
        return None
    # the dispatch-order clause is judged where at most one loop can be dispatching at any moment (third field of the classification)
    rc2, judge, _ = common.pipe_lines([art["driver"], "judge"],
                                      [l + " | " + o + (" | two" if c.endswith("|two") else "") for l, o, c in zip(lines, impl, cls)])
    cls = [c.rsplit("|", 1)[0] if c.endswith(("|one", "|two")) else c for c in cls]
    if rc or rc2 or rc3 or len(model) != len(lines) or len(judge) != len(lines) or len(cls) != len(lines):
        ctx.broken.append(("model", "C11 driver run failed", ""))
        return None
    return list(zip(lines, impl, model, judge, cls))


def explore(ctx, art):
    gl = gen_lines(ctx)
    lines = [l for l, _ in gl]
    nontriv = {l: n for l, n in gl}
    res = evaluate(ctx, art, lines)
    if res is None:
        return
    distinct = set()
    mism = 0
    # a line on which model and implementation disagree is run once more on its own (fresh process): goroutine scheduling
    # inside one virtual instant is the Go runtime's, and a rare different interleaving must not be reported as a broken
    # correspondence; a disagreement that shows again is.
    suspects = [r[0] for r in res if "|" in r[4] and not r[4].startswith("racy") and r[1] not in ("hang", "skipped") and
                canon(r[1], r[0].split()[5:]) != canon(r[2], r[0].split()[5:])]
    retried = {}
    if suspects and len(suspects) <= 40:
        again = evaluate(ctx, art, suspects, tag="retry")
        if again:
            retried = {r[0]: r for r in again}
    for line, impl, model, judge, cls in res:
        if line in retried:
            r2 = retried[line]
            if canon(r2[1], line.split()[5:]) == canon(r2[2], line.split()[5:]):
                ctx.count("scheduling-dependent outcome (agreed with the model on the second run)")
                ctx.notes.append("first run differed from the model, second run agreed: %s | first: %s" % (line, impl))
                line, impl, model, judge, cls = r2
        ctx.cov["evaluations"] += 1
        f = line.split()
        if f[0] == "disc":
            ctx.count("discovery:" + f[1] + (":skipped" if impl.startswith("skip") else ""))
            if impl.startswith("skip"):
                ctx.notes.append("discovery history skipped: no loopback socket")
            elif impl.startswith("panic"):
                ctx.violations.append(common.Violation("no-crash", "C11:no-crash:" + line, "%s -> %s" % (line, impl), {"input": [line], "observed": impl}))
            elif judge != "ok":
                # real sockets and a real clock: a verdict must show twice (a loaded machine can delay a datagram past a deadline)
                again = evaluate(ctx, art, [line], tag="disc2")
                if again and again[0][3] == "ok":
                    ctx.notes.append("discovery history judged `%s` once and ok on the second run (real-time rig): %s | %s" % (judge, line, impl))
                    continue
                clause = judge.replace("violates ", "")
                ctx.violations.append(common.Violation(clause, "C11:%s:%s" % (clause, line),
                                                       "%s (udp.Server.DiscoveryRequest over a loopback socket; the receiver callback issues a blocking request on the "
                                                       "responder's connection): observed `%s`: %s" % (line, impl, judge),
                                                       {"input": [line], "observed": impl, "judge": judge}))
                ctx.count("judge:%s:discovery" % clause)
            continue
        ctx.count("%s-queue%s-limits%s/%s" % (f[1], f[2], f[3], f[4]))
        if impl == "skipped":
            ctx.cov["evaluations"] -= 1
            ctx.count("not run after repeated hangs")
            continue
        if impl == "hang":
            # confirmed by a second run on its own with a 60 s limit
            ctx.violations.append(common.Violation(
                "nested-stall", "C11:nested-stall:dup-lock" if line in DUPLOCK + DUPLOCK_THOROUGH else "C11:nested-stall:mid-lock" if line in MIDLOCK_NON else "C11:nested-stall:hang:" + line,
                "%s: the history never ends: a goroutine of the connection waits for a lock (not for a channel or the clock), so under "
                "synctest the bubble is never idle and virtual time stands still; on a real clock the messages queued behind it are not "
                "processed until the lock holder's own deadline" % line, {"input": [line], "observed": impl}))
            ctx.count("judge:nested-stall:hang")
            continue
        if impl.startswith("panic") or impl in ("bad-op", "conn-error"):
            ctx.violations.append(common.Violation("no-crash", "C11:no-crash:" + line, "%s -> %s" % (line, impl),
                                                   {"input": [line], "observed": impl}))
            continue
        ctx.cov["traces_validated_against_impl"] = ctx.cov.get("traces_validated_against_impl", 0) + 1
        racy, cls = cls.split("|", 1) if "|" in cls else ("det", cls)
        racy = racy == "racy"
        if racy:
            ctx.count("select-race (model comparison skipped)")
        agree = canon(impl, f[5:]) == canon(model, f[5:])
        if not agree and not racy:
            mism += 1
            ctx.count("model-mismatch")
            if mism <= 5:
                ctx.broken.append(("correspondence", "C11 model vs implementation",
                                   "%s\n impl  %s\n model %s" % (line, impl, model)))
        if judge != "ok":
            clause = judge.replace("violates ", "")
            cause = cls.split("+")[0]
            if clause in ("nested-stall", "dropped") and cause != "-" and (agree or racy):
                # the model (whose `replace` positions are read from the source) reproduces the stall: the current loop sits
                # in a blocking construct of the library that has no TryToReplaceLoop before it
                sig = "C11:nested-stall:" + cause
            else:
                sig = "C11:%s:%s" % (clause, line)
            ctx.violations.append(common.Violation(clause, sig, "%s: observed `%s`: %s (current loop blocked in: %s)" % (line, _short(impl), judge, cls),
                                                   {"input": [line], "observed": impl, "judge": judge, "model": model, "blocked_in": cls}))
            ctx.count("judge:%s:%s" % (clause, cls))
        if nontriv.get(line) and line not in distinct:
            distinct.add(line)
            if len(distinct) <= 4:
                ctx.sample({"input": line, "implementation": impl, "judge": judge})
    ctx.cov["distinct_nontrivial"] = len(distinct)
    ctx.cov["exhaustive"] = False
    ctx.cov["rule"] = ("one evaluation = one history on a real udp or tcp client.Conn under synctest: receive-queue size 0/1/2/16, limits "
                       "1/1 (default), unlimited and others; requests whose handlers return, issue a nested Do (same or own endpoint), two "
                       "nested calls in a row, a nested Observe or Ping; calls from outside handlers; answers (piggybacked, ACK then "
                       "separate) in any order, early answers, sleeps across the 10/20/30 s deadlines, close at any point. Handler "
                       "entry/exit and nested-call results with their virtual times are compared with the model (event sets per idle "
                       "point) and the history is judged by Spec.Dispatch. distinct_nontrivial = distinct histories in which a handler "
                       "blocks and at least one more message arrives (appendix A).")


def run(ctx):
    _install_local_known()
    art = common.standard_prepare(ctx, MODULES, hx=False, test=True, generated=GENERATED)
    if art.get("test") and art.get("driver"):
        explore(ctx, art)
    return common.finish(ctx)


def replay(ctx, rep):
    art = common.standard_prepare(ctx, MODULES, hx=False, test=True, generated=GENERATED)
    lines = rep.get("input") or []
    if not lines:
        print("replay file names no failing input:", rep.get("no_longer_checks"))
        return 1
    res = evaluate(ctx, art, lines, tag="replay")
    if res is None:
        print("replay could not run", ctx.broken)
        return 1
    bad = 0
    for line, impl, model, judge, cls in res:
        print("%s\n  implementation: %s\n  model:          %s\n  judge:          %s  [current loop blocked in: %s]" % (line, impl, model, judge, cls))
        if judge != "ok":
            bad += 1
    if bad:
        print("VIOLATION property=C11 replay=(replayed) still reproduces")
    return 1 if bad else 0
