"""C12 — a pooled message has one owner at a time (PARTIAL; DESIGN.md §5 C12).

Proof: Props/C12.lean — the typestate monitor is equivalent to the declarative property (monitor_iff_spec) and the
library's receive-path / hand-over / pending-clone path programs obey it for every handler behaviour.
Tie: hook h1 (message/pool lifecycle tracker + poison, build tag verif): the real acquire/release trace of every
scenario is recorded and validated by the monitor; for `path` scenarios the projection of the real trace must equal the
path program of the model (correspondence of the hand abstraction).
"""
import itertools
import random

from . import common

MODULES = ["CoapVerif.Props.C12"]


def scenarios(ctx):
    rng = random.Random(ctx.seed)
    thorough = ctx.tier == "thorough"
    S = []
    maxlen = 3 if thorough else 2
    for n in range(0, maxlen + 1):
        for ops in itertools.product("SWRHC", repeat=n):
            o = "".join(ops)
            if o == "":
                o = "C"
            S.append("scn udp path " + o)
            S.append("scn tcp path " + o)
    for _ in range(200 if thorough else 40):
        o = "".join(rng.choice("SWRHC") for _ in range(rng.randrange(3, 7)))
        S.append("scn %s path %s" % (rng.choice(["udp", "tcp"]), o))
    for k in ["piggy", "separate", "dupack", "reset", "silent", "cancel"]:
        S.append("scn udp do " + k)
    for k in ["ok", "silent"]:
        S.append("scn tcp do " + k)
    for n in [0, 1, 3, 6]:
        S.append("scn udp observe %d" % n)
    for n in ([0, 1, 15, 16, 17, 32, 33, 100, 400] if thorough else [0, 16, 17, 40]):
        S.append("scn udp blockwise %d" % n)
    for i in range(40 if thorough else 8):
        S.append("scn udp mix %d %d" % (rng.randrange(1 << 30), rng.choice([4, 8, 16])))
    return sorted(set(S), key=S.index)


def explore(ctx, art):
    lines = scenarios(ctx)
    impl = common.run_test_harness(ctx, art["test"], "TestC12", lines, timeout=1500)
    if impl is None or len(impl) != len(lines):
        # the harness process died (a panic in a library goroutine cannot be recovered): isolate the scenarios
        ctx.broken = [b for b in ctx.broken if not b[1].startswith("harness TestC12 failed")]
        impl = []
        crashed = 0
        for l in lines:
            saved = list(ctx.broken)
            o = common.run_test_harness(ctx, art["test"], "TestC12", [l], timeout=120, tag="iso")
            if o and len(o) == 1:
                impl.append(o[0])
                continue
            ctx.broken = saved
            log = getattr(ctx, "harness_log", "")
            first = next((x for x in log.splitlines() if x.startswith("panic:") or "fatal error" in x), "crash")
            impl.append("trace panic 0")
            crashed += 1
            if crashed <= 5:
                ctx.violations.append(common.Violation(
                    "ownership", "C12:%s:crash" % " ".join(l.split()[1:3]),
                    "%s: the process crashed while the scenario ran (%s)" % (l, first[:160]),
                    {"input": [l], "observed": log[-3000:]}))
    jl = [l + " | " + o for l, o in zip(lines, impl)]
    judge = model = None
    if art.get("driver"):
        rc, judge, _ = common.pipe_lines([art["driver"], "judge"], jl)
        rc2, model, _ = common.pipe_lines([art["driver"], "model"], jl)
        if rc or rc2 or len(judge) != len(lines) or len(model) != len(lines):
            ctx.broken.append(("model", "C12 driver run failed", ""))
            judge = model = None
    distinct = set()
    events = 0
    matched = 0
    for i, (l, o) in enumerate(zip(lines, impl)):
        if not o.startswith("trace"):
            ctx.violations.append(common.Violation("no-crash", "C12:" + l, "%s -> %s" % (l, o[:200]), {"input": [l], "observed": o[:2000]}))
            continue
        n = 0 if o == "trace -" else o.count(";") + 1
        events += n
        kind = " ".join(l.split()[1:3])
        ctx.count(kind)
        if n == 0:
            ctx.broken.append(("correspondence", "C12 empty lifecycle trace", l))
        if "hold" in o and ("rel" in o):
            distinct.add(o)
        if o == "trace panic 0":
            continue
        if judge is not None and not judge[i].startswith("ok"):
            what = judge[i].replace("violates ", "")
            import re
            sig = "C12:%s:%s" % (kind, re.sub(r"\d+", "N", what)[:80])
            ctx.violations.append(common.Violation("ownership", sig, "%s: %s" % (l, what), {"input": [l], "trace": o[:6000], "judge": judge[i]}))
        if model is not None:
            if model[i] == "match":
                matched += 1
            elif model[i].startswith("differs"):
                ctx.broken.append(("correspondence", "C12 path program vs implementation", "%s: %s" % (l, model[i][:400])))
    # lifecycle traces recorded while the harnesses of other properties run their scenarios (interruption grid of C09: all the
    # error / cancellation / close paths; observe histories of C08; keep-alive histories of C18 on real connections)
    fevents, ftraces = foreign_traces(ctx, art)
    events += fevents
    ctx.cov["foreign_traces_validated"] = ftraces
    ctx.cov["evaluations"] = events
    ctx.cov["distinct_nontrivial"] = len(distinct)
    ctx.cov["traces_validated_against_impl"] = len(lines)
    ctx.cov["path_programs_matched"] = matched
    ctx.cov["rule"] = ("one trace per scenario: receive path with every handler behaviour over {SetMessage, Swap, release-of-swapped, Hijack, "
                       "SetResponse} up to length %d (+ random longer) on udp and tcp; client requests against a scripted peer (piggybacked, "
                       "separate + duplicate, duplicate ACK, reset, silence with retransmissions and expiry sweeps, cancellation); observe with "
                       "0..6 notifications and cancel; block-wise POST/response between two real connections; concurrent mixed traffic with "
                       "housekeeping ticks. evaluations = lifecycle events checked; non-trivial trace = contains an application hold and a release; "
                       "distinct by the exact trace." % (3 if ctx.tier == "thorough" else 2))
    for l, o in list(zip(lines, impl))[:2]:
        ctx.sample({"scenario": l, "trace": o[:400]})


def foreign_traces(ctx, art):
    import os
    import random as _r
    from . import c08, c09, c18
    rng = _r.Random(ctx.seed)
    jobs = []
    grid = ["case %s %s %s %s" % (t, o, p, c) for t in ("udp", "tcp") for o in c09.OPS for p in c09.POINTS for c in c09.CAUSES]
    jobs.append(("c09", "TestC09", grid))
    l8 = []
    for _ in range(300 if ctx.tier == "thorough" else 60):
        l8 += c08.gen_case(rng)[0]
    jobs.append(("c08", "TestC08", l8 + ["end"]))
    l18 = []
    for _ in range(400 if ctx.tier == "thorough" else 80):
        cl, kinds, level = c18.gen_case(rng)
        if level != "unit":
            l18 += cl
    jobs.append(("c18", "TestC18", l18 + ["end"]))
    events = traces = 0
    for pkg, test, lines in jobs:
        with common.Lock():
            exe = common.build_test(ctx, pkg)
        if not exe:
            continue
        tf = os.path.join(ctx.work, "pooltrace_%s.txt" % pkg)
        if os.path.exists(tf):
            os.remove(tf)
        saved = list(ctx.broken)
        common.run_test_harness(ctx, exe, test, lines, timeout=1200, tag="foreign_" + pkg, env={"VERIF_POOLTRACE": tf})
        ctx.broken = saved      # the foreign harness's own verdicts belong to its own property's check
        if not os.path.exists(tf):
            ctx.notes.append("no lifecycle trace from harness %s" % pkg)
            continue
        tl = open(tf).read().splitlines()
        rc, judge, _ = common.pipe_lines([art["driver"], "judge"], tl)
        if rc or len(judge) != len(tl):
            ctx.broken.append(("model", "C12 driver failed on foreign traces of " + pkg, ""))
            continue
        for l, j in zip(tl, judge):
            traces += 1
            events += l.count(";") + 1
            if not j.startswith("ok"):
                label = l.split(" | ")[0]
                import re
                what = j.replace("violates ", "")
                ctx.violations.append(common.Violation("ownership", "C12:%s:%s" % (pkg, re.sub(r"\d+", "N", what)[:80]),
                                                       "%s: %s" % (label, what), {"input": [label], "trace": l[:6000], "judge": j}))
        ctx.count("foreign-" + pkg, len(tl))
    return events, traces


def run(ctx):
    art = common.standard_prepare(ctx, MODULES, hx=False, test=True, generated=[])
    if art.get("test"):
        explore(ctx, art)
    return common.finish(ctx)


def replay(ctx, rep):
    art = common.standard_prepare(ctx, MODULES, hx=False, test=True, generated=[])
    lines = rep.get("input") or []
    if not lines:
        print("replay file names no failing input:", rep.get("no_longer_checks"))
        return 1
    impl = common.run_test_harness(ctx, art["test"], "TestC12", lines, tag="replay")
    jl = [l + " | " + o for l, o in zip(lines, impl)]
    rc, judge, _ = common.pipe_lines([art["driver"], "judge"], jl)
    bad = 0
    for l, o, j in zip(lines, impl, judge):
        print("%s: %s\n   trace: %s" % (l, j, o[:1500]))
        if not j.startswith("ok"):
            bad += 1
    if bad:
        print("VIOLATION property=C12 replay=(replayed) still reproduces")
    return 1 if bad else 0
