"""C12 — a pooled message has one owner at a time (PARTIAL; DESIGN.md §5 C12).

Proof: Props/C12.lean — the typestate monitor is equivalent to the declarative property (monitor_iff_spec) and the
library's receive-path / hand-over / pending-clone path programs obey it for every handler behaviour.
Tie: hook h1 (message/pool lifecycle tracker + poison, build tag verif): the real acquire/release trace of every
scenario is recorded and validated by the monitor; for `path` scenarios the projection of the real trace must equal the
path program of the model (correspondence of the hand abstraction); for `obs` / `bw` scenarios (the real observation handler
and block-wise layer over a tracking pool, step marks in the trace) every recorded step must be a step of the path programs of
Model/OwnershipPaths.lean with the same events (Props/C12Paths.lean: every schedule of those programs is accepted).
"""
import itertools
import random

from . import common

MODULES = ["CoapVerif.Props.C12", "CoapVerif.Props.C12Paths", "CoapVerif.Props.C12PrepareWrite", "CoapVerif.Props.C12Stale",
           "CoapVerif.Props.C12Storage"]


PATHS_OBS = ["basic", "cancelcb", "hijack", "getreq"]
PATHS_BW = ["doupload", "doabort", "download", "upload", "sweepappend", "bwresponse", "bwnotify", "write", "obsblock",
            # a new exchange under the token of a sending entry that has expired but is not swept yet (Model/OwnershipStale.lean)
            "staleresp", "staledo", "stalewrite"]


def scenarios(ctx):
    rng = random.Random(ctx.seed)
    thorough = ctx.tier == "thorough"
    S = []
    maxlen = 3 if thorough else 2
    for n in range(0, maxlen + 1):
        for ops in itertools.product("SWRHC", repeat=n):
            o = "".join(ops)
            if o == "":
                o = "C"
            S.append("scn udp path " + o)
            S.append("scn tcp path " + o)
    for _ in range(200 if thorough else 40):
        o = "".join(rng.choice("SWRHC") for _ in range(rng.randrange(3, 7)))
        S.append("scn %s path %s" % (rng.choice(["udp", "tcp"]), o))
    for k in ["piggy", "separate", "dupack", "reset", "silent", "cancel", "refused"]:
        S.append("scn udp do " + k)
    S.append("scn udp earlyrel 4")
    S.append("scn udp dupreq 12")
    S.append("scn udp bwwritedup 3")
    for k in ["ok", "silent", "refused"]:
        S.append("scn tcp do " + k)
    # encoded messages at and beyond the 16-bit boundary (a legal frame on tcp: 65536 bytes with the default MaxMessageSize, more
    # once it is raised): the decoded message is its holder's own - as a request inside its handler and as a response the
    # caller of Get holds while the peer's pipelined frames go on arriving; and directly: decode, then the memory the bytes
    # arrived in is used for the next message.  65804/65805: the extended-length boundary of the tcp framing
    big = [65535, 65536, 65537, 65804, 65805, 1 << 17] + ([200000, (1 << 20) - 1] if thorough else [])
    for n in big:
        for role in ["req", "resp"]:
            S.append("scn tcp jumbo %d %s" % (n, role))
    for n in [1024, 1025] + big + ([1 << 20, (1 << 24) + 1] if thorough else []):
        for c in ["tcp", "udp"]:
            S.append("scn pool decode %s %d" % (c, n))
    for n in [0, 1, 3, 6]:
        S.append("scn udp observe %d" % n)
    for n in ([0, 1, 15, 16, 17, 32, 33, 100, 400] if thorough else [0, 16, 17, 40]):
        S.append("scn udp blockwise %d" % n)
    for i in range(40 if thorough else 8):
        S.append("scn udp mix %d %d" % (rng.randrange(1 << 30), rng.choice([4, 8, 16])))
    # request bodies that fail while the library copies them (the retransmission copy of a confirmable message in
    # prepareWriteMessage, the block of a block-wise transfer, the datagram): on Read at once / after k bytes, on the k-th Seek;
    # confirmable and non-confirmable; Post / Do / WriteMessage; block-wise off and on; bodies of one and of several blocks
    for bw in ["badbody", "badbodybw"]:
        for fault in ["read0", "read5", "read20", "seek0", "seek1", "seek2", "seek3"]:
            for typ in ["con", "non"]:
                for api in ["post", "do", "write"]:
                    if api == "post" and typ == "non":
                        continue
                    for size in [10, 40]:
                        S.append("scn udp %s %s %s %s %d" % (bw, fault, typ, api, size))
    # the same situations on real connections (hook h1), under the monitor: a notification inside its callback while the
    # observation is cancelled, block-wise notifications, a Do given up mid-transfer with a late answer, the expiry sweep
    # around the last block of a stalled upload
    S.append("scn udp obscancel 3")
    S.append("scn udp obsblock %d" % (4 if thorough else 2))
    for n in ([0, 1, 2, 3] if thorough else [1, 2]):
        S.append("scn udp doabandon %d" % n)
    for o in ["both", "sweepfirst", "blockfirst"]:
        S.append("scn udp bwsweep " + o)
    # path programs of the observation callbacks and of the block-wise layer (Model/OwnershipPaths.lean): the real
    # observation.Handler / blockwise.BlockWise over a tracking pool, step marks in the trace (harness/c12 paths_test.go)
    # two pool modes: LIFO re-use, and `fresh` (no re-use: a double release cannot hide behind a re-acquisition)
    for k in PATHS_OBS:
        S.append("scn obs " + k)
        S.append("scn obs %s fresh" % k)
    for k in PATHS_BW:
        S.append("scn bw " + k)
        S.append("scn bw %s fresh" % k)
    return sorted(set(S), key=S.index)


def explore(ctx, art):
    lines = scenarios(ctx)
    impl = common.run_test_harness(ctx, art["test"], "TestC12", lines, timeout=1500)
    if impl is None or len(impl) != len(lines):
        # the harness process died (a panic in a library goroutine cannot be recovered): isolate the scenarios
        ctx.broken = [b for b in ctx.broken if not b[1].startswith("harness TestC12 failed")]
        impl = []
        crashed = 0
        for l in lines:
            saved = list(ctx.broken)
            o = common.run_test_harness(ctx, art["test"], "TestC12", [l], timeout=120, tag="iso")
            if o and len(o) == 1:
                impl.append(o[0])
                continue
            ctx.broken = saved
            log = getattr(ctx, "harness_log", "")
            first = next((x for x in log.splitlines() if x.startswith("panic:") or "fatal error" in x), "crash")
            impl.append("trace panic 0")
            crashed += 1
            if crashed <= 5:
                ctx.violations.append(common.Violation(
                    "ownership", "C12:%s:crash" % " ".join(l.split()[1:3]),
                    "%s: the process crashed while the scenario ran (%s)" % (l, first[:160]),
                    {"input": [l], "observed": log[-3000:]}))
    jl = [l + " | " + o for l, o in zip(lines, impl)]
    judge = model = None
    if art.get("driver"):
        rc, judge, _ = common.pipe_lines([art["driver"], "judge"], jl)
        rc2, model, _ = common.pipe_lines([art["driver"], "model"], jl)
        if rc or rc2 or len(judge) != len(lines) or len(model) != len(lines):
            ctx.broken.append(("model", "C12 driver run failed", ""))
            judge = model = None
    distinct = set()
    events = 0
    matched = 0
    steps_matched = 0
    for i, (l, o) in enumerate(zip(lines, impl)):
        if not o.startswith("trace"):
            ctx.violations.append(common.Violation("no-crash", "C12:" + l, "%s -> %s" % (l, o[:200]), {"input": [l], "observed": o[:2000]}))
            continue
        n = 0 if o == "trace -" else o.count(";") + 1
        events += n
        kind = " ".join(l.split()[1:3])
        ctx.count(kind)
        if n == 0:
            ctx.broken.append(("correspondence", "C12 empty lifecycle trace", l))
        if "hold" in o and ("rel" in o):
            distinct.add(o)
        if o == "trace panic 0":
            continue
        if judge is not None and not judge[i].startswith("ok"):
            what = judge[i].replace("violates ", "")
            import re
            sig = "C12:%s:%s" % (kind, re.sub(r"\d+", "N", what)[:80])
            ctx.violations.append(common.Violation("ownership", sig, "%s: %s" % (l, what), {"input": [l], "trace": o[:6000], "judge": judge[i]}))
        if model is not None:
            if model[i] == "match":
                matched += 1
            elif model[i].startswith("match "):
                # a path-program scenario: every step of the recorded run is a step of the program with the same events
                matched += 1
                steps_matched += int(model[i].split()[1])
            elif model[i].startswith("differs"):
                ctx.broken.append(("correspondence", "C12 path program vs implementation", "%s: %s" % (l, model[i][:400])))
    # lifecycle traces recorded while the harnesses of other properties run their scenarios (interruption grid of C09: all the
    # error / cancellation / close paths; observe histories of C08; keep-alive histories of C18 on real connections)
    fevents, ftraces = foreign_traces(ctx, art)
    events += fevents
    ctx.cov["foreign_traces_validated"] = ftraces
    ctx.cov["evaluations"] = events
    ctx.cov["distinct_nontrivial"] = len(distinct)
    ctx.cov["traces_validated_against_impl"] = len(lines)
    ctx.cov["path_programs_matched"] = matched
    ctx.cov["path_steps_matched"] = steps_matched
    ctx.cov["rule"] = ("one trace per scenario: receive path with every handler behaviour over {SetMessage, Swap, release-of-swapped, Hijack, "
                       "SetResponse} up to length %d (+ random longer) on udp and tcp; client requests against a scripted peer (piggybacked, "
                       "separate + duplicate, duplicate ACK, reset, silence with retransmissions and expiry sweeps, cancellation); observe with "
                       "0..6 notifications and cancel; block-wise POST/response between two real connections; concurrent mixed traffic with "
                       "housekeeping ticks; observation callbacks (cancel while notifications are in their callbacks, hijacked notification, copies "
                       "for the block-wise layer) and block-wise paths (Do upload / abandoned mid-transfer / download, reassembly with an expiry "
                       "sweep during the append, response in blocks, block-wise notification both ways, WriteMessage) over a tracking pool, "
                       "compared step by step with the path programs; request bodies that fail on Read (at once, after k bytes) or on the k-th Seek, "
                       "confirmable / non-confirmable, Post / Do / WriteMessage, block-wise off and on, one and several blocks; a new response / Do / WriteMessage under the token of a sending "
                       "entry that expired and was not swept (pooled messages carry a body that reports every access); tcp frames of 65535, 65536, 65537, 65804, 65805, 2^17 (thorough: 200000, 2^20-1) bytes "
                       "held inside a handler / after Get while pipelined frames arrive, and decoded messages of those sizes whose source memory is overwritten. evaluations = lifecycle events checked; non-trivial trace = contains an application hold and a release; "
                       "distinct by the exact trace." % (3 if ctx.tier == "thorough" else 2))
    for l, o in list(zip(lines, impl))[:2]:
        ctx.sample({"scenario": l, "trace": o[:400]})


def foreign_traces(ctx, art):
    import os
    import random as _r
    from . import c08, c09, c18
    rng = _r.Random(ctx.seed)
    jobs = []
    grid = ["case %s %s %s %s" % (t, o, p, c) for t in ("udp", "tcp") for o in c09.OPS for p in c09.POINTS for c in c09.CAUSES]
    jobs.append(("c09", "TestC09", grid))
    l8 = []
    for _ in range(300 if ctx.tier == "thorough" else 60):
        l8 += c08.gen_case(rng)[0]
    jobs.append(("c08", "TestC08", l8 + ["end"]))
    l18 = []
    for _ in range(400 if ctx.tier == "thorough" else 80):
        cl, kinds, level = c18.gen_case(rng)
        if level != "unit":
            l18 += cl
    jobs.append(("c18", "TestC18", l18 + ["end"]))
    events = traces = 0
    for pkg, test, lines in jobs:
        with common.Lock():
            exe = common.build_test(ctx, pkg)
        if not exe:
            continue
        tf = os.path.join(ctx.work, "pooltrace_%s.txt" % pkg)
        if os.path.exists(tf):
            os.remove(tf)
        saved = list(ctx.broken)
        fout = common.run_test_harness(ctx, exe, test, lines, timeout=1200, tag="foreign_" + pkg, env={"VERIF_POOLTRACE": tf})
        ctx.broken = saved      # the foreign harness's own verdicts belong to its own property's check
        if pkg == "c08" and fout and len(fout) == len(lines):
            # bytes the library kept from a notification (its ETag, for the deregistration request) must be a copy: after the
            # notification's message was released and recycled they must still be the notification's
            outs, deregs = c08.split_dereg(fout)
            start = 0
            nb = 0
            while start < len(lines):
                end = start + 1
                while end < len(lines) and not lines[end].startswith("cfg") and lines[end] != "end":
                    end += 1
                for k, what in c08.etag_violations(lines[start:end], outs[start:end], deregs[start:end])[:1]:
                    nb += 1
                    if nb <= 4:
                        ctx.violations.append(common.Violation("ownership", "C12:c08:kept-bytes-of-a-released-notification",
                                                               "%s: %s (bytes kept from a received message must be copied before the message is released)" % (lines[start + k], what),
                                                               {"input": lines[start:start + k + 1] + ["end"], "foreign": "c08"}))
                start = end if end < len(lines) and lines[end] != "end" else len(lines)
        if not os.path.exists(tf):
            ctx.notes.append("no lifecycle trace from harness %s" % pkg)
            continue
        tl = open(tf).read().splitlines()
        rc, judge, _ = common.pipe_lines([art["driver"], "judge"], tl)
        if rc or len(judge) != len(tl):
            ctx.broken.append(("model", "C12 driver failed on foreign traces of " + pkg, ""))
            continue
        for l, j in zip(tl, judge):
            traces += 1
            events += l.count(";") + 1
            if not j.startswith("ok"):
                label = l.split(" | ")[0]
                import re
                what = j.replace("violates ", "")
                ctx.violations.append(common.Violation("ownership", "C12:%s:%s" % (pkg, re.sub(r"\d+", "N", what)[:80]),
                                                       "%s: %s" % (label, what), {"input": [label], "trace": l[:6000], "judge": j}))
        ctx.count("foreign-" + pkg, len(tl))
    return events, traces


def race_lines(ctx):
    if ctx.tier == "thorough":
        return ["meet %d 400 40000" % ctx.seed, "meet %d 200 1200" % (ctx.seed + 1), "bwmeet %d 1500 400" % ctx.seed,
                "race %d 6000 6" % ctx.seed, "stallwrite %d 40" % ctx.seed]
    return ["meet %d 60 40000" % ctx.seed, "bwmeet %d 200 400" % ctx.seed, "race %d 800 4" % ctx.seed, "stallwrite %d 8" % ctx.seed]


def race_run(ctx, exe, lines, tag="race"):
    """harness/c12race under the race detector: release of the stored request (ACK / response / reset) against its
    retransmission by the expiry sweep, arranged to meet; plus free-running traffic.  Returns the number of reports."""
    import os
    import re
    import subprocess
    inp = os.path.join(ctx.work, tag + ".in")
    outp = os.path.join(ctx.work, tag + ".out")
    open(inp, "w").write("\n".join(lines) + "\n")
    if os.path.exists(outp):
        os.remove(outp)
    e = dict(os.environ, VERIF_IN=inp, VERIF_OUT=outp, GORACE="halt_on_error=0 history_size=2")
    try:
        p = subprocess.run([exe, "-test.run", "^TestC12Race$", "-test.timeout", "600s"], cwd=ctx.work, env=e,
                           stdout=subprocess.PIPE, stderr=subprocess.STDOUT, text=True, timeout=700)
    except subprocess.TimeoutExpired:
        ctx.violations.append(common.Violation("ownership", "C12:race:hang", "the race harness did not finish: %s" % lines,
                                               {"input": lines, "race": True}))
        return 1
    log = p.stdout
    out = open(outp).read().splitlines() if os.path.exists(outp) else []
    nrep = log.count("WARNING: DATA RACE")
    if nrep:
        funcs = sorted(set(re.findall(r"go-coap/v3/[\w/]+\.(\(\*?\w+\)\.\w+|\w+)\(", log)))[:8]
        ctx.violations.append(common.Violation(
            "ownership", "C12:data-race:" + "+".join(funcs)[:120],
            "%d race detector reports while a stored request was released and retransmitted concurrently (a message is read or "
            "written after its release): %s" % (nrep, ",".join(funcs)), {"input": lines, "race": True, "report": log[:4000]}))
        return nrep
    bad = [(l, o) for l, o in zip(lines, out) if o.startswith("bad ")]
    if bad:
        for l, o in bad:
            ctx.violations.append(common.Violation("ownership", "C12:race:" + o.split()[1], "%s: %s (the library used the application's "
                                                   "request body after the request call had returned)" % (l, o), {"input": [l], "race": True}))
        return len(bad)
    if p.returncode != 0 or len(out) != len(lines) or not all(o.startswith("ok ") for o in out):
        first = next((x for x in log.splitlines() if x.startswith("panic:") or "fatal error" in x), "")
        if first:
            ctx.violations.append(common.Violation("ownership", "C12:race:crash", "the process crashed during concurrent release / "
                                                   "retransmission: %s" % first[:200], {"input": lines, "race": True, "report": log[-4000:]}))
            return 1
        ctx.broken.append(("correspondence", "c12race failed rc=%d" % p.returncode, ("\n".join(out) + "\n" + log)[-1500:]))
        return 0
    ctx.cov["race_run"] = {"lines": lines, "results": out, "race_reports": 0}
    for o in out:
        for kv in o.split()[1:]:
            k, v = kv.split("=")
            ctx.count("race-" + k, int(v))
    ctx.notes.append("race detector run (evidence, not proof): " + " | ".join(out))
    return 0


def run(ctx):
    art = common.standard_prepare(ctx, MODULES, hx=False, test=True, generated=[])
    with common.Lock():
        art["race"] = common.build_test(ctx, "c12race", race=True)
    if art.get("test"):
        explore(ctx, art)
    if art.get("race"):
        race_run(ctx, art["race"], race_lines(ctx))
    # the block-wise layer over a tracking pool (harness/c04 TestC04Pool): two goroutines meet in the reassembly table, the
    # expiry sweep runs while a block is being appended - no message may be released twice or reach the handler after its release
    from . import c04
    with common.Lock():
        t4 = common.build_test(ctx, "c04")
    if t4:
        c04.pool_check(ctx, t4, "C12", "ownership")
    return common.finish(ctx)


def replay(ctx, rep):
    art = common.standard_prepare(ctx, MODULES, hx=False, test=True, generated=[])
    lines = rep.get("input") or []
    if not lines:
        print("replay file names no failing input:", rep.get("no_longer_checks"))
        return 1
    if rep.get("foreign") == "c08":
        from . import c08
        with common.Lock():
            exe = common.build_test(ctx, "c08")
        out = common.run_test_harness(ctx, exe, "TestC08", lines, tag="replay")
        outs, deregs = c08.split_dereg(out or [])
        bad = c08.etag_violations(lines, outs, deregs)
        for k, what in bad:
            print("%s: %s" % (lines[k], what))
        if bad:
            print("VIOLATION property=C12 replay=(replayed) still reproduces")
        return 1 if bad else 0
    if rep.get("scenario") and rep.get("test") == "TestC04Pool":
        import os
        import subprocess
        with common.Lock():
            exe = common.build_test(ctx, "c04")
        outp = os.path.join(ctx.work, "pool_replay.out")
        env = dict(os.environ, VERIF_OUT=outp, VERIF_SEED=str(rep.get("seed", ctx.seed)), VERIF_SCENARIO=rep["scenario"], VERIF_TIER="thorough")
        p = subprocess.run([exe, "-test.run", "^TestC04Pool$"], cwd=ctx.work, env=env, stdout=subprocess.PIPE, stderr=subprocess.STDOUT, text=True, timeout=300)
        out = open(outp).read().splitlines() if os.path.exists(outp) else []
        print("\n".join(out) or p.stdout[-1500:])
        bad = any("violates" in l for l in out) or p.returncode != 0
        if bad:
            print("VIOLATION property=C12 replay=(replayed) still reproduces")
        return 1 if bad else 0
    if rep.get("race"):
        with common.Lock():
            exe = common.build_test(ctx, "c12race", race=True)
        n = race_run(ctx, exe, lines, tag="race-replay") if exe else 0
        for v in ctx.violations:
            print(v.text if hasattr(v, "text") else v)
        if n:
            print("VIOLATION property=C12 replay=(replayed) still reproduces")
        return 1 if n else 0
    impl = common.run_test_harness(ctx, art["test"], "TestC12", lines, tag="replay")
    jl = [l + " | " + o for l, o in zip(lines, impl)]
    rc, judge, _ = common.pipe_lines([art["driver"], "judge"], jl)
    bad = 0
    for l, o, j in zip(lines, impl, judge):
        print("%s: %s\n   trace: %s" % (l, j, o[:1500]))
        if not j.startswith("ok"):
            bad += 1
    if bad:
        print("VIOLATION property=C12 replay=(replayed) still reproduces")
    return 1 if bad else 0
