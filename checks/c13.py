"""C13 — no per-exchange state outlives the exchange (DESIGN.md §5 C13).

Proof: Props/C13.lean — `bracketed` (decided over the insertions/removals re-read from today's source), `quiescent_empty`
       (every history of the table model over those sites), `mutexmap_refcount`, `limiter_idle`.
Tie:   T — Generated/TableShape.lean: every insertion into a per-exchange table with the removal the source pairs with
           it (go/ast recognisers, fail closed; a missing removal makes `bracketed` fail);
       X — (incl. the hypothesis of the theorems: no table entry is created for an exchange after it ended — late and
           duplicated responses, blocks, ACKs, resets for ended exchanges must not make any table grow) generated exchange histories (plain, block-wise up/down, observe, ping, one-way, peer requests) x outcomes
           (success, silence, cancel, deadline, reset, malformed block, duplicate token, abandoned transfer) on real
           udp/tcp connections under synctest, sizes of all tables through the verif-tagged accessors (hook h2) at every
           idle point and after housekeeping ticks at virtual times past every deadline; discovery tables over a real
           loopback socket.  Judged by Spec/Quiescence.lean; final sizes compared with the model's.
       Tenth round: second use of caller-owned request messages (mobs/mdo/mwrite, reuse_family) with an aliasing probe of the
       stored observation token; Props/C13Token.lean (stored keys are values fixed at registration).
"""
import glob
import json
import os
import random

from . import common

MODULES = ["CoapVerif.Props.C13", "CoapVerif.Props.C13Token", "CoapVerif.Props.C18Runner"]
GENERATED = ["TableShape.lean"]


class Gen:
    def __init__(self, rng, udp, bw, allow_obs):
        self.rng, self.udp, self.bw, self.allow_obs = rng, udp, bw, allow_obs
        self.nid = 1
        self.npeer = 1
        self.failing = 0

    def new_id(self):
        self.nid += 1
        return self.nid - 1

    def script(self):
        r, udp, bw = self.rng, self.udp, self.bw
        i = self.new_id()
        path = r.choice(["a", "a", "b", "c"])
        typ = r.choice(["con", "non"]) if udp else "con"
        kind = "x" if not udp else None
        dl = r.choice([0, 0, 0, 5, 30])
        k = r.random()
        S = []

        def resp(kindhint=None, code=69, blen=4, seq="-"):
            kd = kind or kindhint or ("pig" if typ == "con" else "non")
            return "resp:%d:%s:%d:%d:%s" % (i, kd, code, blen, seq)
        if k < 0.22:      # plain success
            S = ["do:%d:%d:%s:%s:0:%d" % (i, i, path, typ, dl)]
            if udp and typ == "con" and r.random() < 0.5:
                S += ["ack:%d" % i, resp(r.choice(["con", "non"]))]
            else:
                S += [resp()]
            if r.random() < 0.3:
                S += [resp(r.choice(["con", "non"]) if udp else None)]      # duplicate / late copy
        elif k < 0.32:    # silence then cancel / deadline
            self.failing += 1
            S = ["do:%d:%d:%s:%s:0:%d" % (i, i, path, typ, dl)]
            if dl:
                S += ["sleep:%d" % (dl * 1000 + 500)]
            else:
                S += ["sleep:%d" % r.choice([100, 2500, 9000]), "tick", "cancel:%d" % i]
        elif k < 0.38 and udp:   # reset
            self.failing += 1
            S = ["do:%d:%d:%s:%s:0:%d" % (i, i, path, typ, dl), "rst:%d" % i, "cancel:%d" % i]
        elif k < 0.45:    # duplicate token while outstanding
            self.failing += 1
            j = self.new_id()
            S = ["do:%d:%d:%s:%s:0:0" % (i, i, path, typ), "do:%d:%d:%s:%s:0:0" % (j, i, r.choice(["a", "d"]), typ), resp()]
        elif k < 0.55 and bw:   # block-wise upload
            S = ["do:%d:%d:%s:%s:40:%d" % (i, i, path, typ, dl), "cont:%d:0" % i]
            if r.random() < 0.6:
                S += ["cont:%d:1" % i, resp(code=68, blen=0)]
            else:
                self.failing += 1
                S += ["cancel:%d" % i]
        elif k < 0.68 and bw:   # block-wise download
            S = ["do:%d:%d:%s:%s:0:%d" % (i, i, path, typ, dl), resp("non", blen=40)]
            m = r.random()
            pk = "x" if not udp else "non"
            if m < 0.5:
                S += ["blk2:%d:1:1:%s" % (i, pk), "blk2:%d:2:0:%s" % (i, pk)]
            elif m < 0.7:
                self.failing += 1
                S += ["blk2:%d:1:1:%s" % (i, pk), "cancel:%d" % i]          # abandoned mid-transfer
            elif m < 0.85:
                self.failing += 1
                S += ["bad:%d" % i, "cancel:%d" % i]                       # malformed block
            else:
                self.failing += 1
                S += ["blk2:%d:3:1:%s" % (i, pk), "sleep:4000", "tick", "cancel:%d" % i]   # out-of-order block, expiry
        elif k < 0.78 and self.allow_obs:   # observe
            first = "pig" if udp else "x"
            S = ["obs:%d:%s:%d" % (i, path, dl)]
            m = r.random()
            if m < 0.55:
                S += ["resp:%d:%s:69:4:%d" % (i, first, r.randrange(1, 100))]
                for n in range(r.randrange(0, 3)):
                    S += ["resp:%d:%s:69:4:%d" % (i, "non" if udp else "x", 100 + n)]
                    if bw and r.random() < 0.6:
                        # a notification that is complete in its first block (Observe + Block2 num 0, no more): body exactly
                        # one block, or smaller; then housekeeping past the block-wise expiry
                        S += ["nb0:%d:%s:%d:%d" % (i, r.choice(["non", "con"]) if udp else "x", r.choice([16, 16, 7]), 200 + n)]
                        if r.random() < 0.6:
                            S += ["sleep:4000", "tick"]
                if r.random() < 0.6:
                    S += ["obscancel:%d" % i]
                    if r.random() < 0.7:
                        S += ["resp:%d:%s:69:4:-" % (i, first)]
                    else:
                        self.failing += 1
            elif m < 0.7:
                self.failing += 1
                S += ["resp:%d:%s:132:0:-" % (i, first)]
            elif m < 0.85:
                S += ["resp:%d:%s:69:4:-" % (i, first)]                   # observe not supported by the peer
            else:
                self.failing += 1
                S += ["sleep:1000", "cancel:%d" % i]
        elif k < 0.86 and r.random() < 0.55:    # asynchronous ping: over with its pong, or when the returned cancel is called
            S = ["aping:%d" % i]
            m = r.random()
            if m < 0.4:
                S += ["pong:%d" % i]                                          # answered, cancel never called
                if r.random() < 0.3:
                    S += ["pong:%d" % i]                                      # duplicated pong
            elif m < 0.6:
                S += ["pong:%d" % i, "apcancel:%d" % i]                      # answered, then cancelled as well
            elif m < 0.8:
                self.failing += 1
                S += ["sleep:%d" % r.choice([100, 3000]), "apcancel:%d" % i]  # given up
                if r.random() < 0.5:
                    S += ["pong:%d" % i]                                      # late pong
            else:
                self.failing += 1
                S += ["sleep:3000", "tick"]                                   # never answered: abandoned at the end of the history
        elif k < 0.86:    # ping
            S = ["ping:%d:%d" % (i, dl)]
            m = r.random()
            if m < 0.5:
                S += ["pong:%d" % i]
            elif dl:
                self.failing += 1
                S += ["sleep:%d" % (dl * 1000 + 500)]
            else:
                self.failing += 1
                S += ["sleep:3000", "tick", "sleep:3000", "tick", "cancel:%d" % i]
        elif k < 0.92 and udp:   # one-way write
            t2 = r.choice(["con", "non"])
            S = ["write:%d:%s" % (i, t2)]
            if t2 == "con":
                if r.random() < 0.6:
                    S += ["ack:%d" % i]
                else:
                    self.failing += 1
                    S += ["sleep:2500", "tick", "cancel:%d" % i]
        else:             # requests from the peer
            n = self.npeer
            self.npeer += 1
            m = r.random()
            if m < 0.4:
                S = ["req:%d:%s:4" % (n, r.choice(["con", "non"]))]
                if r.random() < 0.5:
                    S += [S[0]]                                              # duplicate request
            elif m < 0.7 and bw:
                S = ["req:%d:%s:40" % (n, r.choice(["con", "non"])), "reqb2:%d:1" % n]
                if r.random() < 0.5:
                    S += ["reqb2:%d:2" % n]
                else:
                    self.failing += 1                                        # abandoned download of our answer
            elif bw:
                S = ["up:%d:0:1" % n, "up:%d:1:%d" % (n, r.choice([0, 1]))]
                if S[-1].endswith(":1"):
                    self.failing += 1                                        # abandoned upload
            else:
                S = ["req:%d:%s:4" % (n, r.choice(["con", "non"]))]
        # late / duplicated peer messages for this exchange, typically after it has ended: nothing may be re-created for it
        if S and S[0].split(":")[0] in ("do", "obs") and r.random() < 0.4:
            pk = "x" if not udp else r.choice(["non", "con"])
            late = r.choice(["resp:%d:%s:69:4:-" % (i, pk), "resp:%d:%s:69:40:-" % (i, pk), "resp:%d:%s:69:40:7" % (i, pk),
                             "blk2:%d:1:1:%s" % (i, "x" if not udp else "non"), "blk2:%d:2:0:%s" % (i, "x" if not udp else "non"),
                             "cont:%d:1" % i, "bad:%d" % i] + (["ack:%d" % i, "rst:%d" % i] if udp else []))
            if not S[-1].startswith(("cancel", "sleep", "resp", "obscancel")):
                S.append("cancel:%d" % i)
            S.append(late)
            if r.random() < 0.4:
                S.append(late)
        return S


def gen_scenario(rng):
    udp = rng.random() < 0.65
    bw = rng.random() < 0.5
    allow_obs = rng.random() < 0.5
    lim, ep = (0, 0) if allow_obs else rng.choice([(0, 0), (1, 1), (2, 1), (1, 2), (0, 1), (3, 0)])
    g = Gen(rng, udp, bw, allow_obs)
    scripts = [g.script() for _ in range(rng.randint(1, 7))]
    scripts = [s for s in scripts if s]
    ops = []
    while scripts:
        s = rng.choice(scripts)
        ops.append(s.pop(0))
        if not s:
            scripts.remove(s)
        if rng.random() < 0.08:
            ops.append(rng.choice(["tick", "sleep:1000", "sleep:10000", "settle"]))
    if rng.random() < 0.15:
        ops.append("close")
    elif rng.random() < 0.5:
        ops.append("end")
    tr = "udp" if udp else "tcp"
    if udp and not allow_obs and rng.random() < 0.25:      # (the model's prediction of an observation's fate assumes its request goes out at once)
        tr = "udp@%d" % rng.choice([1, 1, 2])        # NSTART 1 (the default of the library) or 2: confirmable requests queue for a slot
    return "scn %s %d %d %d %s" % (tr, 1 if bw else 0, lim, ep, " ".join(ops)), g.failing


def bulk_family(rng=None):
    """(a) Hundreds of cached replies (confirmable requests of the peer, each answered) that all expire together: ONE housekeeping
    tick after the exchange lifetime leaves none.  (b) A block-wise notification of a live observation (the remaining blocks are
    fetched by a GET under a token of its own): when its last block has been delivered the reassembly buffer is gone at once, not
    only after a sweep."""
    out = []
    n = 300 if rng is None else rng.choice([129, 200, 257, 300])
    out += [
        "scn udp 0 0 0 reqs:1:%d settle sleep:300000 tick settle" % n,
        "scn udp 1 0 0 reqs:1:%d do:1:1:a:con:0:0 resp:1:pig:69:4:- sleep:100000 reqs:1000:%d sleep:301000 tick settle" % (n // 2, n),
        "scn udp 0 0 0 reqs:1:%d sleep:100000 tick reqs:1:%d sleep:300000 tick settle" % (n, n),
    ]
    for tr, first, kind in (("udp", "pig", "non"), ("tcp", "x", "x")):
        seq = 5 if rng is None else rng.randrange(2, 90)
        out += [
            "scn %s 1 0 0 obs:1:o:0 resp:1:%s:69:4:1 resp:1:%s:69:40:%d nblk:1:1 nblk:2:0 settle resp:1:%s:69:4:%d settle"
            % (tr, first, kind, seq, kind, seq + 1),
            "scn %s 1 0 0 obs:1:o:0 resp:1:%s:69:4:1 resp:1:%s:69:40:%d nblk:1:1 nblk:2:0 resp:1:%s:69:40:%d nblk:1:1 nblk:2:0 obscancel:1 resp:1:%s:69:4:- settle"
            % (tr, first, kind, seq, kind, seq + 1, first),
            "scn %s 1 0 0 obs:1:o:0 resp:1:%s:69:4:1 do:2:2:a:con:0:0 resp:1:%s:69:40:%d nblk:1:1 resp:2:%s:69:4:- nblk:2:0 settle"
            % (tr, first, kind, seq, first),
        ]
    return out


def nstart_family(rng=None):
    """NSTART exhausted by an unanswered confirmable request; further confirmable requests / one-way writes queue for the slot and
    end while they are queued (deadline, cancellation, close) or get the slot later.  Nothing of a request that ended while it
    was queued may stay in the message-ID table (bounded by the live calls at every idle point, empty at the end)."""
    out = []
    for n, lim in ([(1, 0), (1, 3), (2, 0)] if rng is None else [(rng.choice([1, 2]), rng.choice([0, 0, 3]))]):
        dl = 5 if rng is None else rng.choice([2, 5, 9])
        first = " ".join("do:%d:%d:%s:con:0:0" % (i, i, "abcdefg"[i]) for i in range(1, n + 1))
        k = n + 1
        out += [
            "scn udp@%d 0 %d 0 %s do:%d:%d:x:con:0:%d sleep:%d settle tick resp:1:pig:69:4:- settle" % (n, lim, first, k, k, dl, dl * 1000 + 500),
            "scn udp@%d 0 %d 0 %s do:%d:%d:x:con:0:0 sleep:1000 cancel:%d settle sleep:3000 tick resp:1:pig:69:4:- settle" % (n, lim, first, k, k, k),
            "scn udp@%d 0 %d 0 %s do:%d:%d:x:con:0:0 do:%d:%d:y:con:0:%d cancel:%d sleep:%d tick rst:1 settle"
            % (n, lim, first, k, k, k + 1, k + 1, dl, k, dl * 1000 + 500),
            "scn udp@%d 1 %d 0 %s do:%d:%d:x:con:40:%d sleep:%d settle cancel:1 settle" % (n, lim, first, k, k, dl, dl * 1000 + 500),
            "scn udp@%d 0 %d 0 %s write:%d:con sleep:1000 cancel:%d settle sleep:3000 tick ack:1 settle" % (n, lim, first, k, k),
            "scn udp@%d 0 %d 0 %s do:%d:%d:x:con:0:%d resp:1:pig:69:4:- resp:%d:pig:69:4:- settle" % (n, lim, first, k, k, dl, k),
            "scn udp@%d 0 %d 0 %s do:%d:%d:x:con:0:0 close" % (n, lim, first, k, k),
        ]
    return out

def reuse_family(rng=None):
    """Second use of a request message: an application that builds its requests by hand in a message object of its own
    (AcquireMessage once, then SetupGet / SetupPost with the next token, no Reset in between) - observe registrations, plain and
    block-wise requests and one-way writes written into the same object one after the other (each after the previous call has
    returned), tokens of the same and of different lengths, cancellations only later.  Whatever the application writes into ITS
    message after a call returned, the tables are keyed by the token the exchange was registered with: a cancelled observation
    leaves nothing (bounded-by-live-work at the point where Cancel returned, retains-nothing at the end), and the harness
    probes every live observation registered from a message object when that object is written again (stored-key-changed)."""
    fixed = rng is None
    r = rng or random.Random(13)
    out = []
    if fixed:
        out += [
            # the seeder-independent core: register, reuse the object for a plain request with a token of the same length, cancel
            "scn udp 0 0 0 mobs:1:4:1:o:0 resp:1:pig:69:4:1 mdo:1:4:2:2:b:con:0:0 resp:2:pig:69:4:- obscancel:1 resp:1:pig:69:4:- settle resp:1:non:69:4:9 settle",
            "scn tcp 0 0 0 mobs:1:8:1:o:0 resp:1:x:69:4:1 mdo:1:8:2:2:b:con:0:0 resp:2:x:69:4:- resp:1:x:69:4:2 obscancel:1 resp:1:x:69:4:- settle",
            # two observations from one object, cancelled in both orders
            "scn udp 0 0 0 mobs:1:4:1:o:0 resp:1:pig:69:4:1 mobs:1:4:2:p:0 resp:2:pig:69:4:1 obscancel:1 resp:1:pig:69:4:- obscancel:2 resp:2:pig:69:4:- settle",
            "scn udp 1 0 0 mobs:1:8:1:o:0 resp:1:pig:69:4:1 mobs:1:2:2:p:0 resp:2:pig:69:4:1 obscancel:2 resp:2:pig:69:4:- resp:1:non:69:4:5 obscancel:1 resp:1:pig:69:4:- settle",
            # token tables and block-wise buffers: plain / block-wise requests and one-way writes from one object
            "scn udp 1 0 0 mdo:1:4:1:1:a:con:40:0 cont:1:0 cont:1:1 resp:1:pig:68:0:- mdo:1:4:2:2:a:con:0:0 resp:2:non:69:40:- blk2:2:1:1:non blk2:2:2:0:non mdo:1:2:3:3:b:non:0:2 sleep:2500 mwrite:1:8:4:non mdo:1:8:5:5:a:con:40:0 cont:5:0 cancel:5 settle",
            "scn tcp 1 0 0 mdo:1:8:1:1:a:con:0:0 resp:1:x:69:4:- mobs:1:8:2:o:0 resp:2:x:69:4:1 mdo:1:8:3:3:a:con:40:0 cont:3:0 cont:3:1 resp:3:x:68:0:- obscancel:2 resp:2:x:69:4:- settle",
        ]
    for _ in range(6 if fixed else 4):
        udp = r.random() < 0.6
        bw = r.random() < 0.5
        first, nk = ("pig", "non") if udp else ("x", "x")
        nid = [1]
        ops, live, gone = [], [], []

        def new():
            nid[0] += 1
            return nid[0] - 1
        for _u in range(r.randrange(2, 7)):
            sl = r.choice([1, 1, 2])
            tl = r.choice([4, 4, 8, 8, 2, 1, 6])
            i = new()
            k = r.random()
            if k < 0.4:
                ops += ["mobs:%d:%d:%d:%s:0" % (sl, tl, i, r.choice("op")), "resp:%d:%s:69:4:%d" % (i, first, r.randrange(1, 50))]
                live.append(i)
            elif k < 0.6:
                typ = r.choice(["con", "non"]) if udp else "con"
                ops += ["mdo:%d:%d:%d:%d:%s:%s:0:0" % (sl, tl, i, i, r.choice("ab"), typ),
                        "resp:%d:%s:69:4:-" % (i, ("pig" if typ == "con" else "non") if udp else "x")]
            elif k < 0.72 and bw:
                ops += ["mdo:%d:%d:%d:%d:a:con:40:0" % (sl, tl, i, i), "cont:%d:0" % i]
                ops += ["cont:%d:1" % i, "resp:%d:%s:68:0:-" % (i, first)] if r.random() < 0.6 else ["cancel:%d" % i]
            elif k < 0.82:
                ops += ["mdo:%d:%d:%d:%d:b:%s:0:2" % (sl, tl, i, i, "non" if udp else "con"), "sleep:2500"]      # deadline
            elif k < 0.9 and udp:
                ops += ["mwrite:%d:%d:%d:non" % (sl, tl, i)]
            else:
                ops += ["mdo:%d:%d:%d:%d:a:%s:0:0" % (sl, tl, i, i, "non" if udp else "con"), "cancel:%d" % i]      # given up
            for o in live:
                if r.random() < 0.3:
                    ops += ["resp:%d:%s:69:4:%d" % (o, nk, 100 + len(ops))]
            if live and r.random() < 0.35:
                o = live.pop(r.randrange(len(live)))
                gone.append(o)
                ops += ["obscancel:%d" % o] + (["resp:%d:%s:69:4:-" % (o, first)] if r.random() < 0.8 else [])
        r.shuffle(live)
        for o in live[:r.randrange(0, len(live) + 1)]:
            gone.append(o)
            ops += ["obscancel:%d" % o, "resp:%d:%s:69:4:-" % (o, first)]
        for o in gone:
            if r.random() < 0.6:
                ops += ["resp:%d:%s:69:4:%d" % (o, nk, 900 + o)]      # a notification after the cancellation returned
        ops += ["settle"]
        out.append("scn %s %d 0 0 %s" % ("udp" if udp else "tcp", 1 if bw else 0, " ".join(ops)))
    return out


FIXED = [
    "scn udp 0 1 1 do:1:1:a:con:0:0 do:2:2:a:con:0:0 do:3:3:b:non:0:30 cancel:1 resp:2:pig:69:4:- end",
    "scn udp 1 0 0 do:1:1:a:con:40:0 cont:1:0 cont:1:1 resp:1:pig:68:0:- settle",
    "scn udp 1 0 0 do:1:1:a:non:0:0 resp:1:non:69:40:- blk2:1:1:1:non settle sleep:5000 tick",
    "scn udp 1 0 0 obs:1:o:0 resp:1:pig:69:4:1 resp:1:non:69:4:2 obscancel:1 resp:1:pig:69:4:- settle",
    "scn udp 0 0 0 obs:1:o:0 resp:1:pig:69:4:7 resp:1:non:69:4:8 settle",
    "scn udp 0 0 0 obs:1:o:0 resp:1:pig:132:0:- settle",
    "scn udp 0 0 0 ping:1:0 pong:1 ping:2:5 sleep:6000 write:3:con ack:3 write:4:con write:5:non",
    "scn udp 1 0 0 req:1:con:4 req:1:con:4 req:2:non:40 reqb2:2:1 req:3:con:60 up:1:0:1 up:1:1:1 sleep:2000 tick sleep:4000 tick",
    "scn udp 1 0 0 do:1:1:a:con:0:0 do:2:1:a:con:0:0 bad:1 rst:1 settle",
    "scn tcp 1 1 1 do:1:1:a:con:0:0 do:2:2:a:con:0:0 resp:1:x:69:40:- blk2:1:1:0:x ping:4:0 pong:4 resp:2:x:69:4:- settle",
    "scn tcp 0 0 0 do:1:1:a:con:0:10 obs:2:o:10 ping:3:10 sleep:11000 settle",
    # the ping family on every transport/block-wise combination (tcp with block-wise: the scripted peer's CSM announces
    # Block-Wise-Transfer, so responses and pongs run through blockwiseHandle)
    "scn tcp 1 0 0 aping:1 pong:1 settle",
    # observe notifications that carry Block2 and are complete in their first block, followed by expiry ticks
    "scn udp 1 0 0 obs:1:o:0 resp:1:pig:69:4:1 nb0:1:non:16:2 sleep:4000 tick nb0:1:non:7:3 nb0:1:con:16:4 sleep:4000 tick settle",
    "scn tcp 1 0 0 obs:1:o:0 resp:1:x:69:4:1 nb0:1:x:16:2 nb0:1:x:16:3 sleep:4000 tick obscancel:1 resp:1:x:69:4:- settle",
    "scn udp 1 0 0 obs:1:o:0 resp:1:pig:69:4:1 nb0:1:non:16:2 obscancel:1 resp:1:pig:69:4:- nb0:1:non:16:3 settle",
    "scn tcp 1 0 0 aping:1 pong:1 apcancel:1 aping:2 apcancel:2 pong:2 aping:3 sleep:3000 tick settle",
    "scn tcp 1 0 0 ping:1:0 pong:1 ping:2:5 sleep:6000 aping:3 pong:3 do:4:4:a:con:0:0 resp:4:x:69:4:- aping:5 pong:5 pong:5 settle",
    "scn tcp 0 0 0 aping:1 pong:1 aping:2 apcancel:2 aping:3 pong:3 apcancel:3 aping:4 settle",
    "scn udp 0 0 0 aping:1 pong:1 aping:2 apcancel:2 pong:2 aping:3 pong:3 apcancel:3 aping:4 sleep:3000 tick settle",
    "scn udp 1 0 0 aping:1 pong:1 ping:2:0 pong:2 aping:3 close",
    "scn tcp 1 0 0 aping:1 close",
    "scn tcp 1 0 0 obs:1:o:0 resp:1:x:69:4:3 resp:1:x:69:4:4 obscancel:1 resp:1:x:69:4:- do:2:2:a:con:40:0 cont:2:0 close",
    # the registration of an observation / a one-way confirmable request answered by a SEPARATE response before the acknowledgement
    # (repair of F42: the response acknowledges by its token): the call is over, nothing of it stays; the late ACK re-creates nothing
    "scn udp 0 0 0 obs:1:o:0 resp:1:non:69:4:7 settle ack:1 resp:1:non:69:4:8 settle obscancel:1 resp:1:pig:69:4:- settle",
    "scn udp 1 0 0 obs:1:o:0 sleep:2500 tick resp:1:con:69:4:7 settle sleep:2500 tick ack:1 settle",
    "scn udp 0 0 0 write:1:con resp:1:non:69:4:- settle ack:1 write:2:con sleep:2500 tick cancel:2 settle resp:2:non:69:4:- settle",
    "scn udp@1 0 0 0 do:1:1:a:con:0:0 write:2:con write:3:con resp:1:non:69:4:- settle resp:2:con:69:4:- settle cancel:3 settle ack:3 ack:2 ack:1 settle",
    "disc timeout", "disc cancel", "disc duptoken", "disc badaddr", "disc notoken", "disc many",
]


def corpus_lines():
    out = []
    for p in sorted(glob.glob(os.path.join(common.VERIF, "corpus", "C13", "*.json"))):
        try:
            out += json.load(open(p)).get("input", [])
        except (OSError, ValueError):
            pass
    return out


def gen_lines(ctx):
    rng = random.Random(ctx.seed * 104729 + 13)
    L = [(l, 1) for l in corpus_lines() + FIXED + nstart_family() + bulk_family() + reuse_family()]
    for _ in range(60 if ctx.tier == "thorough" else 10):
        L += [(l, 1) for l in reuse_family(rng)]
    for _ in range(10 if ctx.tier == "thorough" else 1):
        L += [(l, 1) for l in bulk_family(rng)]
    for _ in range(30 if ctx.tier == "thorough" else 4):
        L += [(l, 1) for l in nstart_family(rng)]
    for _ in range(8000 if ctx.tier == "thorough" else 1200):
        L.append(gen_scenario(rng))
    return L


def evaluate(ctx, art, lines, tag="x"):
    impl = common.run_test_harness(ctx, art["test"], "TestC13", lines, tag=tag, timeout=1500)
    if impl is None or len(impl) != len(lines):
        return None
    rc, model, _ = common.pipe_lines([art["driver"], "model"], lines)
    rc2, judge, _ = common.pipe_lines([art["driver"], "judge"], [l + " | " + o for l, o in zip(lines, impl)])
    if rc or rc2 or len(model) != len(lines) or len(judge) != len(lines):
        ctx.broken.append(("model", "C13 driver run failed", ""))
        return None
    return list(zip(lines, impl, model, judge))


def final_sizes(obs):
    last = obs.split(";")[-1]
    if not last.startswith("final:"):
        return None
    return "final:" + last[len("final:"):].split("/")[0]


def explore(ctx, art):
    gl = gen_lines(ctx)
    lines = [l for l, _ in gl]
    failing = {l: f for l, f in gl}
    res = evaluate(ctx, art, lines)
    if res is None:
        return
    rc, cls, _ = common.pipe_lines([art["driver"], "classes"], [])
    if cls:
        ctx.notes.append("table classes from today's source: " + cls[0])
    distinct = set()
    mism = 0
    for line, impl, model, judge in res:
        ctx.cov["evaluations"] += 1
        f = line.split()
        if f[0] == "disc":
            ctx.count("discovery:" + f[1] + (":skipped" if impl.startswith("skip") else ""))
            if impl.startswith("skip"):
                ctx.notes.append("discovery history skipped: no loopback socket")
                continue
        else:
            ctx.count("%s-bw%s" % (f[1], f[2]))
            for op in f[5:]:
                ctx.count("op:" + op.split(":")[0])
        if impl.startswith("panic") or impl in ("bad-op", "conn-error"):
            ctx.violations.append(common.Violation("no-crash", "C13:no-crash:" + line, "%s -> %s" % (line, impl),
                                                   {"input": [line], "observed": impl}))
            continue
        if judge != "ok":
            clause = judge.replace("violates ", "")
            ctx.violations.append(common.Violation(clause, "C13:%s:%s" % (clause, line),
                                                   "%s: observed `%s`: %s" % (line, impl, judge),
                                                   {"input": [line], "observed": impl, "judge": judge, "model": model}))
            ctx.count("judge:" + clause)
        if f[0] == "scn":
            ctx.cov["traces_validated_against_impl"] = ctx.cov.get("traces_validated_against_impl", 0) + 1
            if final_sizes(impl) != model:
                mism += 1
                if mism <= 5:
                    ctx.broken.append(("correspondence", "C13 final sizes: model vs implementation",
                                       "%s\n impl  %s\n model %s" % (line, impl, model)))
            if failing.get(line, 0) >= 1 and line not in distinct:
                distinct.add(line)
                if len(distinct) <= 4:
                    ctx.sample({"input": line, "implementation": impl, "judge": judge})
    ctx.cov["distinct_nontrivial"] = len(distinct)
    ctx.cov["exhaustive"] = False
    ctx.cov["rule"] = ("one evaluation = one history of 1-7 interleaved exchanges (plain, block-wise upload/download, observe, ping, one-way "
                       "write, peer requests incl. duplicates and block-wise) with outcomes success / silence+cancel / deadline / reset / "
                       "malformed or out-of-order block / duplicate token / abandoned transfer / close, on a real udp or tcp client.Conn "
                       "under synctest; all eight table sizes are read through the verif accessors at every idle point (bounded-by-live-"
                       "work clauses) and after every exchange has ended and housekeeping ran 12 x 45 s of virtual time (retains-nothing "
                       "clause, compared with the model's final state). distinct_nontrivial = distinct histories with >= 1 exchange that "
                       "ended other than by success (appendix A).")


LASTGOOD = os.path.join(common.VERIF, "checks", "lastgood", "C13")


def _restore_generated():
    """The search for a failing history must not depend on today's source being translatable: when the extractor fails closed
    (and writes nothing) the last good copy of the generated shape is put in place, so that model, judge and driver still
    build; the translator failure itself is reported by standard_prepare."""
    for f in GENERATED:
        dst = os.path.join(common.GENERATED, f)
        src = os.path.join(LASTGOOD, f)
        if not os.path.exists(dst) and os.path.exists(src):
            with common.Lock():
                if not os.path.exists(dst):
                    open(dst, "w").write(open(src).read())


def _save_lastgood(ctx):
    if any(k == "translator" for k, _, _ in ctx.broken):
        return
    os.makedirs(LASTGOOD, exist_ok=True)
    for f in GENERATED:
        src = os.path.join(common.GENERATED, f)
        dst = os.path.join(LASTGOOD, f)
        try:
            cur = open(src).read()
            if not os.path.exists(dst) or open(dst).read() != cur:
                open(dst, "w").write(cur)
        except OSError:
            pass


def _prepare(ctx):
    _restore_generated()
    art = common.standard_prepare(ctx, MODULES, hx=False, test=True, generated=GENERATED)
    if not art.get("driver"):
        old = os.path.join(common.LEAN, ".lake", "build", "bin", "drv_c13")
        if os.path.exists(old):
            art["driver"] = old
            ctx.notes.append("driver could not be rebuilt; the search uses the previously built drv_c13")
    if os.environ.get("VERIF_REPO") is None:
        _save_lastgood(ctx)
    return art


def run(ctx):
    art = _prepare(ctx)
    if art.get("test") and art.get("driver"):
        explore(ctx, art)
    # "removed by the periodic expiry sweep at the latest" presupposes that the sweep reaches the connection: the housekeeping
    # runners (register / finish / nested-register / tick histories vs Model/Runner.lean) and the servers' connection table
    # under overlapping Store/Delete - the same sub-check as in C18 and C09
    from . import c18
    with common.Lock():
        rt = common.build_test(ctx, "c18")
        rd = common.build_driver(ctx, "C18")
    if rt and rd:
        c18.runner_check(ctx, rt, rd, random.Random(ctx.seed), ctx.tier == "thorough", "C13", "retains-nothing")
        # a keep-alive that gives up while the application keeps the connection open must leave nothing of its last ping behind
        c18.server_peers_check(ctx, rt, rd, random.Random(ctx.seed + 13), 300 if ctx.tier == "thorough" else 80, "C13", "retains-nothing",
                               levels=("udpnc", "tcpnc"))
    # block-wise buffers of transfers abandoned half-way (also with transfer timeout 0): nothing may be held once every
    # deadline has passed and both sides were swept (C04's harness and judge clause `leak`)
    from . import c04
    with common.Lock():
        bt = common.build_test(ctx, "c04")
        bd = common.build_driver(ctx, "C04")
    if bt and bd:
        c04.buffers_check(ctx, bt, bd, "C13", "retains-nothing")
    return common.finish(ctx)


def replay(ctx, rep):
    art = _prepare(ctx)
    lines = rep.get("input") or []
    if not lines:
        print("replay file names no failing input:", rep.get("no_longer_checks"))
        return 1
    if lines[0].startswith("rcfg") or lines[0].startswith("conns") or lines[0].startswith("ctor") or rep.get("server_peers"):
        from . import c18
        return c18.replay(ctx, rep)
    if str(rep.get("replay_with", "")).startswith("bin/check C04"):
        # a block-wise history of the shared sub-check (c04.buffers_check): C04's harness and judge
        from . import c04
        rc = c04.replay(ctx, rep)
        if rc:
            print("VIOLATION property=C13 replay=(replayed) still reproduces")
        return rc
    res = evaluate(ctx, art, lines, tag="replay")
    if res is None:
        print("replay could not run", ctx.broken)
        return 1
    bad = 0
    for line, impl, model, judge in res:
        print("%s\n  implementation: %s\n  model (final):  %s\n  judge:          %s" % (line, impl, model, judge))
        if judge != "ok":
            bad += 1
    if bad:
        print("VIOLATION property=C13 replay=(replayed) still reproduces")
    return 1 if bad else 0
