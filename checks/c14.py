"""C14 — concurrent map and expiring cache are linearizable (DESIGN.md §5 C14).

Proof: Props/C14.lean — shape_agrees / no_access_outside_lock / one_locked_section (decide, against the shapes the
       extractor reads from pkg/sync/map.go and pkg/cache/cache.go on every run), atomic_steps_linearizable and its corollary
       single_section_linearizable (every schedule of every program), per-method *_refines, loadOrStore_one_winner,
       callbacks_see_current_value, sweep_only_expired, range_weak_spec, search_sound (the judge only accepts linearizable
       histories).
Tie:   T — Generated/SyncShape.lean (critical-section structure of every method; fails closed).
       X — the real method bodies run under a cooperative scheduler: the check compiles harness/c14 with `-overlay`, which
           swaps the one token `sync.RWMutex` in pkg/sync/map.go for a scheduler-aware mutex (nothing in /repo is edited), so
           every Lock/RLock is a scheduling point and ALL interleavings of a program at critical-section granularity are
           enumerated deterministically (DFS by re-execution, virtual clock from testing/synctest).  Every history is judged
           by the Lean linearizability search against the sequential map (Spec/SeqMap.lean) and every (program, schedule) is
           replayed on the step model (Model/SyncMap.lean, Model/Cache.lean) and compared token by token.
       T (callers) — Generated/SyncCallSites.lean: every call on a field holding a map / cache in the client connections, the
           block-wise layer, the observation table, the limiter and the multicast tables; callers_use_atomic_forms is decided
           over it (store-if-absent wrappers are ONE LoadOrStore, pooled messages are read inside LoadWithFunc, no Load…Store).
       X (callers) — the wrappers themselves under the same scheduler: udp/client messageCache.Store/Load and net/blockwise
           Do x getSentRequest / getSendingMessageCode (through add-only overlay exports), judged by the same specification.
           Also net/observation's table (concurrent Cancel), the block-wise reassembly table (expired, unswept entry), and the
           plain map with lwfr: LoadWithFunc whose callback looks its key up again (callback execution as an observable event).
           … and with loswfr: LoadOrStoreWithFunc whose onLoad callback (under the WRITE lock) compares its argument with the
           element in the map while it runs (overlay-only VerifPeek; Props/C14Current.lean).
           Validities at the far end of the time axis (beyond 2262-04-11, where int64 Unix nanoseconds end; clock + MaxInt64 ns)
           are part of the cache programs, the bwrecv programs and the stress rounds: live for Load / LoadOrStore / the sweep
           (Props/C14Validity.lean).
           Tables that have GROWN (1024 / 1025 / 2048 / 2049 … entries, pre-filled by the bulk operation `fill:<n>:<base>:<v>` =
           n Stores): the whole-table operations (CopyData, LoadAndDeleteAll, Range2, Length) against a writer that touches
           several keys one after the other - what a copy returns is the content at ONE instant, however big the table
           (Props/C14Copy.lean; listings abbreviate runs `a..b=v`).
           A panic of the code under test is the schedule's observation (r<t>:panic:…): reported with program and schedule.
       X (limiter, for C16) — limiter_check: the real parallel-request limiter over the cooperative map (harness/c14/limiter_test.go),
           judged by C16's driver; called from checks/c16.py, violations are reported under C16.
       stress — many goroutines on the unmodified code (real RWMutex), histories ordered by an atomic counter, judged.
"""
import glob
import itertools
import json
import os
import random
import re
import subprocess
from concurrent.futures import ThreadPoolExecutor

from . import common

MODULES = ["CoapVerif.Props.C14", "CoapVerif.Props.C14Current", "CoapVerif.Props.C14Validity", "CoapVerif.Props.C14Copy"]
CORPUS = os.path.join(common.VERIF, "corpus", "C14")
WRITES = ("store", "los", "replace", "delete", "lad", "ladall", "swf", "loswf", "loswfn", "rwf", "dwf", "ladwf", "clos", "sweep")
WHOLE = ("ladall", "copy", "len", "range", "range2", "sweep")
# Validities at the far end of the time axis (seconds after the harness' clock origin; under testing/synctest that origin is
# 2000-01-01T00:00:00Z = Unix 946684800).  An element's validity is a time.Time and callers hand over instants that mean
# "practically never" (time.Now().Add(math.MaxInt64), a context deadline centuries ahead): BlockWise.Do / handleSendingMessage /
# getValidUntil pass them straight to NewElement.  Such an element has not expired - for Load, LoadOrStore and the sweep alike.
#   VU_I64_LAST / VU_I64_FIRST_PAST = the last whole second inside / the first one beyond the range of int64 Unix nanoseconds
#   (2262-04-11T23:47:16Z / :17Z); VU_2263 = a date in 2263; VU_MAX = clock + math.MaxInt64 ns (the longest time.Duration);
#   SWEEP_FAR = a `now` for CheckExpirations between VU_2263 and VU_MAX
VU_I64_LAST = (2 ** 63 - 1) // 10 ** 9 - 946684800        # 8276687236
VU_I64_FIRST_PAST = VU_I64_LAST + 1
VU_2263 = 8300000000
VU_MAX = (2 ** 63 - 1) // 10 ** 9                          # 9223372036
SWEEP_FAR = 9000000000
# Table sizes that are part of the generated set for good: around 1024 entries (a batch / a bucket-array size a copy, a sweep or a
# resize may treat differently from "small") and its multiples.  Go's map iteration order is random per map object, so WHERE in an
# iteration the few keys the writer touches fall differs from execution to execution: the programs let the writer touch several
# keys twice, and every schedule is a fresh draw.
BIG_SIZES = (1024, 1025, 2048, 2049)
BIG_SIZES_THOROUGH = (1023, 1536, 3072, 4096, 4097, 8193)


# ---------------------------------------------------------------- build (overlay)

def build_coop(ctx, exe_name="ht_c14coop.test"):
    ov = os.path.join(ctx.work, "overlay")
    os.makedirs(ov, exist_ok=True)
    mp = os.path.join(common.REPO, "pkg", "sync", "map.go")
    src = open(mp).read()
    nocomment = lambda t: re.sub(r"//[^\n]*", "", re.sub(r"/\*.*?\*/", "", t, flags=re.S))   # comments may mention sync.RWMutex
    if nocomment(src).count("sync.RWMutex") != 1 or len(re.findall(r"\bmutex\s+sync\.RWMutex\b", nocomment(src))) != 1:
        ctx.broken.append(("correspondence", "C14 overlay: pkg/sync/map.go does not declare exactly one `mutex sync.RWMutex`", ""))
        return None
    new = re.sub(r"(\bmutex\s+)sync\.RWMutex\b", r"\1CoopRWMutex", src)
    new, n = re.subn(r'\n\t"sync"\n', "\n", new, count=1)
    if n != 1 or re.search(r"\bsync\.", nocomment(new).replace("package sync", "")):
        ctx.broken.append(("correspondence", "C14 overlay: pkg/sync/map.go uses package sync for more than the mutex", ""))
        return None
    open(os.path.join(ov, "map.go"), "w").write(new)
    open(os.path.join(ov, "zz_coop_verif.go"), "w").write(
        open(os.path.join(common.HARNESS, "c14", "overlay", "zz_coop_verif.go.txt")).read())
    oj = os.path.join(ctx.work, "overlay.json")
    rep = {mp: os.path.join(ov, "map.go"),
           os.path.join(common.REPO, "pkg", "sync", "zz_coop_verif.go"): os.path.join(ov, "zz_coop_verif.go")}
    # add-only exports (overlay only, nothing in /repo) that let the harness drive the CALLERS of the map / cache themselves:
    # udp/client's response cache wrapper and net/blockwise's look-ups of the requests being sent
    for name, pkg in (("zz_c14_udpclient_verif.go", ("udp", "client")), ("zz_c14_blockwise_verif.go", ("net", "blockwise"))):
        open(os.path.join(ov, name), "w").write(open(os.path.join(common.HARNESS, "c14", "overlay", name + ".txt")).read())
        rep[os.path.join(common.REPO, *pkg, name)] = os.path.join(ov, name)
    json.dump({"Replace": rep}, open(oj, "w"))
    exe = os.path.join(common.WORK, exe_name)
    with common.Lock():
        rc, out = common.sh([common.GO, "test", "-c", "-tags", "verif c14coop", "-overlay", oj, "-o", exe, "./c14"],
                            cwd=common.HARNESS, env=common.GOENV, timeout=900)
    if rc != 0:
        ctx.broken.append(("correspondence", "harness-build c14 (overlay)", out[-2000:]))
        return None
    return exe


def run_harness(ctx, exe, test, lines, tag, timeout=3000):
    inp = os.path.join(ctx.work, tag + ".in")
    outp = os.path.join(ctx.work, tag + ".out")
    open(inp, "w").write("\n".join(lines) + "\n")
    if os.path.exists(outp):
        os.remove(outp)
    e = dict(os.environ, VERIF_IN=inp, VERIF_OUT=outp, VERIF_SEED=str(ctx.seed), VERIF_TIER=ctx.tier)
    try:
        p = subprocess.run([exe, "-test.run", "^" + test + "$", "-test.timeout", "%ds" % timeout], cwd=ctx.work, env=e,
                           stdout=subprocess.PIPE, stderr=subprocess.STDOUT, text=True, timeout=timeout + 30)
    except subprocess.TimeoutExpired:
        ctx.broken.append(("correspondence", "harness %s timed out" % test, ""))
        return None
    out = open(outp).read().splitlines() if os.path.exists(outp) else []
    if p.returncode != 0:
        ctx.broken.append(("correspondence", "harness %s failed (rc=%d)" % (test, p.returncode), p.stdout[-3000:]))
        return out or None
    return out


def drive(driver, verb, lines, workers=12):
    if not lines:
        return []
    # a line whose history fills a table with a thousand entries costs the driver about as much as fifty ordinary ones
    n = max(1, min(workers, len(lines), (len(lines) + 50 * sum(1 for l in lines if ":fill:" in l)) // 300 + 1))
    # dealt out in turn: the expensive lines (tables of thousands of entries) stand next to each other in the input
    chunks = [lines[i::n] for i in range(n)]

    def one(ch):
        rc, out, _ = common.pipe_lines([driver, verb], ch)
        return out if rc == 0 and len(out) == len(ch) else None
    with ThreadPoolExecutor(max_workers=n) as ex:
        res = list(ex.map(one, chunks))
    if any(r is None for r in res):
        return None
    out = [None] * len(lines)
    for i, r in enumerate(res):
        out[i::n] = r
    return out


# ---------------------------------------------------------------- programs

def fmt_prog(kind, pre, threads, post, mx=None):
    f = lambda ops: ",".join(ops) if ops else "-"
    s = "prog %s pre=%s %s post=%s" % (kind, f(pre), " ".join("t%d=%s" % (i, f(t)) for i, t in enumerate(threads)), f(post))
    if mx:
        s += " max=%d" % mx
    return s


class Fresh:
    def __init__(self, start=10):
        self.n = start

    def __call__(self):
        self.n += 1
        return self.n


def map_templates(k, fresh, init=5):
    v = fresh
    return [lambda: "store:%d:%d" % (k, v()), lambda: "load:%d" % k, lambda: "los:%d:%d" % (k, v()),
            lambda: "replace:%d:%d" % (k, v()), lambda: "delete:%d" % k, lambda: "lad:%d" % k,
            lambda: "swf:%d:%d" % (k, v()), lambda: "lwf:%d:100" % k, lambda: "loswf:%d:100:%d" % (k, v()),
            lambda: "rwf:%d:inc:1" % k, lambda: "rwf:%d:del" % k, lambda: "rwf:%d:cas:%d:%d" % (k, init, v()),
            lambda: "dwf:%d" % k, lambda: "ladwf:%d:100" % k,
            lambda: "ladall", lambda: "copy", lambda: "len", lambda: "range", lambda: "range:1", lambda: "range2",
            # the lazy store-if-absent: LoadOrStoreWithFunc WITHOUT an onLoad callback (nil) - seeded C14-T
            lambda: "loswfn:%d:%d" % (k, v())]


def cache_templates(k, fresh):
    v = fresh
    return [lambda: "clos:%d:%d@100" % (k, v()), lambda: "clos:%d:%d@3" % (k, v()), lambda: "clos:%d:%d" % (k, v()),
            lambda: "cload:%d" % k, lambda: "sweep", lambda: "store:%d:%d@100" % (k, v()), lambda: "store:%d:%d@3" % (k, v()),
            lambda: "delete:%d" % k, lambda: "lad:%d" % k, lambda: "load:%d" % k, lambda: "len", lambda: "tick:10",
            lambda: "los:%d:%d@100" % (k, v()), lambda: "replace:%d:%d@100" % (k, v()), lambda: "copy",
            lambda: "clos:%d:%d@10" % (k, v()), lambda: "store:%d:%d@10" % (k, v()),   # expiry boundary: tick:10 makes now == vu
            # CheckExpirations(now) with a caller-chosen now: behind the clock (2, 5 after tick:10), ahead of it (50, 200),
            # at the boundary of an entry (10)
            lambda: "sweep:2", lambda: "sweep:5", lambda: "sweep:10", lambda: "sweep:50", lambda: "sweep:200",
            # validities "practically never" / just beyond what int64 Unix nanoseconds can express (seeded C14-V)
            lambda: "clos:%d:%d@%d" % (k, v(), VU_MAX), lambda: "store:%d:%d@%d" % (k, v(), VU_I64_FIRST_PAST)]


def gen_programs(ctx):
    rng = random.Random(ctx.seed)
    thorough = ctx.tier == "thorough"
    P = []
    # 1. every pair of map operations on one key, two threads, empty and non-empty start
    for pre in ([], ["store:1:5"], ["store:1:5", "store:2:6"]):
        fr = Fresh()
        T = map_templates(1, fr)
        for a, b in itertools.combinations_with_replacement(range(len(T)), 2):
            P.append(fmt_prog("map", pre, [[T[a]()], [T[b]()]], ["load:1", "len"]))
    # 2. three threads, one operation each, from the store-if-absent / read-modify-write family
    fr = Fresh()
    T = map_templates(1, fr)
    core = [0, 2, 4, 5, 8, 9, 11, len(T) - 1]
    for pre in ([], ["store:1:5"]):
        for tri in itertools.combinations_with_replacement(core, 3):
            P.append(fmt_prog("map", pre, [[T[i]()] for i in tri], ["load:1", "len"]))
    # 3. every pair of cache operations, with a fresh / expired / never-expiring / absent entry
    for pre in ([], ["store:1:5@3"], ["store:1:5@3", "tick:10"], ["store:1:5@100"], ["store:1:5", "store:2:6@3", "tick:10"],
                ["store:1:5@10", "tick:10"], ["store:1:5@10", "tick:11"]):
        fr = Fresh()
        T = cache_templates(1, fr)
        for a, b in itertools.combinations_with_replacement(range(len(T)), 2):
            P.append(fmt_prog("cache", pre, [[T[a]()], [T[b]()]], ["cload:1", "load:1", "len"]))
    # 3b. entries whose validity lies at the far end of the time axis: live for Load / LoadOrStore / the sweep (by the clock and
    #     by a caller-chosen `now` short of the validity), removed only by a sweep whose `now` is later still
    fr = Fresh()
    v = fr
    far = [lambda: "clos:1:%d@%d" % (v(), VU_MAX), lambda: "clos:1:%d@100" % v(), lambda: "cload:1", lambda: "sweep", lambda: "sweep:200",
           lambda: "sweep:%d" % SWEEP_FAR, lambda: "store:1:%d@%d" % (v(), VU_2263), lambda: "delete:1",
           lambda: "clos:1:%d@%d" % (v(), VU_I64_LAST), lambda: "clos:1:%d@%d" % (v(), VU_I64_FIRST_PAST), lambda: "tick:10"]
    for pre in ([], ["store:1:5@%d" % VU_MAX], ["store:1:5@%d" % VU_I64_FIRST_PAST, "tick:10"],
                ["store:1:5@%d" % VU_I64_LAST, "store:2:6@%d" % VU_2263], ["clos:1:5@%d" % VU_2263, "tick:300"]):
        for a, b in itertools.combinations_with_replacement(range(len(far)), 2):
            P.append(fmt_prog("cache", pre, [[far[a]()], [far[b]()]], ["cload:1", "load:1", "len"]))
    for pre in (["store:1:5@%d" % VU_MAX, "tick:10"], ["store:1:5@%d" % VU_I64_FIRST_PAST, "store:2:6@3", "tick:10"]):
        for a, b in itertools.combinations_with_replacement([0, 1, 2, 7], 2):
            for sw in ("sweep", "sweep:200", "sweep:%d" % SWEEP_FAR):
                P.append(fmt_prog("cache", pre, [[sw], [far[a]()], [far[b]()]], ["cload:1", "load:1", "load:2", "len"]))
    # 4. sweep against two other threads
    fr = Fresh()
    T = cache_templates(1, fr)
    for pre in (["store:1:5@3", "tick:10"], ["store:1:5@3", "store:2:6@3", "tick:10"]):
        for a, b in itertools.combinations_with_replacement([0, 1, 3, 5, 7, 8, 11, 12], 2):
            for sw in ("sweep", "sweep:5", "sweep:200"):
                P.append(fmt_prog("cache", pre, [[sw], [T[a]()], [T[b]()]], ["cload:1", "load:1", "load:2", "len"]))
    # 4b. the CALLERS: the wrappers that promise store-if-absent / read-under-lock, driven on the real code
    #     mcache = udp/client messageCache (Store = one Cache.LoadOrStore, result "?"; Load = Cache.Load);
    #     bwsend = net/blockwise table of requests being sent (hold = Do: register … remove, then the request is released to the
    #              pool; copy = getSentRequest; code = getSendingMessageCode)
    lt = 247
    for pre, now in (([], 0), (["clos:1:5@%d" % lt], 0), (["clos:1:5@%d" % lt, "tick:300"], 300), (["clos:1:5@%d" % lt, "tick:%d" % lt], lt)):
        v = lambda i: "%d@%d" % (i, now + lt)
        P.append(fmt_prog("mcache", pre, [["clos:1:%s" % v(6)], ["clos:1:%s" % v(7)]], ["cload:1"]))
        P.append(fmt_prog("mcache", pre, [["clos:1:%s" % v(6)], ["clos:1:%s" % v(7)], ["cload:1"]], ["cload:1"]))
        P.append(fmt_prog("mcache", pre, [["clos:1:%s" % v(6)], ["clos:1:%s" % v(7)], ["clos:1:%s" % v(8)]], ["cload:1"]))
        P.append(fmt_prog("mcache", pre, [["clos:1:%s" % v(6), "cload:1"], ["clos:1:%s" % v(7), "cload:1"]], ["cload:1"]))
        P.append(fmt_prog("mcache", pre, [["clos:1:%s" % v(6), "clos:2:%s" % v(9)], ["clos:2:%s" % v(7), "clos:1:%s" % v(8)], ["cload:1", "cload:2"]], ["cload:1", "cload:2"]))
    for ths in ([["hold:1:2"], ["copy:1"]], [["hold:1:2"], ["code:1"]], [["hold:1:2"], ["copy:1", "copy:1"]], [["hold:1:2"], ["code:1", "copy:1"]],
                [["hold:1:2"], ["copy:1"], ["code:1"]], [["hold:1:2", "hold:1:3"], ["copy:1"]], [["hold:1:2"], ["hold:2:3"], ["copy:1", "copy:2"]],
                [["hold:1:2", "hold:1:3"], ["copy:1", "code:1"]], [["hold:1:4"], ["copy:1"], ["copy:1"]],
                # cont = continueSendingMessage: the next block is built from the registered request (code, options, body)
                [["hold:1:2"], ["cont:1"]], [["hold:1:4"], ["cont:1"]], [["hold:1:2"], ["cont:1"], ["copy:1"]],
                [["hold:1:2", "hold:1:3"], ["cont:1"]], [["hold:1:2"], ["cont:1", "cont:1"]]):
        P.append(fmt_prog("bwsend", [], ths, ["copy:1", "code:1"]))
    #     mapcb  = the plain map with lwfr: LoadWithFunc whose callback looks its key up again (a scheduling point inside the
    #              callback): what it reads is what it was called with, whatever Delete / Replace / Store the other threads try
    for pre in (["store:1:5"], ["store:1:5", "store:2:6"]):
        for other in (["delete:1"], ["replace:1:7"], ["store:1:7"], ["lad:1"], ["rwf:1:del"], ["rwf:1:inc:1"], ["dwf:1"], ["ladall"],
                      ["lwfr:1:100"], ["load:1"], ["delete:1", "store:1:8"]):
            P.append(fmt_prog("mapcb", pre, [["lwfr:1:100"], other], ["load:1", "len"]))
    P.append(fmt_prog("mapcb", ["store:1:5"], [["lwfr:1:100"], ["delete:1"], ["los:1:9"]], ["load:1"]))
    P.append(fmt_prog("mapcb", [], [["lwfr:1:100"], ["store:1:7"]], ["load:1"]))
    #     … and with loswfr: LoadOrStoreWithFunc whose onLoad callback (it runs under the WRITE lock) records its argument and
    #              the element that is in the map under the key at that moment (overlay-only VerifPeek): the callback runs on
    #              the element that is CURRENTLY in the map, whatever removes / replaces it concurrently (seeded C16-U)
    for pre in (["store:1:5"], ["store:1:5", "store:2:6"]):
        for other in (["delete:1"], ["rwf:1:del"], ["dwf:1"], ["ladwf:1:100"], ["ladall"], ["lad:1"], ["replace:1:7"], ["store:1:7"],
                      ["rwf:1:inc:1"], ["loswfr:1:100:8"], ["lwfr:1:100"], ["delete:1", "store:1:8"], ["delete:1", "loswfr:1:100:8"]):
            P.append(fmt_prog("mapcb", pre, [["loswfr:1:100:9"], other], ["load:1", "len"]))
    P.append(fmt_prog("mapcb", ["store:1:5"], [["loswfr:1:100:9"], ["rwf:1:del"], ["loswfr:1:100:8"]], ["load:1"]))
    P.append(fmt_prog("mapcb", ["store:1:5"], [["loswfr:1:100:9"], ["delete:1"], ["los:1:8"]], ["load:1"]))
    P.append(fmt_prog("mapcb", [], [["loswfr:1:100:9"], ["loswfr:1:100:8"], ["rwf:1:del"]], ["load:1"]))
    #     midtab = udp/client's table of pending message IDs on a real Conn (pend = the registration writeMessage makes, take =
    #              handleSpecialMessages for an acknowledgement: "obtained the element, ran its handler" is LoadAndDelete's
    #              result, has = look-up): two takers of one element, at most one obtains it
    for pre, ths, post in (
            (["pend:1:5"], [["take:1"], ["take:1"]], ["has:1"]),
            (["pend:1:5"], [["take:1"], ["take:1", "pend:1:7"]], ["has:1"]),
            (["pend:1:5"], [["take:1"], ["take:1"], ["take:1"]], ["has:1"]),
            (["pend:1:5", "pend:2:6"], [["take:1", "take:2"], ["take:2", "take:1"]], ["has:1", "has:2"]),
            (["pend:1:5"], [["take:1"], ["has:1", "take:1"]], ["has:1"])):
        P.append(fmt_prog("midtab", pre, ths, post))
    #     obstab = net/observation's table of observations (reg = NewObservation, cancel = Observation.Cancel on the first
    #              observation registered under the key: "removed it and sent the deregistration" is LoadAndDelete's result,
    #              has = GetObservation): concurrent cancels of one observation have exactly one winner
    for pre, ths, post in (
            (["reg:1:5"], [["cancel:1"], ["cancel:1"]], ["has:1"]),
            (["reg:1:5"], [["cancel:1"], ["cancel:1"]], ["reg:1:7", "has:1"]),
            (["reg:1:5"], [["cancel:1"], ["cancel:1"], ["cancel:1"]], ["has:1"]),
            (["reg:1:5"], [["cancel:1"], ["cancel:1"], ["has:1"]], ["has:1"]),
            (["reg:1:5", "reg:2:6"], [["cancel:1", "cancel:2"], ["cancel:2", "cancel:1"]], ["has:1", "has:2"]),
            (["reg:1:5"], [["cancel:1"], ["reg:2:6", "cancel:1"]], ["has:1", "has:2"]),
            (["reg:1:5"], [["cancel:1", "has:1"], ["has:1", "cancel:1"]], ["has:1"])):
        P.append(fmt_prog("obstab", pre, ths, post))
    #     bwrecv = net/blockwise's reassembly table, an expiring cache (clos = getCachedReceivedMessage for a first block: the
    #              store-if-absent of the entry; cload = processReceivedMessage's look-up; sweep = BlockWise.CheckExpirations):
    #              an expired entry that has not been swept yet is absent for the store-if-absent as well
    for pre, ths, post in (
            (["clos:1:5@3", "tick:10"], [["clos:1:6@110"], ["cload:1"]], ["sweep", "cload:1"]),
            (["clos:1:5@3", "tick:10"], [["clos:1:6@110"], ["clos:1:7@110"]], ["cload:1"]),
            (["clos:1:5@3", "tick:10"], [["clos:1:6@110"], ["sweep"]], ["cload:1"]),
            (["clos:1:5@3", "tick:3"], [["clos:1:6@110"], ["cload:1"]], ["cload:1"]),
            (["clos:1:5@300", "tick:10"], [["clos:1:6@310"], ["cload:1"]], ["sweep", "cload:1"]),
            ([], [["clos:1:6@110"], ["clos:1:7@110"]], ["cload:1"]),
            # a reassembly entry that is valid "practically for ever" is found, kept by the sweep, and is the one entry (C14-V)
            (["clos:1:5@%d" % VU_MAX, "tick:10"], [["clos:1:6@110"], ["cload:1"]], ["sweep", "cload:1"]),
            ([], [["clos:1:6@%d" % VU_I64_FIRST_PAST], ["clos:1:7@%d" % VU_MAX]], ["cload:1", "sweep", "cload:1"]),
            ([], [["clos:1:6@110", "cload:2"], ["clos:2:7@110", "cload:1"]], ["tick:200", "cload:1", "sweep", "cload:2"])):
        P.append(fmt_prog("bwrecv", pre, ths, post))
    # 4c. tables that have grown: a whole-table operation against a writer that touches several keys one after the other.  Keys
    #     1..3 are the writer's, `fill:<n>:1000:0` (n Stores) brings the table to the size; sizes BIG_SIZES (+ more when thorough)
    P += gen_big_programs(ctx, rng)
    # 5. random programs: 2-3 threads x 1-3 operations on 1-2 keys
    n = 6000 if thorough else 500
    for i in range(n):
        kind = "cache" if rng.random() < 0.4 else "map"
        fr = Fresh(20)
        nk = rng.choice([1, 2])
        tm = [map_templates(k, fr) for k in range(1, nk + 1)] if kind == "map" else [cache_templates(k, fr) for k in range(1, nk + 1)]
        pick = lambda: rng.choice(rng.choice(tm))()
        nth = rng.choice([2, 2, 3])
        threads = [[pick() for _ in range(rng.choice([1, 2, 2, 3] if nth == 2 else [1, 1, 2, 3]))] for _ in range(nth)]
        if kind == "map":
            pre = ["store:%d:%d" % (k, 4 + k) for k in range(1, nk + 1) if rng.random() < 0.6]
            post = ["load:%d" % k for k in range(1, nk + 1)] + ["len"]
        else:
            pre = ["store:%d:%d@%d" % (k, 4 + k, rng.choice([0, 3, 100, VU_MAX, VU_I64_FIRST_PAST])) for k in range(1, nk + 1) if rng.random() < 0.7]
            if rng.random() < 0.6:
                pre.append("tick:10")
            post = ["cload:%d" % k for k in range(1, nk + 1)] + ["load:%d" % k for k in range(1, nk + 1)] + ["len"]
        P.append(fmt_prog(kind, pre, threads, post, mx=4000 if thorough else 1200))
    return P


def big_pre(kind, size, specials=3):
    at = "@100" if kind == "cache" else ""
    return ["store:%d:%d%s" % (k, 4 + k, at) for k in range(1, specials + 1)] + ["fill:%d:1000:0" % (size - specials)]


def gen_big_programs(ctx, rng):
    thorough = ctx.tier == "thorough"
    P = []
    sizes = BIG_SIZES + (BIG_SIZES_THOROUGH if thorough else ())
    fr = Fresh(10)
    v = fr
    mx = 3000 if thorough else 600
    for kind in ("map", "cache"):
        at = "@100" if kind == "cache" else ""
        st = lambda k: "store:%d:%d%s" % (k, v(), at)
        post = (["load:1", "load:3", "len"] if kind == "map" else ["cload:1", "load:3", "len"])
        for size in sizes:
            if kind == "cache" and size not in (1025, 2048, 4097):
                continue
            # the copy against a writer that goes over its keys twice: the copy is the table at one instant of that sequence
            P.append(fmt_prog(kind, big_pre(kind, size), [["copy"], [st(1), st(2), st(3), st(1), st(2), st(3)]], post, mx=mx))
            # … against a writer that changes the SIZE (a new key far from the others, a removed one)
            P.append(fmt_prog(kind, big_pre(kind, size), [["copy"], [st(1), "delete:2", st(900000), st(3)]], post, mx=mx))
        for size in (1025, 2049):
            for whole in (["len"], ["copy", "len"]) + ((["ladall"], ["range2"], ["range:1"], ["ladall", "copy"]) if kind == "map" else ()):
                P.append(fmt_prog(kind, big_pre(kind, size), [whole, [st(1), "lad:2", st(3)]], post, mx=mx))
    # two copies and a writer; a copy while LoadAndDeleteAll hands the table to its caller and a writer refills
    P.append(fmt_prog("map", big_pre("map", 2048), [["copy"], ["copy"], ["store:1:%d" % v(), "store:2:%d" % v(), "store:1:%d" % v()]], ["len"], mx=mx))
    P.append(fmt_prog("map", big_pre("map", 2049), [["copy"], ["ladall"], ["store:1:%d" % v(), "store:2:%d" % v()]], ["load:1", "len"], mx=mx))
    # seeded: sizes between and beyond the fixed ones, 2-5 writer operations on 2-4 of the writer's keys
    for i in range(60 if thorough else 10):
        kind = "cache" if rng.random() < 0.3 else "map"
        at = "@100" if kind == "cache" else ""
        size = rng.choice([rng.randint(1020, 1030), rng.randint(1400, 2100), rng.randint(2040, 2060), rng.randint(3000, 5000)])
        nk = rng.choice([2, 3, 4])
        w = []
        for _ in range(rng.choice([2, 3, 4, 5])):
            k = rng.randint(1, nk)
            w.append(rng.choice(["store:%d:%d%s" % (k, v(), at), "store:%d:%d%s" % (k, v(), at), "replace:%d:%d%s" % (k, v(), at),
                                 "delete:%d" % k, "lad:%d" % k, "los:%d:%d%s" % (k, v(), at)]))
        P.append(fmt_prog(kind, big_pre(kind, size, nk), [[rng.choice(["copy", "copy", "copy", "len"])], w],
                          ["load:1", "load:2", "len"], mx=mx))
    return P


def stress_lines(ctx):
    thorough = ctx.tier == "thorough"
    r = 6000 if thorough else 300
    return ["stress map %d %d 6 1 1" % (ctx.seed, r), "stress map %d %d 4 2 2" % (ctx.seed + 1, r),
            "stress map %d %d 8 1 2" % (ctx.seed + 2, r // 2), "stress cache %d %d 5 1 1" % (ctx.seed + 3, r),
            "stress cache %d %d 3 2 2" % (ctx.seed + 4, r)]


# ---------------------------------------------------------------- classification

def op_key(op):
    f = op.split(":")
    return None if f[0] in WHOLE or f[0] in ("tick",) else (f[1] if len(f) > 1 else None)


def nontrivial(history):
    """>= 2 threads touch one key with >= 1 write (whole-map operations touch every key)."""
    per = {}
    for tok in history.split():
        if tok[0] != "c":
            continue
        t, _, op = tok[1:].partition(":")
        if t in ("9", "99"):
            continue
        name = op.split(":")[0]
        if name == "tick":
            continue
        per.setdefault(t, []).append((name, op_key(op)))
    ts = list(per)
    for i in range(len(ts)):
        for j in range(i + 1, len(ts)):
            for (na, ka) in per[ts[i]]:
                for (nb, kb) in per[ts[j]]:
                    if (ka is None or kb is None or ka == kb) and (na in WRITES or nb in WRITES):
                        return True
    return False


# wrapper kinds whose operations are more than one step of the table (or hold its lock across a scheduling point): their
# histories are judged against the sequential specification, not replayed on the step model
JUDGE_ONLY = ("bwsend", "obstab", "bwrecv", "mapcb", "midtab")


def big_size(prog):
    """entries in the table when the threads start (programs of gen_big_programs: distinct stores, then a fill)"""
    m = re.search(r"pre=(\S+)", prog)
    ops = m.group(1).split(",") if m else []
    return sum(int(o.split(":")[1]) if o.startswith("fill:") else 1 for o in ops if o.startswith(("fill:", "store:")))


def clause_of(prog):
    ops = re.findall(r"[=,]([a-z0-9]+)(?=[:,\s]|$)", prog)
    if prog.split()[1] in ("bwsend", "mapcb"):
        return "callbacks-see-current-value"
    if prog.split()[1] in ("obstab", "bwrecv", "midtab"):
        return "store-if-absent"
    if "sweep" in ops:
        return "sweep-only-expired"
    if any(o in ops for o in ("los", "clos", "loswf", "loswfn", "loswfr")):
        return "store-if-absent"
    if any(o in ops for o in ("lwf", "rwf", "dwf", "ladwf", "swf")):
        return "callbacks-see-current-value"
    return "linearizable"


def explore_programs(ctx, art, coop, progs, tag):
    """Runs programs, returns list of (prog, schedline) for every explored schedule."""
    out = run_harness(ctx, coop, "TestC14", progs, tag)
    if out is None:
        return []
    res, buf = [], []
    for l in out:
        if l.startswith("# "):
            p = l[2:].split(" schedules=")[0]
            if l.endswith("truncated"):
                ctx.count("programs with truncated schedule enumeration")
            res += [(p, b) for b in buf]
            buf = []
        elif l.startswith("sched "):
            buf.append(l)
        else:
            ctx.violations.append(common.Violation("no-crash", "C14:harness:" + l[:80], "harness line: " + l, {"input": [], "observed": l}))
    return res


def any_bad(ctx, art, coop, prog, crash=False):
    runs = explore_programs(ctx, art, coop, [prog], "min")
    if not runs:
        return None
    hs = sorted(set(s for _, s in runs))
    j = drive(art["driver"], "judge", hs)
    for s, v in zip(hs, j or []):
        if "program_error" in s:
            return None      # the reduced program is not a valid program any more (e.g. an expiry that no longer fits the clock)
        if v.startswith("violates no-crash") if crash else (v == "lin none" or v.startswith("violates")):
            return s, v
    return None


def minimise(ctx, art, coop, prog, sched, crash=False):
    """Drop operations from the program while some schedule still gives a non-linearizable history (crash: while some
    schedule still makes the code under test panic / deadlock)."""
    m = re.match(r"prog (\w+) pre=(\S+) (.*) post=(\S+)", prog)
    if not m:
        return prog, sched
    kind, pre, ths, post = m.group(1), m.group(2), m.group(3), m.group(4)
    sp = lambda s: [] if s == "-" else s.split(",")
    parts = [sp(pre)] + [sp(t.split("=", 1)[1]) for t in ths.split()] + [sp(post)]
    best = (prog, sched)
    budget = 16 if ":fill:" in prog or "=fill:" in prog else 40     # exploring + judging a program on a grown table costs seconds
    changed = True
    while changed and budget > 0:
        changed = False
        for pi in range(len(parts)):
            for oi in range(len(parts[pi])):
                cand = [list(p) for p in parts]
                del cand[pi][oi]
                if sum(1 for t in cand[1:-1] if t) < 2:
                    continue
                cp = fmt_prog(kind, cand[0], cand[1:-1], cand[-1])
                budget -= 1
                r = any_bad(ctx, art, coop, cp, crash)
                if r:
                    parts, best, changed = cand, (cp, r[0]), True
                    break
                if budget <= 0:
                    break
            if changed or budget <= 0:
                break
    return best


def explore(ctx, art, coop):
    progs = []
    for p in sorted(glob.glob(os.path.join(CORPUS, "*.json"))):
        for l in json.load(open(p)).get("input", []):
            progs.append("prog " + l.split(" prog ", 1)[1] if l.startswith("sched ") else l)
    ncorpus = len(progs)
    progs += gen_programs(ctx)
    runs = explore_programs(ctx, art, coop, progs, "x")
    ctx.log("programs %d (corpus %d), schedules executed %d" % (len(progs), ncorpus, len(runs)))
    ctx.cov["programs"] = len(progs)
    if not art.get("driver"):
        return
    # judge: distinct histories only (the search is the expensive part)
    hist = {}
    for p, s in runs:
        h = s.split(" | ", 1)[1]
        hist.setdefault(h, (p, s))
    hs = list(hist)
    judge = drive(art["driver"], "judge", ["x | " + h for h in hs])
    replayed = [i for i, (p, _) in enumerate(runs) if p.split()[1] not in JUDGE_ONLY]
    mres = drive(art["driver"], "model", [runs[i][0] + " || " + runs[i][1] for i in replayed])
    model = None
    if mres is not None:
        model = ["judged only"] * len(runs)
        for i, m in zip(replayed, mres):
            model[i] = m
    if judge is None or model is None:
        ctx.broken.append(("model", "C14 driver run failed", ""))
        return
    distinct = 0
    badprogs = {}
    for h, v in zip(hs, judge):
        nt = nontrivial(h)
        if nt:
            distinct += 1
        ctx.count("judge:" + v.split(" no-crash")[0])
        if v == "lin ok":
            if len(ctx.cov["samples"]) < 4 and nt and len(h) > 90:
                ctx.sample({"program": hist[h][0], "schedule+history": hist[h][1], "judge": v})
        elif v.startswith("skip"):
            continue
        else:
            badprogs.setdefault(hist[h][0], (hist[h][1], v))
    # report at most 6 programs, taking the kinds of object in turn (so that one noisy wrapper does not hide the others)
    bykind = {}
    for p, sv in badprogs.items():
        bykind.setdefault(p.split()[1], []).append((p, sv))
    chosen = [x for row in itertools.zip_longest(*bykind.values()) for x in row if x is not None][:6]
    for p, (s, v) in chosen:
        mp, ms = minimise(ctx, art, coop, p, s, crash=v.startswith("violates no-crash"))
        jm = drive(art["driver"], "judge", [ms])
        if jm and (jm[0] == "lin none" or jm[0].startswith("violates")):
            v = jm[0]          # the verdict on the reduced program (a crash may have become a plain wrong answer)
        clause = v.split()[1] if v.startswith("violates") and len(v.split()) > 1 else clause_of(mp)
        sig = "C14:%s:%s" % (clause, mp)
        if any(x.signature == sig for x in ctx.violations):
            continue
        ctx.violations.append(common.Violation(
            clause, sig, "%s: %s  [%s]" % ("history not linearizable w.r.t. the sequential map" if v == "lin none" else v, ms, mp),
            {"input": [ms.split(" | ")[0] + " " + mp], "observed": ms, "judge": v, "found_in": p}))
    if len(badprogs) > 6:
        ctx.count("further programs with a non-linearizable history", len(badprogs) - 6)
    ok = 0
    for (p, s), m in zip(runs, model):
        if m == "ok":
            ok += 1
        elif p.split()[1] in JUDGE_ONLY:
            # getSentRequest holds the read lock across a scheduling point (the client's AcquireMessage inside the callback),
            # NewObservation / Cancel / getCachedReceivedMessage do more than the one table step; the step model has neither:
            # these histories are judged, not replayed
            ctx.count("wrapper schedules judged only (lock held across a scheduling point)")
        elif "r9:diverged" in s:
            ctx.count("schedules whose re-execution diverged (Go map iteration order)")
        elif p not in badprogs and len([b for b in ctx.broken if b[1] == "C14 model vs implementation"]) < 5:
            ctx.broken.append(("correspondence", "C14 model vs implementation", "%s :: %s || %s" % (m, p, s)))
    kinds = {}
    for p, _ in runs:
        kinds[p.split()[1]] = kinds.get(p.split()[1], 0) + 1
    for k, n in kinds.items():
        ctx.count("schedules:" + k, n)
    nsw = sum(1 for _, s in runs if re.search(r"c\d+:sweep:\d", s))
    ctx.count("schedules with CheckExpirations(now) where now is not the clock (ahead / behind)", nsw)
    ctx.count("schedules in which a sweep ahead of the clock removed an entry not yet expired by the clock",
              sum(1 for _, s in runs if re.search(r"c\d+:sweep:200 (?:\S+ )*?r\d+:x=\[[^\]]*@100", s)))
    ctx.count("schedules on a table that has grown (1024 … 8193 entries; CopyData / LoadAndDeleteAll / Range2 / Length against a writer)",
              sum(1 for p, _ in runs if ",fill:" in p))
    ctx.count("… of these on a table of more than 1024 entries", sum(1 for p, _ in runs if ",fill:" in p and big_size(p) > 1024))
    ctx.cov["evaluations"] = len(runs)
    ctx.cov["distinct_nontrivial"] = distinct
    ctx.cov["traces_validated_against_impl"] = ok
    return distinct


def stress(ctx, art):
    out = run_harness(ctx, art["test"], "TestC14Stress", stress_lines(ctx), "stress")
    if not out:
        return
    hs = [l for l in out if l.startswith("stress | ")]
    judge = drive(art["driver"], "judge", hs)
    if judge is None:
        ctx.broken.append(("model", "C14 driver run failed (stress)", ""))
        return
    bad = 0
    nt = 0
    for h, v in zip(hs, judge):
        ctx.count("stress:" + v.split(" no-crash")[0])
        if nontrivial(h.split(" | ", 1)[1]):
            nt += 1
        if v != "lin ok":
            bad += 1
            if bad <= 3:
                ctx.violations.append(common.Violation(
                    "linearizable", "C14:stress:" + h[9:200], "stress history not linearizable: " + h[9:],
                    {"input": [], "observed": h, "judge": v, "note": "produced by real parallel execution; not replayable deterministically"}))
    ctx.cov["evaluations"] += len(hs)
    ctx.cov["stress_histories"] = len(hs)
    ctx.cov["stress_nontrivial"] = nt


# ---------------------------------------------------------------- the parallel-request limiter over the cooperative map (C16 x C14)

LIM_CFGS = [(1, 1), (2, 1), (1, 2), (0, 1), (2, 2)]
LIM_SHAPES = [
    [["req:0:0"], ["req:1:0"]],
    [["req:0:0"], ["req:1:0"], ["req:2:0"]],
    [["req:0:0"], ["req:1:0"], ["req:2:1"]],
    [["req:0:0", "req:2:0"], ["req:1:0"]],                    # a client goroutine that sends back to back
    [["req:0:0"], ["req:1:0"], ["cancel:1"]],
    [["req:0:0"], ["req:1:0"], ["cancel:0"]],
    [["req:0:0"], ["req:1:0"], ["req:2:0"], ["cancel:1"]],
    [["req:0:0"], ["req:1:0"], ["req:2:1"], ["cancel:2"]],
]
LIM_SHAPES_THOROUGH = [
    [["req:0:0", "req:3:0"], ["req:1:0"], ["req:2:0"]],
    [["req:0:0", "req:2:0"], ["req:1:0", "req:3:0"]],
    [["req:0:0"], ["req:1:0"], ["req:2:0"], ["cancel:2"]],
    [["req:0:0", "req:3:1"], ["req:1:1"], ["req:2:0"], ["cancel:1"]],
]


def limiter_lines(ctx):
    L = []
    shapes = LIM_SHAPES + (LIM_SHAPES_THOROUGH if ctx.tier == "thorough" else [])
    for (l, e) in LIM_CFGS:
        for ths in shapes:
            L.append("lim %d %d %s max=%d" % (l, e, " ".join("t%d=%s" % (i, ",".join(t)) for i, t in enumerate(ths)),
                                             6000 if ctx.tier == "thorough" else 1500))
    return L


def limiter_judge_one(ctx, coop, driver16, line, tag="limmin"):
    """line = `lsched <i,…> lim L E t0=…` -> (observed history, verdict of the C16 judge)"""
    out = run_harness(ctx, coop, "TestC14Limiter", [line], tag) or []
    hs = [o.split(" | ", 1)[1] for o in out if o.startswith("lsched ") and " | cfg " in o]
    if not hs:
        if any(o.startswith("lsched ") and o.endswith("| diverged") for o in out):
            return "diverged (the tree under test has no such schedule)", "ok"
        return None, None
    rc, j, _ = common.pipe_lines([driver16, "judge"], [hs[0]])
    return hs[0], (j[0] if j else None)


def limiter_check(ctx, coop, driver16, prop="C16", corpus_lines=()):
    """The real limitParallelRequests over the cooperative-mutex Map (harness/c14/limiter_test.go): every critical section of
    the endpoint table is a scheduling point, all interleavings of 2-3 requests (+ a context cancellation) on one and two paths
    are executed and every history is judged by the C16 specification (drv_c16 judge) and checked for trace inclusion in the
    limiter model (drv_c16 model).  Violations are reported under `prop` with the clause names of C16."""
    for l in corpus_lines:                       # minimised past failures first: `lsched <i,…> lim L E t0=…`
        h, j = limiter_judge_one(ctx, coop, driver16, l, tag="limcorpus")
        ctx.count("limiter over the cooperative map: corpus schedules")
        if j and j != "ok":
            clause = j.split()[1].rstrip(":") if len(j.split()) > 1 else "?"
            ctx.violations.append(common.Violation(clause, "%s:coop:%s:%s" % (prop, clause, l), "%s  [corpus schedule `%s`: %s]" % (j, l, h),
                                                   {"input": ["coop " + l], "observed": h, "judge": j}))
    out = run_harness(ctx, coop, "TestC14Limiter", limiter_lines(ctx), "lim")
    if out is None:
        return
    runs, buf = [], []
    for l in out:
        if l.startswith("# "):
            prog = l[2:].split(" schedules=")[0]
            if l.endswith("truncated"):
                ctx.count("limiter programs with truncated schedule enumeration")
            runs += [(prog, b) for b in buf]
            buf = []
        elif l.startswith("lsched "):
            if " | cfg " in l:
                buf.append(l)
            else:
                ctx.count("limiter schedules whose re-execution diverged")
        else:
            ctx.violations.append(common.Violation("no-crash", "%s:coop-harness:%s" % (prop, l[:80]), "harness line: " + l, {"input": [], "observed": l}))
    hist = {}
    for prog, l in runs:
        hist.setdefault(l.split(" | ", 1)[1], (prog, l.split(" | ", 1)[0]))
    hs = list(hist)
    judge = drive(driver16, "judge", hs)
    # trace inclusion in the limiter model: histories the judge accepts whose windows are small (the model interleaves the
    # events of one window in every order; windows grow only when arrivals park between look-up and callback)
    small = [i for i, h in enumerate(hs) if judge and judge[i] == "ok" and max(seg.count("&") for seg in h.split(";")) < 4]
    mres = drive(driver16, "model", [hs[i] for i in small])
    model = None
    if mres is not None:
        model = ["ok (not replayed)"] * len(hs)
        for i, m in zip(small, mres):
            model[i] = m
        ctx.count("limiter over the cooperative map: histories checked for trace inclusion in the model", len(small))
    if judge is None or model is None:
        ctx.broken.append(("model", "%s driver run failed (limiter over the cooperative map)" % prop, ""))
        return
    ctx.count("limiter over the cooperative map: schedules executed", len(runs))
    ctx.count("limiter over the cooperative map: distinct histories judged", len(hs))
    ctx.count("limiter over the cooperative map: histories with a thread parked in the middle of a limiter operation (several events per line)",
              sum(1 for h in hs if "& ping" in h))
    seen = set()
    nviol = 0
    # the shortest violating history of each clause is the one reported
    for h, j, m in sorted(zip(hs, judge, model), key=lambda x: (x[1] == "ok", len(x[0]))):
        prog, sched = hist[h]
        replay_line = "%s %s" % (sched, prog)
        if j != "ok":
            clause = j.split()[1].rstrip(":") if len(j.split()) > 1 else "?"
            if clause in seen:
                ctx.count("further violations of %s (limiter over the cooperative map)" % clause)
                continue
            seen.add(clause)
            nviol += 1
            ctx.violations.append(common.Violation(
                clause, "%s:coop:%s:%s" % (prop, clause, prog),
                "%s  [real limiter over the cooperative-mutex table, schedule %s of `%s`: %s]" % (j, sched.split()[1], prog, h),
                {"input": ["coop " + replay_line], "observed": h, "judge": j}))
        elif not m.startswith("ok"):
            if len([b for b in ctx.broken if b[1] == "C16 model vs implementation (cooperative map)"]) < 3:
                ctx.broken.append(("correspondence", "C16 model vs implementation (cooperative map)", "%s :: %s :: %s" % (m, replay_line, h)))
        else:
            ctx.cov["traces_validated_against_impl"] = ctx.cov.get("traces_validated_against_impl", 0) + 1
    ctx.cov["evaluations"] = ctx.cov.get("evaluations", 0) + len(runs)
    return nviol


def run(ctx):
    art = common.standard_prepare(ctx, MODULES, hx=False, test=True, generated=["SyncShape.lean", "SyncCallSites.lean"])
    coop = build_coop(ctx)
    if coop:
        explore(ctx, art, coop)
    if art.get("test") and art.get("driver"):
        stress(ctx, art)
    ctx.cov["exhaustive"] = True
    ctx.cov["rule"] = ("programs: every pair of operations of the full Map API on one key (3 initial maps), triples of the "
                       "store-if-absent / read-modify-write family, every pair of Cache operations (5 initial states incl. expired "
                       "entries; incl. CheckExpirations(now) with now behind / at / ahead of the clock; incl. validities beyond the year 2262 - the int64-nanosecond boundary, clock + MaxInt64 ns), sweep against two threads, whole-table operations against a multi-key writer on tables of 1024 / 1025 / 2048 / 2049 (thorough: up to 8193) entries, plus seeded random programs (2-3 threads x 1-3 operations, 1-2 keys). "
                       "For EVERY program ALL interleavings at critical-section granularity are executed on the real code "
                       "(cooperative scheduler through a build overlay of the mutex; capped per random program, truncations "
                       "counted in the histogram). evaluations = schedules executed + stress rounds. A history is non-trivial when "
                       ">= 2 threads touch one key with >= 1 write; distinct = by history text (judge side). "
                       "traces_validated_against_impl = schedules whose history the Lean step model reproduces token by token.")
    ctx.assumptions += [
        "the overlay replaces only the token sync.RWMutex in pkg/sync/map.go by a cooperative mutex; everything else is the working-tree source",
        "Go map iteration yields only entries that are in the map at that moment (order and skipping are oracle choices of the model)",
        "a method reads time.Now() in the same atomic step as the critical section next to it",
    ]
    return common.finish(ctx)


def replay(ctx, rep):
    art = common.standard_prepare(ctx, MODULES, hx=False, test=True, generated=["SyncShape.lean", "SyncCallSites.lean"])
    coop = build_coop(ctx)
    lines = rep.get("input") or []
    if not lines or not coop:
        print("replay file names no failing input:", rep.get("no_longer_checks"))
        return 1
    bad = 0
    for l in lines:
        # a program on a grown table: which of the writer's keys an iteration meets before / after a given point is Go's choice
        # (map iteration order is random per map object), so one schedule is executed up to 16 times
        tries = 16 if ":fill:" in l or "=fill:" in l else 1
        for attempt in range(tries):
            out = run_harness(ctx, coop, "TestC14", [l], "replay") or []
            found = False
            for o in out:
                if not o.startswith("sched "):
                    continue
                j = drive(art["driver"], "judge", [o])
                ok = bool(j) and j[0] == "lin ok"
                if not ok or attempt == tries - 1:
                    print("input : %s\nimpl  : %s\njudge : %s%s" % (l, o, j[0] if j else None,
                                                                    "  (execution %d of %d)" % (attempt + 1, tries) if tries > 1 else ""))
                if not ok:
                    bad += 1
                    found = True
            if found:
                break
    if bad:
        print("VIOLATION property=C14 replay=(replayed) still reproduces")
    return 1 if bad else 0
