"""C15 — option list and message builder behave like a sorted multiset (DESIGN.md §5 C15).

Proof: lean/CoapVerif/Props/C15.lean over Model/Options.lean, Model/OptionValues.lean, Model/PoolOptions.lean
       (header/array option list, value views into a heap of buffers, the pooled message's value-buffer cursor).
Tie:   T — constants (maxPathValue, EncodeUint32 thresholds, option numbers, valueBufferSize, NewMessage
           capacities) are regenerated from /repo into Generated/OptionList.lean on every run;
       X — operation sequences executed step by step on the real message.Options / pool.Message (harness/c15),
           on the model (drv_c15 model) and judged on the whole history by the sorted-multiset specification
           (drv_c15 judge): after every operation the whole option list and the return values are compared.
Sequences: exhaustive up to length 3 (thorough: 4) over {add,set,remove} x three option numbers for every initial
capacity 0..4 (raw) / 0,1,16 (pool), each followed by the full query battery (find/has/single and multi getters
with result sizes count-1, count, count+1, count+4, path, queries, content format); seeded random sequences over
all operations with value lengths around the 256-byte inline buffer and paths with empty and 255/256-byte
segments; targeted path edits on objects that already carry a path when the buffer must grow or the path is refused;
resets of an object to (a subset / permutation of) its own options after setters called in non-ascending number order
(`resetself`: the sources are views into the object's own value buffer); received messages (`recv`: a datagram
unmarshalled into a message from the pool — values are sub-slices of the unmarshal buffer — and then edited past the
first growth of the value buffer; Model/PoolOptionsReceive.lean, Props/C15Receive.lean).
"""
import concurrent.futures as cf
import glob
import hashlib
import itertools
import json
import os
import random

from . import common

MODULES = ["CoapVerif.Props.C15", "CoapVerif.Props.C15Receive", "CoapVerif.Findings.C15"]
GENERATED = ["OptionList.lean", "OptionListShape.lean"]
EDITS = {"set", "add", "setstr", "addstr", "setu32", "addu32", "remove", "setpath", "setloc", "addquery", "resetto",
         "resetself", "resetslice", "setresp", "recycle", "recv", "clone", "swap", "reset"}
IDS_SMALL = [8, 11, 15]
IDS_WIDE = [0, 1, 3, 4, 6, 8, 11, 12, 14, 15, 17, 20, 23, 35, 60, 258, 65535]


def hx(b):
    return b.hex() if b else "-"


# ---------------------------------------------------------------- query battery

def battery(ids, counts):
    """Queries that probe every getter at every id of interest; counts: id -> number of options with that id."""
    L = []
    probe = sorted(set(ids) | {min(65535, i + 1) for i in ids} | {max(0, i - 1) for i in ids})
    for i in probe:
        L.append("find %d" % i)
        L.append("has %d" % i)
    for i in sorted(set(ids)):
        c = counts.get(i, 0)
        L += ["getu32 %d" % i, "getstr %d" % i, "getbytes %d" % i]
        for n in sorted({max(0, c - 1), c, c + 1, c + 4, 0}):
            L += ["getu32s %d %d" % (i, n), "getstrs %d %d" % (i, n), "getbytess %d %d" % (i, n)]
    L += ["path", "locpath", "queries", "cf"]
    return L


class Ref:
    """Id-level bookkeeping for the generators (which ids are present, how often); not a judge."""

    def __init__(self):
        self.ids = []

    def apply(self, line):
        f = line.split()
        op = f[0]
        if op in ("add", "addstr", "addu32"):
            self.ids.append(int(f[1]))
        elif op in ("set", "setstr", "setu32"):
            self.ids = [i for i in self.ids if i != int(f[1])] + [int(f[1])]
        elif op == "remove":
            self.ids = [i for i in self.ids if i != int(f[1])]
        elif op in ("setpath", "setloc"):
            oid = 11 if op == "setpath" else 8
            p = bytes.fromhex(f[1]) if f[1] != "-" else b""
            if p:
                segs = [s for s in p.split(b"/") if s]
                if all(len(s) <= 255 for s in segs):
                    self.ids = [i for i in self.ids if i != oid] + [oid] * len(segs)
        elif op == "addquery":
            self.ids.append(15)
        elif op in ("resetto", "recv"):
            self.ids = [int(x.split(":")[0]) for x in f[2:]]
        elif op == "resetself":
            if self.ids:
                cur = sorted(self.ids)
                self.ids = [cur[int(x) % len(cur)] for x in f[1:]]
        elif op == "resetslice":
            cur = sorted(self.ids)
            k = int(f[1]) % (len(cur) + 1)
            n = int(f[2]) % (len(cur) - k + 1)
            self.ids = cur[k:k + n]
        elif op == "setresp":
            self.ids = [int(x.split(":")[0]) for x in f[5:]] + ([12] if f[3] == "1" else [])
        elif op in ("reset", "recycle"):
            self.ids = []

    def counts(self):
        c = {}
        for i in self.ids:
            c[i] = c.get(i, 0) + 1
        return c


# ---------------------------------------------------------------- generators (each returns a list of sequences)

def exhaustive(lengths, raw_caps, pool_caps, batch=4000):
    """Yields batches of sequences: every op sequence of the given lengths over {add,set,remove} x IDS_SMALL."""
    ops = [(v, i) for v in ("add", "set", "remove") for i in IDS_SMALL]
    seqs = []
    for n in lengths:
        for combo in itertools.product(ops, repeat=n):
            body = []
            ref = Ref()
            for k, (v, i) in enumerate(combo):
                if v == "remove":
                    line = "remove %d" % i
                else:
                    line = "%s %d %s" % (v, i, hx(bytes([16 * (k + 1) + IDS_SMALL.index(i)]) * (1 + k % 2)))
                ref.apply(line)
                body.append(line)
            bat = battery(IDS_SMALL, ref.counts())
            for c in raw_caps:
                seqs.append(["new raw %d 64" % c] + body + bat)
            for c in pool_caps:
                seqs.append(["new pool %d" % c] + body + bat)
            if len(seqs) >= batch:
                yield seqs
                seqs = []
    if seqs:
        yield seqs


def rand_value(rng):
    k = rng.random()
    if k < 0.55:
        n = rng.choice([0, 1, 1, 2, 2, 3, 4, 5, 8])
    elif k < 0.85:
        n = rng.choice([120, 200, 250, 254, 255, 256, 257, 258, 260])
    else:
        n = rng.choice([300, 511, 512, 600, 1000])
    return bytes(rng.randrange(256) for _ in range(min(n, 4))) + bytes([rng.randrange(256)]) * max(0, n - 4)


def rand_path(rng):
    k = rng.random()
    if k < 0.12:
        return rng.choice([b"", b"/", b"//", b"///"])
    segs = []
    for _ in range(rng.choice([1, 1, 2, 2, 3, 4, 6])):
        j = rng.random()
        if j < 0.15:
            segs.append(b"")
        elif j < 0.7:
            segs.append(bytes(rng.choice(b"abcxyz019-._~") for _ in range(rng.choice([1, 1, 2, 3, 5, 9]))))
        elif j < 0.9:
            segs.append(bytes([rng.choice(b"pqrs")]) * rng.choice([100, 200, 250, 254, 255]))
        else:
            segs.append(bytes([rng.choice(b"PQRS")]) * rng.choice([256, 256, 257, 300]))
    p = b"/".join(segs)
    if rng.random() < 0.7:
        p = b"/" + p
    if rng.random() < 0.2:
        p = p + b"/"
    return p


def rand_edit(rng, ref, pool, ids):
    present = sorted(set(ref.ids))
    pick = (lambda: rng.choice(present)) if present and rng.random() < 0.6 else (lambda: rng.choice(ids))
    k = rng.random()
    if k < 0.22:
        return "%s %d %s" % (rng.choice(["add", "addstr"]), pick(), hx(rand_value(rng)))
    if k < 0.40:
        return "%s %d %s" % (rng.choice(["set", "setstr"]), pick(), hx(rand_value(rng)))
    if k < 0.50:
        v = rng.choice([0, 1, 255, 256, 65535, 65536, 16777215, 16777216, 4294967295, rng.randrange(1 << 32), rng.randrange(70000)])
        return "%s %d %d" % (rng.choice(["setu32", "addu32"]), pick(), v)
    if k < 0.62:
        return "remove %d" % pick()
    if k < 0.78:
        return "setpath %s" % hx(rand_path(rng))
    if k < 0.82:
        return "addquery %s" % hx(rand_value(rng))
    if k < 0.86 and not pool:
        return "setloc %s" % hx(rand_path(rng))
    if k < 0.91:
        n = rng.choice([0, 1, 2, 3, 5, 8])
        return "resetto %d %s" % (n, " ".join("%d:%s" % (rng.choice(ids), hx(rand_value(rng))) for _ in range(n)))
    if k < 0.925:
        n = len(ref.ids)
        if n == 0:
            return "resetself"
        j = rng.random()
        if j < 0.3:
            idx = list(range(n))                                   # the whole own list
        elif j < 0.6:
            idx = [i for i in range(n) if rng.random() < 0.7]      # a filtered copy ("everything but …")
        else:
            idx = [rng.randrange(n + 2) for _ in range(rng.choice([1, 2, 3, n]))]   # permutation / repetition
            rng.shuffle(idx)
        if rng.random() < 0.35:
            return "resetslice %d %d" % (rng.randrange(n + 1), rng.randrange(n + 2))
        return "resetself " + " ".join(map(str, idx))
    if pool and k < 0.932:
        j = rng.random()
        if j < 0.3:
            items = [(rng.choice(ids), rand_value(rng)[:rng.choice([0, 1, 3, 8])]) for _ in range(rng.choice([0, 0, 1, 2, 4]))]
            return ("setresp %d %d %d %d %s" % (rng.choice([65, 69, 132]), rng.choice([0, 50, 65535]), rng.choice([0, 1]), len(items),
                                               " ".join("%d:%s" % (i, hx(v)) for i, v in items))).rstrip()
        if j < 0.45:
            items = [(rng.choice(ids + [6]), rand_value(rng)[:rng.choice([0, 1, 3])]) for _ in range(rng.choice([0, 1, 2, 3]))]
            return ("build %s %s %d %d %d %d %s" % (rng.choice(["get", "post", "put", "delete", "observe", "observe"]), hx(rand_path(rng)),
                                                   rng.choice([0, 50]), rng.choice([0, 1]), rng.choice([0, 1, 3]), len(items),
                                                   " ".join("%d:%s" % (i, hx(v)) for i, v in items))).rstrip()
        if j < 0.55:
            return "notify %s" % hx(rand_value(rng)[:rng.choice([0, 1, 3, 8])])
        return rng.choice(["setu32 6 0", "observe", "observe", "recycle", "obsopts", "obsreq", "obscancel"])
    if k < 0.94:
        return "clone"
    if k < 0.97:
        return "swap"
    if k < 0.985:
        return "reset"
    return "remove %d" % pick()


def rand_query(rng, ref, ids):
    present = sorted(set(ref.ids))
    i = rng.choice(present) if present and rng.random() < 0.75 else rng.choice(ids)
    c = ref.counts().get(i, 0)
    k = rng.random()
    if k < 0.45:
        return "%s %d %d" % (rng.choice(["getu32s", "getstrs", "getbytess"]), i, rng.choice([max(0, c - 1), c, c, c + 1, c + 3, 0]))
    if k < 0.6:
        return "%s %d" % (rng.choice(["getu32", "getstr", "getbytes"]), i)
    if k < 0.75:
        return "%s %d" % (rng.choice(["find", "has"]), rng.choice([i, min(65535, i + 1), max(0, i - 1)]))
    return rng.choice(["path", "path", "queries", "locpath", "cf"])


def random_seqs(rng, count, length):
    seqs = []
    for _ in range(count):
        pool = rng.random() < 0.5
        ids = IDS_WIDE if rng.random() < 0.5 else [8, 11, 12, 15, 35]
        if pool:
            seq = ["new pool %d" % rng.choice([0, 1, 2, 3, 4, 8, 16, 16, 16, 17, 40])]
        else:
            seq = ["new raw %d %d" % (rng.choice([0, 1, 2, 3, 4, 5, 8, 16, 20]), rng.choice([0, 8, 64, 300, 300, 600, 2000, 4000]))]
        # ref bookkeeping follows the current object only approximately across clone/swap; good enough for picking ids
        ref = Ref()
        for _ in range(rng.randrange(3, length)):
            e = rand_edit(rng, ref, pool, ids)
            ref.apply(e)
            seq.append(e)
            for _ in range(rng.choice([0, 1, 1, 2, 3])):
                seq.append(rand_query(rng, ref, ids))
        seq += battery(sorted(set(ref.ids))[:4] or [11], ref.counts())
        seqs.append(seq)
    return seqs


def path_edit_seqs(rng, count):
    """Decisive for F19: a path edit on an object that already carries a path, when the value buffer must grow or
    the new path is refused; with options after the path so that a half-done removal is visible."""
    seqs = []
    for _ in range(count):
        pool = rng.random() < 0.6
        verb, oid = ("setpath", 11) if pool or rng.random() < 0.7 else ("setloc", 8)
        bufsize = rng.choice([8, 16, 64, 300])
        seq = ["new pool %d" % rng.choice([0, 2, 4, 16])] if pool else ["new raw %d %d" % (rng.choice([0, 2, 4, 8]), bufsize)]
        first = b"/" + b"/".join(bytes([rng.choice(b"abc")]) * rng.choice([1, 2, 3]) for _ in range(rng.choice([1, 2, 3])))
        seq.append("%s %s" % (verb, hx(first)))
        for _ in range(rng.choice([1, 2, 3])):
            seq.append("%s %d %s" % (rng.choice(["add", "set"]), rng.choice([12, 15, 15, 35, 60, 3, 4]), hx(bytes([rng.randrange(256)]) * rng.choice([1, 2]))))
        if pool and rng.random() < 0.7:
            # eat most of the 256-byte inline buffer
            seq.append("add 60 %s" % hx(b"f" * rng.choice([200, 230, 240, 249])))
        k = rng.random()
        if k < 0.45:   # must grow / does not fit
            second = b"/" + b"/".join(bytes([rng.choice(b"xyz")]) * rng.choice([5, 20, 60, 100, 255]) for _ in range(rng.choice([1, 2, 3])))
        elif k < 0.8:  # refused
            segs = [bytes([rng.choice(b"xyz")]) * rng.choice([1, 3, 255]) for _ in range(rng.choice([0, 1, 2]))]
            segs.insert(rng.randrange(len(segs) + 1), b"L" * rng.choice([256, 257, 400]))
            second = b"/" + b"/".join(segs)
        else:
            second = rand_path(rng)
        seq.append("%s %s" % (verb, hx(second)))
        seq += ["path", "locpath", "find %d" % oid, "queries", "getstrs %d 8" % oid, "cf", "find 15", "find 35"]
        seq.append("%s %s" % (verb, hx(b"/k/l")))
        seq += ["path", "locpath"]
        seqs.append(seq)
    return seqs


def resetself_seqs(rng, count):
    """Aliasing: values stored in an order different from option-number order (typed setters after SetPath, queries
    before the path, …) with assorted lengths, then the object is reset to (a subset / permutation of) ITS OWN options —
    the sources of the copies are views into the object's own value buffer."""
    seqs = []
    for _ in range(count):
        pool = rng.random() < 0.7
        seq = ["new pool %d" % rng.choice([0, 1, 2, 4, 16, 16])] if pool else \
            ["new raw %d %d" % (rng.choice([0, 1, 2, 4, 8]), rng.choice([64, 300, 600, 2000]))]
        ref = Ref()
        ids = rng.sample([1, 3, 4, 6, 8, 11, 12, 14, 15, 17, 20, 35, 60], rng.choice([2, 3, 4, 5, 6]))
        ids.sort(reverse=rng.random() < 0.7)
        if rng.random() < 0.4:
            rng.shuffle(ids)
        for i in ids:
            ln = rng.choice([1, 2, 3, 5, 8, 10, 17, 40, 100, 250])
            val = bytes(rng.randrange(1, 256) for _ in range(ln))
            k = rng.random()
            if i == 11 and k < 0.6:
                e = "setpath %s" % hx(b"/" + b"/".join(bytes(rng.choice(b"abcdefgh") for _ in range(rng.choice([1, 3, 6]))) for _ in range(rng.choice([1, 2, 3]))))
            elif i == 15 and k < 0.5:
                e = "addquery %s" % hx(val)
            elif k < 0.25:
                e = "setu32 %d %d" % (i, rng.choice([42, 300, 70000, 1 << 30]))
            else:
                e = "%s %d %s" % (rng.choice(["set", "add", "setstr", "addstr"]), i, hx(val))
            ref.apply(e)
            seq.append(e)
            if rng.random() < 0.3:
                e = "%s %d %s" % (rng.choice(["add", "addstr"]), i, hx(bytes(rng.randrange(256) for _ in range(rng.choice([1, 4, 9])))))
                ref.apply(e)
                seq.append(e)
        for _ in range(rng.choice([1, 1, 2, 3])):
            n = len(ref.ids)
            j = rng.random()
            if j < 0.35:
                idx = list(range(n))
            elif j < 0.7:
                idx = [i for i in range(n) if rng.random() < 0.75]
            else:
                idx = rng.sample(range(n), rng.randrange(1, n + 1)) if n else []
            e = "resetself " + " ".join(map(str, idx))
            if rng.random() < 0.3:
                e = "resetslice %d %d" % (rng.randrange(n + 1), rng.randrange(n + 2))   # true sub-slice of the own array
            ref.apply(e)
            seq.append(e)
            seq += ["path", "queries", "cf"]
            if rng.random() < 0.5:
                e = "%s %d %s" % (rng.choice(["set", "add"]), rng.choice(ids), hx(bytes(rng.randrange(256) for _ in range(rng.choice([1, 6, 30])))))
                ref.apply(e)
                seq.append(e)
        seq += battery(sorted(set(ref.ids))[:4] or [11], ref.counts())
        seqs.append(seq)
    return seqs


SIZES = [11, 12, 13, 14, 15, 16, 17, 20, 24, 32, 33, 40]


def big_items(rng, n, sorted_=False):
    """n options, not ordered by number, with runs of repeated numbers and distinct values (so that the relative order of
    equal numbers is visible)."""
    ids = []
    pool_ids = rng.sample([1, 4, 8, 11, 11, 15, 15, 17, 20, 35, 60], rng.choice([2, 3, 4, 5]))
    while len(ids) < n:
        ids += [rng.choice(pool_ids)] * rng.choice([1, 1, 2, 3, 5, 7])
    ids = ids[:n]
    if sorted_:
        ids.sort()
    elif ids == sorted(ids):
        ids[0], ids[-1] = ids[-1], ids[0]
        if ids == sorted(ids):
            ids = [60] + ids[:-1]
    return [(i, bytes([k + 1]) * rng.choice([1, 1, 2, 3])) for k, i in enumerate(ids)]


def size_boundary_seqs(rng, reps):
    """Deterministic sweep over the list sizes at which an algorithm may switch (Go's pdqsort: insertion sort up to 12
    elements; binary search depth; option capacity 16 of NewMessage; 256-byte value buffer): ResetOptionsTo / Clone /
    reset-to-own-options with 11..40 unordered entries with repeated numbers, and Add/Set/Remove/SetPath on lists of those
    sizes, each followed by the query battery."""
    seqs = []
    for n in SIZES:
        for rep in range(reps):
            for kind in ("pool", "raw"):
                cap = rng.choice([0, 4, 12, 13, 16, 16, 40])
                new = "new pool %d" % cap if kind == "pool" else "new raw %d %d" % (cap, rng.choice([600, 4000]))
                items = big_items(rng, n)
                fmt = lambda its: " ".join("%d:%s" % (i, hx(v)) for i, v in its)
                ids = sorted({i for i, _ in items})[:4]
                cnt = {}
                for i, _ in items:
                    cnt[i] = cnt.get(i, 0) + 1
                # (a) reset to an unordered list with repeats, read everything back, clone it, reset to own permutation
                seq = [new, "resetto %d %s" % (n, fmt(items))] + battery(ids, cnt)
                perm = list(range(n))
                rng.shuffle(perm)
                seq += ["clone", "path", "queries", "resetself " + " ".join(map(str, perm)), "path", "queries",
                        "resetslice %d %d" % (rng.randrange(3), n), "path", "queries",
                        "getstrs %d %d" % (ids[0], n), "getbytess %d %d" % (ids[-1], n)]
                seqs.append(seq)
                # (b) build the list of n entries with Add in unordered order, then edit around it
                seq = [new] + ["add %d %s" % (i, hx(v)) for i, v in items]
                seq += ["path", "queries"]
                for _ in range(3):
                    i = rng.choice(ids + [rng.choice([0, 9, 12, 16, 61])])
                    seq.append(rng.choice(["add %d %s" % (i, hx(bytes([200 + rep]))), "set %d %s" % (i, hx(bytes([220 + rep]))),
                                           "remove %d" % i, "setpath %s" % hx(b"/p/q/r"), "addquery %s" % hx(b"z=1")]))
                    seq += ["find %d" % i, "getstrs %d %d" % (i, n + 1)]
                ref = Ref()
                for l in seq[1:]:
                    if l.split()[0] in EDITS:
                        ref.apply(l)
                seq += battery(sorted(set(ref.ids))[:4] or [11], ref.counts())
                seqs.append(seq)
        # (c) a path with n segments and n queries set in one go (repeated numbers only), then reset-to of a shuffled copy
        segs = [bytes([97 + k % 26]) * (1 + k % 3) for k in range(n)]
        mixed = [(11, sg) for sg in segs] + [(15, bytes([48 + k % 10, 61, 65 + k % 26])) for k in range(n // 2)]
        rng.shuffle(mixed)
        seqs.append(["new pool 16", "resetto %d %s" % (len(mixed), " ".join("%d:%s" % (i, hx(v)) for i, v in mixed)),
                     "path", "queries", "getstrs 11 %d" % n, "getstrs 15 %d" % n, "clone", "path", "queries"])
    # value-buffer boundary: total stored bytes 255 / 256 / 257 / 258 in one and in several values
    for total in (254, 255, 256, 257, 258, 511, 512, 513):
        for parts in (1, 2, 5):
            base = total // parts
            lens = [base] * (parts - 1) + [total - base * (parts - 1)]
            seq = ["new pool 16"] + ["add %d %s" % (20 + k, hx(bytes([65 + k]) * ln)) for k, ln in enumerate(lens)]
            seq += ["add 60 aa", "getbytes 20", "getbytes 60", "resetself " + " ".join(str(i) for i in reversed(range(parts + 1))),
                    "getbytes 20", "getbytes 60", "setpath %s" % hx(b"/" + b"s" * 200), "getbytes 20", "path"]
            seqs.append(seq)
    return seqs


# options a datagram can legitimately carry: number -> (min, max) length of the value (RFC 7252 table 4, RFC 7641, RFC 7959,
# RFC 7967); numbers the registry does not know (2049, 65000) carry anything
WIRE_LEN = {1: (0, 8), 3: (1, 255), 4: (1, 8), 6: (0, 3), 8: (0, 255), 11: (0, 255), 12: (0, 2), 14: (0, 4), 15: (0, 255),
            17: (0, 2), 20: (0, 255), 35: (1, 1034), 60: (0, 4), 258: (0, 1), 2049: (0, 600), 65000: (0, 300)}


def wire_items(rng, n, ids=None):
    """n options in wire order (ascending numbers, repeats allowed) with lengths legal for their numbers."""
    ids = ids or sorted(WIRE_LEN)
    chosen = sorted(rng.choice(ids) for _ in range(n))
    out = []
    for k, i in enumerate(chosen):
        lo, hi = WIRE_LEN[i]
        ln = rng.choice([lo, lo, 1, 1, 2, 3, 5, 8, 12, hi if hi <= 255 else 300, hi])
        ln = max(lo, min(hi, ln))
        out.append((i, bytes([33 + (k * 7) % 90]) * ln))
    return out


def fmt_items(its):
    return " ".join("%d:%s" % (i, hx(v)) for i, v in its)


def received_seqs(rng, count):
    """A message that was RECEIVED (a datagram unmarshalled into a message from the pool: its option values are sub-slices
    of the message's unmarshal buffer) and is then edited — a handler / proxy that annotates a request before passing it on.
    Part 1, deterministic: for three datagrams x the number of value-buffer bytes already used (0..256) x the size of the
    value that makes the 256-byte value buffer grow for the first time (1 byte .. 1034 bytes: growths that stay below
    2x/3x the inline size as well as large ones) x the editing entrance; then a second growth, a clone and a look back at
    the source.  Part 2, random: datagrams of 0..6 (sometimes 16/17/33: the decoder's option array restarts) options, random
    edits and queries, sometimes a second datagram into the same message."""
    seqs = []
    demo = [(11, b"sensors"), (11, b"temperature"), (15, b"unit=celsius")]
    one = [(11, b"s" * 255)]
    many = wire_items(rng, 17, [4, 6, 8, 11, 11, 12, 15, 15, 17, 20, 60])
    for wire in (demo, one, many):
        n = len(wire)
        for pre in (0, 3, 200, 203, 255, 256):
            for need in (1, 53, 54, 100, 255, 256, 257, 300, 500, 511, 512, 513, 768, 1034):
                for how in ("addstr", "add", "setstr35", "setpath", "resetself"):
                    seq = ["new pool %d" % rng.choice([16, 16, 0, 1, 40]), "recv %d %s" % (n, fmt_items(wire))]
                    if pre:
                        seq.append("add 2049 %s" % hx(b"p" * pre))
                    fill = bytes([65 + (pre + need) % 26])
                    if how == "addstr":
                        seq += ["addstr 15 %s" % hx(fill * min(need, 255))] + (["addstr 20 %s" % hx(fill * (need - 255))] if need > 255 else [])
                    elif how == "add":
                        seq.append("add 35 %s" % hx(fill * need))
                    elif how == "setstr35":
                        seq.append("setstr 35 %s" % hx(fill * need))
                    elif how == "setpath":
                        segs, left = [], need
                        while left > 0:
                            segs.append(fill * min(left, 255))
                            left -= 255
                        seq.append("setpath %s" % hx(b"/" + b"/".join(segs)))
                    else:
                        # the message is reset to its own options (received values copied into the value buffer), then grows
                        seq += ["resetself " + " ".join(str(i) for i in range(n + (1 if pre else 0))), "add 35 %s" % hx(fill * need)]
                    seq += ["path", "queries", "getstrs 11 %d" % (n + 3), "getbytes 35",
                            "addquery %s" % hx(b"z" * 250), "addquery %s" % hx(b"w" * 120), "path", "queries",
                            "clone", "path", "queries", "swap", "path", "queries"]
                    seqs.append(seq)
    for _ in range(count):
        ids = IDS_WIDE if rng.random() < 0.4 else [8, 11, 12, 15, 35]
        seq = ["new pool %d" % rng.choice([0, 1, 2, 4, 8, 16, 16, 16, 17, 40])]
        ref = Ref()
        for _ in range(rng.choice([0, 0, 1, 3])):          # the message had a life before it was taken for receiving
            e = rand_edit(rng, ref, True, ids)
            ref.apply(e)
            seq.append(e)
        rounds = rng.choice([1, 1, 1, 2, 3])
        for _ in range(rounds):
            n = rng.choice([0, 1, 2, 3, 3, 4, 6, 16, 17, 33])
            e = ("recv %d %s" % (n, fmt_items(wire_items(rng, n)))).rstrip()
            ref.apply(e)
            seq.append(e)
            for _ in range(rng.randrange(2, 12)):
                e = rand_edit(rng, ref, True, ids)
                ref.apply(e)
                seq.append(e)
                for _ in range(rng.choice([0, 1, 1, 2])):
                    seq.append(rand_query(rng, ref, ids))
        seq += battery(sorted(set(ref.ids))[:4] or [11], ref.counts())
        seqs.append(seq)
    return seqs


def glue_seqs(rng, count):
    """The library's own users of the option list: ResponseWriter.SetResponse sequences on one writer (a later SetResponse
    without options must clear what an earlier one / Message() edits left), and an observation that keeps the options of
    its registration request while the request message goes back to the pool and is reused with other values."""
    seqs = []
    resp_ids = [4, 4, 8, 8, 14, 15, 20, 28, 60]
    for n in range(count):
        seq = ["new pool %d" % rng.choice([0, 2, 16, 16, 16])]
        if n % 2 == 0:
            # ---- response writer
            for _ in range(rng.choice([2, 2, 3, 4])):
                k = rng.random()
                if k < 0.25:
                    seq.append("%s %d %s" % (rng.choice(["set", "add", "setstr"]), rng.choice(resp_ids), hx(rand_value(rng)[:rng.choice([1, 4, 8])])))
                items = [(rng.choice(resp_ids), bytes(rng.randrange(256) for _ in range(rng.choice([0, 1, 2, 4, 8]))))
                         for _ in range(rng.choice([0, 0, 1, 2, 3, 5]))]
                code = rng.choice([65, 68, 69, 128, 132, 133, 160])
                body = rng.choice([0, 0, 1])
                seq.append("setresp %d %d %d %d %s" % (code, rng.choice([0, 40, 50, 60, 10000, 65535]), body, len(items),
                                                       " ".join("%d:%s" % (i, hx(v)) for i, v in items)))
                seq[-1] = seq[-1].rstrip()
                seq += ["cf", "find 4", "getbytess 8 3", "locpath", "queries"]
            # the decisive shape: options present, then SetResponse without options (and without body)
            seq.append("setresp 132 0 0 0")
            seq += ["find 4", "find 8", "find 12", "find 14", "cf", "locpath"]
        else:
            # ---- observation
            ref = Ref()
            pre = ["setpath %s" % hx(b"/" + b"/".join(bytes(rng.choice(b"abcdefgh") for _ in range(rng.choice([1, 3, 7, 11]))) for _ in range(rng.choice([1, 2, 3])))),
                   "addquery %s" % hx(bytes(rng.choice(b"qrstuv=") for _ in range(rng.choice([3, 8, 12])))),
                   "%s %d %s" % (rng.choice(["set", "add"]), rng.choice([4, 17, 35, 60]), hx(bytes(rng.randrange(256) for _ in range(rng.choice([1, 2, 6])))))]
            rng.shuffle(pre)
            k = rng.random()
            reg = "setu32 6 0" if k < 0.8 else rng.choice(["setu32 6 5", "remove 6", "set 6 0000"])
            pre.insert(rng.randrange(len(pre) + 1), reg)
            seq += pre + ["observe", "obsopts", "obsreq"]
            # the request message goes back to the pool and serves another request with other values
            seq.append(rng.choice(["recycle", "recycle", "reset"]))
            post = ["setpath %s" % hx(b"/" + b"/".join(bytes(rng.choice(b"RSTUVWXYZ") for _ in range(rng.choice([2, 5, 9, 20]))) for _ in range(rng.choice([1, 2, 4])))),
                    "addquery %s" % hx(bytes(rng.choice(b"0123456789&") for _ in range(rng.choice([2, 9, 15])))),
                    "setu32 %d %d" % (rng.choice([12, 14, 17]), rng.randrange(1 << 20))]
            rng.shuffle(post)
            seq += post[:rng.choice([1, 2, 3])]
            seq += ["obsopts", "obsreq", "path", "obscancel", "obsreq", "obsopts", "obscancel"]
        seqs.append(seq)
    # ---- request builders of the generic client, driven with caller-owned option slices (spare capacity, a sibling slice
    # over the same array, an Observe option among the caller's options), and notifications with ETags of different
    # lengths before the deregistration
    for n in range(count // 2):
        seq = ["new pool 16"]
        for _ in range(rng.choice([2, 3, 4])):
            kind = rng.choice(["get", "post", "put", "delete", "observe", "observe", "observe"])
            items = [(rng.choice([4, 6, 6, 12, 14, 15, 15, 17, 35, 60]), bytes(rng.randrange(256) for _ in range(rng.choice([0, 1, 2, 5]))))
                     for _ in range(rng.choice([0, 1, 2, 3, 5]))]
            path = rand_path(rng) if rng.random() < 0.8 else b"/" + b"s" * rng.choice([255, 256])
            seq.append(("build %s %s %d %d %d %d %s" % (kind, hx(path), rng.choice([0, 50, 60, 65535]), rng.choice([0, 1]),
                                                      rng.choice([0, 0, 1, 2, 5]), len(items),
                                                      " ".join("%d:%s" % (i, hx(v)) for i, v in items))).rstrip())
        seq += ["setpath %s" % hx(b"/obs/" + bytes(rng.choice(b"abc") for _ in range(3))), "setu32 6 0", "observe"]
        lens = rng.sample([1, 2, 3, 4, 5, 6, 7, 8], rng.choice([2, 3, 4]))
        if rng.random() < 0.6:
            lens.sort(reverse=True)          # longer, then shorter
        for ln in lens:
            seq.append("notify %s" % hx(bytes(rng.randrange(1, 256) for _ in range(ln))))
            if rng.random() < 0.2:
                seq.append("notify -")
        seq += ["obsopts", "obscancel", "obsreq", "notify 01"]
        seqs.append(seq)
    return seqs


def corpus_seqs():
    out = []
    for p in sorted(glob.glob(os.path.join(common.VERIF, "corpus", "C15", "*.json"))):
        try:
            out.append(list(json.load(open(p))["input"]))
        except Exception:
            pass
    return out


# ---------------------------------------------------------------- execution

def run_part(art, lines):
    """(impl, model, judge) outputs for a list of lines holding whole sequences."""
    rc, impl, err = common.pipe_lines([art["hx"]], lines)
    if rc != 0 or len(impl) != len(lines):
        return None, None, None, "harness rc=%d lines %d/%d %s" % (rc, len(impl), len(lines), err[-300:])
    model = judge = None
    if art.get("driver"):
        rc1, model, e1 = common.pipe_lines([art["driver"], "model"], lines)
        rc2, judge, e2 = common.pipe_lines([art["driver"], "judge"], [l + " | " + o for l, o in zip(lines, impl)])
        if rc1 != 0 or len(model) != len(lines):
            model = None
        if rc2 != 0 or len(judge) != len(lines):
            judge = None
    return impl, model, judge, None


def run_seqs(ctx, art, seqs, par):
    """Runs sequences (chunked, in parallel). Returns list of (seq, impl, model, judge) per sequence."""
    if not seqs:
        return []
    par = max(1, min(par, len(seqs)))
    chunks = [seqs[i::par] for i in range(par)]

    def work(chunk):
        lines = [l for s in chunk for l in s]
        impl, model, judge, err = run_part(art, lines)
        return chunk, impl, model, judge, err

    out = []
    with cf.ThreadPoolExecutor(par) as ex:
        for chunk, impl, model, judge, err in ex.map(work, chunks):
            if impl is None:
                ctx.broken.append(("correspondence", "C15 harness run failed", err or ""))
                continue
            if model is None or judge is None:
                ctx.broken.append(("model", "C15 driver run failed", ""))
            k = 0
            for s in chunk:
                n = len(s)
                out.append((s, impl[k:k + n], model[k:k + n] if model else None, judge[k:k + n] if judge else None))
                k += n
    return out


def clause_of(verdict):
    # "violates <clause>: text"
    return verdict.split()[1].rstrip(":") if verdict.startswith("violates") and len(verdict.split()) > 1 else "judge"


def first_violation(seq, impl, judge):
    for i, (l, o) in enumerate(zip(seq, impl)):
        if o == "bad-op" or o == "dead":
            return i, "harness", "harness answered %s" % o
        if judge is not None and judge[i] != "ok":
            return i, clause_of(judge[i]), judge[i]
        if judge is None and o.startswith("panic"):
            return i, "no-crash", "the operation panicked"
    return None


def still_fails(art, cand, clause):
    impl, _, judge, err = run_part(art, cand)
    if impl is None or judge is None:
        return False
    v = first_violation(cand, impl, judge)
    return v is not None and v[0] == len(cand) - 1 and v[1] == clause


def minimise(art, prefix, clause, budget=60):
    """Greedy one-at-a-time deletion keeping the violation (same clause) on the last line."""
    cur = list(prefix)
    i = len(cur) - 2
    while i >= 1 and budget > 0:
        cand = cur[:i] + cur[i + 1:]
        budget -= 1
        if still_fails(art, cand, clause):
            cur = cand
        i -= 1
    return cur


def consumed(line):
    """Bytes of value buffer an editing line needs (for the 'forces buffer growth' part of the non-triviality rule)."""
    f = line.split()
    if f[0] in ("set", "add", "setstr", "addstr", "addquery"):
        h = f[-1]
        return 0 if h == "-" else len(h) // 2
    if f[0] in ("setu32", "addu32"):
        v = int(f[2])
        return 0 if v == 0 else 1 if v < 256 else 2 if v < 65536 else 3 if v < (1 << 24) else 4
    if f[0] in ("setpath", "setloc"):
        p = bytes.fromhex(f[1]) if f[1] != "-" else b""
        return sum(len(s) for s in p.split(b"/"))
    if f[0] == "resetto":
        return sum(0 if x.split(":")[1] == "-" else len(x.split(":")[1]) // 2 for x in f[2:])
    return 0


def nontrivial(seq, impl):
    edits = [l.split() for l in seq if l.split()[0] in EDITS and l.split()[0] not in ("clone", "swap", "reset")]
    ids = set()
    for f in edits:
        if f[0] in ("setpath",):
            ids.add("11")
        elif f[0] == "setloc":
            ids.add("8")
        elif f[0] == "addquery":
            ids.add("15")
        elif f[0] in ("resetto", "recv"):
            ids.update(x.split(":")[0] for x in f[2:])
        elif f[0] in ("resetself", "resetslice", "recycle", "build", "notify"):
            pass
        elif f[0] == "setresp":
            ids.update(x.split(":")[0] for x in f[5:])
        else:
            ids.add(f[1])
    if len(edits) >= 3 and len(ids) >= 2:
        return True
    # a value that forces buffer growth: pool object whose unused value buffer did not shrink by what was consumed
    if seq[0].startswith("new pool"):
        prev = None
        for l, o in zip(seq, impl):
            f = o.split()
            if len(f) >= 3 and f[0] == "ret" and f[2].isdigit() and l.split()[0] in EDITS | {"new"}:
                n = int(f[2])
                c = consumed(l)
                if prev is not None and f[1] == "ok" and c > 0 and n > prev - c and l.split()[0] not in ("clone", "swap", "reset"):
                    return True
                prev = n
    return False


def explore(ctx, art):
    rng = random.Random(ctx.seed)
    thorough = ctx.tier == "thorough"
    def batches(seqs, n=3000):
        for i in range(0, len(seqs), n):
            yield seqs[i:i + n]

    def groups():
        yield "corpus", [corpus_seqs()]
        yield "exhaustive", exhaustive(range(0, 5 if thorough else 4), [0, 1, 2, 3, 4], [0, 1, 16])
        if thorough:
            # one more step for the tightest and the default capacities
            yield "exhaustive", exhaustive([5], [0, 2], [16])
        yield "path-edit", batches(path_edit_seqs(rng, 6000 if thorough else 400))
        yield "reset-self", batches(resetself_seqs(rng, 6000 if thorough else 500))
        yield "size-boundary", batches(size_boundary_seqs(rng, 12 if thorough else 2))
        yield "glue", batches(glue_seqs(rng, 6000 if thorough else 400))
        yield "random", batches(random_seqs(rng, 30000 if thorough else 1200, 48 if thorough else 28))
        # own stream: the sequences of the generators above stay what they were for a given seed
        yield "received", batches(received_seqs(random.Random(ctx.seed * 7919 + 15), 6000 if thorough else 600))
    distinct = set()
    totals = {}
    reported = {}
    mismatch = 0
    growth = 0
    for name, seqs, res in ((n, b, run_seqs(ctx, art, b, 16 if thorough else 8)) for n, bs in groups() for b in bs):
        totals[name] = totals.get(name, 0) + len(seqs)
        for seq, impl, model, judge in res:
            ctx.cov["evaluations"] += len(seq)
            ctx.cov["traces_validated_against_impl"] = ctx.cov.get("traces_validated_against_impl", 0) + 1
            ctx.count("sequences-" + name)
            ctx.count("object-" + seq[0].split()[1])
            for l, o in zip(seq, impl):
                f = o.split()
                ctx.count("op-%s:%s" % (l.split()[0], f[1] if len(f) > 1 and f[0] == "ret" else f[0]))
            if nontrivial(seq, impl):
                h = hashlib.sha1("\n".join(seq).encode()).hexdigest()
                if h not in distinct:
                    distinct.add(h)
                    if len(ctx.cov["samples"]) < 6 and name != "exhaustive" or len(ctx.cov["samples"]) < 2:
                        ctx.sample({"generator": name, "input": seq[:12], "implementation": impl[:12]})
            v = first_violation(seq, impl, judge)
            if v is not None:
                i, clause, text = v
                sig = "C15:%s:%s" % (clause, seq[i].split()[0])
                if sig not in reported:
                    reported[sig] = 0
                reported[sig] += 1
                if reported[sig] <= 2 and len(ctx.violations) < 12:
                    prefix = [l for l in seq[:i + 1]]
                    mini = minimise(art, prefix, clause) if clause != "harness" else prefix
                    mi, _, mj, _ = run_part(art, mini)
                    ctx.violations.append(common.Violation(
                        clause, sig, "%s after %d operations: %s" % (mini[-1][:80], len(mini) - 1, text[:200]),
                        {"input": mini, "observed": mi, "judge": mj, "generator": name}))
            if model is not None:
                stop = v[0] if v is not None else len(seq)
                for k in range(min(stop + 1, len(seq))):
                    if model[k] != impl[k]:
                        mismatch += 1
                        if mismatch <= 5:
                            ctx.broken.append(("correspondence", "C15 model vs implementation",
                                               "%s | after %s: impl `%s` model `%s`" % (seq[0], seq[k][:60], impl[k][:200], model[k][:200])))
                        break
    ctx.log("sequences per generator: %s" % totals)
    ctx.cov["distinct_nontrivial"] = len(distinct)
    ctx.cov["exhaustive"] = False
    ctx.cov["model_mismatches"] = mismatch
    ctx.cov["violation_signatures"] = reported
    ctx.cov["rule"] = (
        "A case is one operation sequence on one pair of objects (raw message.Options with a caller buffer, or pool.Message). "
        "Generators: corpus; exhaustive = every sequence of length 0..%d over {add,set,remove} x option numbers {8,11,15} with fresh "
        "values, for raw capacities 0..4 and pool capacities 0,1,16 (thorough: also length 5 for raw capacities 0,2 and pool 16), each followed by the full query battery (find/has at every "
        "number and its neighbours, single getters, the three multi getters with result sizes count-1,count,count+1,count+4,0, "
        "path, locpath, queries, content format); path-edit = path set on an object that already carries a path with later "
        "options, when the buffer must grow or the new path is refused; random = seeded sequences over all operations, value "
        "lengths around 255/256/257 and beyond, paths with empty and 255/256-byte segments, resetto with unsorted input, "
        "clone/swap/reset/resetself; reset-self = values stored in an order different from option-number order, then the object "
        "is reset to a subset / permutation of ITS OWN options (sources alias the object's value buffer); size-boundary = "
        "glue = the library's own users of the list: ResponseWriter.SetResponse sequences on one writer (options, then none) "
        "and an observation whose request message is recycled and reused before the kept options are read back (Request, "
        "GetObservationRequest, the deregistration request of Cancel incl. the ETag of the latest notification after ETags "
        "of different lengths), and the generic client's request builders New{Get,Post,Put,Delete,Observe}Request driven with "
        "caller-owned option slices (spare capacity, a sibling slice over the same array, Observe among the options); size-boundary = deterministic sweep over list sizes 11,12,13,14,15,16,17,20,24,32,33,40 (algorithm-switch thresholds: 12/13 of Go's "
        "pdqsort, capacity 16, binary-search depths): reset-to / clone / reset-to-own-permutation with unordered inputs "
        "with runs of repeated numbers, Add/Set/Remove/SetPath/AddQuery on lists of those sizes, and stored-byte totals "
        "254..258, 511..513 around the 256-byte value buffer; received = a datagram unmarshalled into a message from the pool (operation recv: "
        "option values are sub-slices of the message's unmarshal buffer), then edited: deterministic sweep datagram (3 options / one "
        "255-byte segment / 17 options) x value-buffer bytes already used (0,3,200,203,255,256) x size of the value that makes the "
        "256-byte value buffer grow for the first time (1,53,54,100,255,256,257,300,500,511,512,513,768,1034) x entrance "
        "(AddOptionString, AddOptionBytes, SetOptionString Proxy-Uri, SetPath, reset-to-own-options then add), followed by a second "
        "growth, clone and a look back at the source; plus random datagrams (0..6, 16, 17, 33 options of legal lengths) with random "
        "edits, several datagrams into one message. evaluations = operation lines executed on the real code and judged. distinct_nontrivial = number of "
        "distinct sequences (SHA-1 of the text) that have >= 3 editing operations on >= 2 option numbers, or in which a value "
        "forced the pooled message's value buffer to grow (detected from the reported unused-buffer length)." % (4 if thorough else 3))
    _ = growth


def run(ctx):
    art = common.standard_prepare(ctx, MODULES, generated=GENERATED)
    if art.get("hx"):
        explore(ctx, art)
    return common.finish(ctx)


def replay(ctx, rep):
    art = common.standard_prepare(ctx, MODULES, generated=GENERATED)
    lines = rep.get("input") or []
    if not lines:
        print("replay file names no failing input:", rep.get("no_longer_checks"))
        return 1
    impl, model, judge, err = run_part(art, lines)
    if impl is None:
        print("harness failed:", err)
        return 1
    bad = 0
    for i, l in enumerate(lines):
        j = judge[i] if judge else "?"
        print("%s\n    implementation: %s\n    judge: %s" % (l[:160], impl[i][:300], j))
        if j != "ok":
            bad += 1
    if bad:
        print("VIOLATION property=C15 replay=(replayed) still reproduces")
    return 1 if bad else 0
