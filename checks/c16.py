"""C16 — parallel-request limits are never exceeded and never leak (DESIGN.md §5 C16).

Proof: Props/C16.lean — endpoint_limit_inv, total_limit_inv, fifo_per_path (+ queue_is_arrival_order), cancel_neutral,
       no_overtake_at_endpoint, fifo_observable, cancel_neutral_sem, cancelled_never_starts, idle_after_all, fresh_admitted,
       waiting_justified: inductions over arbitrary event lists of
       the limiter event system Model/Limiter.lean (invariants in Lemmas/Limiter.lean, Lemmas/LimiterOrder.lean).
Tie:   X — the real limitparallelrequests.New(...) runs under testing/synctest (harness/c16): every order of
       {arrive, arrive-with-cancelled-context, cancel, finish} for a bounded number of requests / paths / limits is executed
       (DFS by re-execution), plus seeded random longer histories with several events per quiescence window.  Every
       observed history is (a) judged by the specification (Spec/Limiter.lean: limits, FIFO, cancel-neutral, no leak, idle)
       and (b) checked for trace inclusion in the model (the driver keeps the set of model states compatible with the
       observations; all interleavings of internal steps inside one window are explored).
       T — Generated/LimiterWiring.lean (go/ast over udp/client, tcp/client, net/client): which function every request path of a
       connection is handed out as; `every_request_path_is_limited` is decided over it.
       X (connection level) — the real udp and tcp client.Conn over the in-memory transports: get / post / observe /
       Observation.Cancel / ping in every order for small counts, requests counted on the wire by a scripted peer; same
       judge, same trace inclusion.  Also on connections made by the real constructors: tcp.Client with options.WithLimit…,
       and connections accepted by a real tcp.Server / dtls.Server (in-memory listener) configured with these options, where
       the judge demands AT MOST the server's limits and the model runs with the limits the extracted server wiring yields.
       X (table level) — the real limiter over the cooperative-mutex endpoint table of C14's build overlay (harness/c14/limiter_test.go,
       checks/c14.py limiter_check): every critical section of pkg/sync.Map is a scheduling point, all interleavings of 2-3 requests
       (+ a cancellation) on one and two paths are enumerated; same judge, same trace inclusion.  Props/C16Atomic.lean proves why the
       model may take an arrival as one atomic event (current_element_refines_atomic, reviewed_shape_refines_atomic) and that it may
       not when the callback runs on a stale element (stale_element_not_refined).
       X (far along) — bursts of 63..129 (thorough ..300, seeded walks ..420) requests waiting for ONE path — the sizes at which the
       queue's backing array grows and at which a drained queue uses at most a quarter of it — drained one completion at a time,
       thinned by cancellations, topped up by arrivals; same judge, same trace inclusion.  Props/C16Queue.lean proves that the model's
       list of waiters is the contents of the Go slice under append / q[1:] / slices.Delete for every length and capacity
       (slice_queue_refines_list) and what a step that moves the queue to another array must preserve (shrinkCopy_contents;
       seeded_shrink_loses_waiters is the witness for copy-into-a-zero-length-slice).
Hook:  net/client/limitParallelRequests/export_verif.go (read-only: VerifHash, VerifEntries, VerifEndpoint).
"""
import glob
import json
import os
import subprocess
from concurrent.futures import ThreadPoolExecutor

from . import common

MODULES = ["CoapVerif.Props.C16", "CoapVerif.Props.C16Atomic", "CoapVerif.Props.C16Queue"]
CORPUS = os.path.join(common.VERIF, "corpus", "C16")


RACES = [
    # total limit 1, endpoint limit 2, a third request holds the total slot; 0 and 1 arrive for one path in one window
    "cfg 1 2 ; arrive 9 1 ; arrive 0 0 & arrive 1 0 ; finish 9 ; finish 0 & finish 1 ; finish 0 & finish 1 ; idle",
    "cfg 1 2 ; arrive 9 1 ; arrive 0 0 & arrive 1 0 & arrive 2 0 ; finish 9 ; finish 0 & finish 1 & finish 2 ; finish 0 & finish 1 & finish 2 ; finish 0 & finish 1 & finish 2 ; idle",
    # both waiters are released from the path's queue in one window and then race for the total limit
    "cfg 2 2 ; arrive 8 0 ; arrive 9 0 ; arrive 7 1 ; arrive 6 1 ; arrive 0 0 ; arrive 1 0 ; finish 8 & finish 9 ; finish 7 ; finish 6 ; finish 0 & finish 1 ; finish 0 & finish 1 ; idle",
    # endpoint limit 1: calls of one window race for the registration itself
    "cfg 2 1 ; arrive 9 0 ; arrive 0 0 & arrive 1 0 ; finish 9 ; finish 0 & finish 1 ; finish 0 & finish 1 ; idle",
    "cfg 0 1 ; arrive 0 0 & arrive 1 0 & arrive 2 0 ; finish 0 & finish 1 & finish 2 ; finish 0 & finish 1 & finish 2 ; finish 0 & finish 1 & finish 2 ; idle",
]


def gen_lines(ctx):
    thorough = ctx.tier == "thorough"
    L = []
    cfgs = [(1, 1), (2, 1), (1, 2), (2, 2), (0, 1), (1, 0)]
    for (l, e) in cfgs:
        L.append("explore %d %d 3 2 1" % (l, e))
    for (l, e) in cfgs[:4]:
        L.append("explore %d %d 4 2 1" % (l, e))
    if thorough:
        for (l, e) in cfgs[:4]:
            L.append("explore %d %d 5 2 0" % (l, e))
        for (l, e) in cfgs[:4]:
            L.append("explore %d %d 5 2 1" % (l, e))
        L.append("explore 2 2 4 3 1")
        L.append("explore 3 2 5 1 0")
    else:
        L.append("explore 2 2 4 3 0")
        L.append("explore 2 1 5 2 0")
    # calls made in the same window (no settling in between): their registration order and — past the per-path limit — the
    # order in which they obtain the total limit are up to the Go scheduler; every outcome must be accepted by the judge and
    # be a trace of the model.  Repeated because the outcome is not deterministic.
    for _ in range(400 if thorough else 60):
        L += ["replay " + r for r in RACES]
    n = 20000 if thorough else 2500
    L.append("random %d %d 8 3" % (ctx.seed, n))
    L.append("random %d %d 12 2" % (ctx.seed + 1000003, n // 2))
    return L


# Far along: the waiter queue of ONE path is a Go slice that is appended to, popped by re-slicing and thinned by slices.Delete; its
# backing array doubles at 64 / 128 / 256 waiters (then 512, 848 ...).  Whatever depends on the size or the spare capacity of that
# array is out of reach of histories with a handful of requests.  Sizes of a burst of simultaneous waiters, permanently in the
# generated set: the powers of two at which the array grows, their neighbours, and the ends of the ranges in which a drained
# queue uses at most a quarter of an array of >= 64 slots (65..80, 129..208, 257..).
BURSTS_QUICK = [63, 64, 65, 72, 80, 81, 129]
BURSTS_THOROUGH = [127, 128, 130, 160, 208, 209, 256, 257, 300]


def burst_histories(sizes, cfgs_drain=((0, 1), (2, 1), (2, 2), (1, 2)), cfgs_churn=((0, 1), (2, 2))):
    """Deterministic histories in which n requests wait for path 0 behind the E holders of its slots, every call in a window of
    its own (so the arrival order is known to the judge):
    * drain — the holders complete one at a time, each completion admits the next waiter, until all have run;
    * churn — every completion is followed by the cancellation of a waiter (newest / oldest / middle in turn) and by a new
      arrival for the path; when no waiter is left the rest completes."""
    H = []
    for n in sizes:
        for (l, e) in cfgs_drain:
            last = e + n - 1
            H.append("cfg %d %d ; arrive 0..%d 0 ; finish 0..%d ; idle" % (l, e, last, last))
        for (l, e) in cfgs_churn:
            ev = ["arrive 0..%d 0" % (e + n - 1)]
            running = list(range(e))
            waiting = list(range(e, e + n))
            nxt = e + n
            rnd = 0
            while running:
                r = running.pop(0)
                ev.append("finish %d" % r)
                if waiting:
                    running.append(waiting.pop(0))
                if waiting:
                    c = waiting.pop((-1, 0, len(waiting) // 2)[rnd % 3])
                    ev.append("cancel %d" % c)
                    ev.append("arrive %d 0" % nxt)
                    waiting.append(nxt)
                    nxt += 1
                rnd += 1
            H.append("cfg %d %d ; %s ; idle" % (l, e, " ; ".join(ev)))
    return H


def gen_burst_lines(ctx):
    thorough = ctx.tier == "thorough"
    L = ["replay " + h for h in burst_histories(BURSTS_QUICK + (BURSTS_THOROUGH if thorough else []))]
    # seeded walks that start with such a burst (harness: burstWalk): pure drain / drain with cancellations / churn
    L.append("burst %d %d 65 80" % (ctx.seed + 31, 120 if thorough else 40))
    L.append("burst %d %d 129 208" % (ctx.seed + 32, 60 if thorough else 12))
    L.append("burst %d %d 20 64" % (ctx.seed + 33, 60 if thorough else 20))
    if thorough:
        L.append("burst %d 20 257 420" % (ctx.seed + 34))
    return L


def max_waiters(h):
    """largest number of waiters in one path's queue seen in a history (from the read-only table hook)"""
    m = 0
    for seg in h.split(";"):
        i = seg.find(" tab ")
        if i < 0:
            continue
        w = seg[i + 5:].split()
        if not w or w[0] == "-":
            continue
        for ent in w[0].split(","):
            try:
                m = max(m, int(ent.rsplit("/", 1)[1]))
            except (IndexError, ValueError):
                pass
    return m


def gen_conn_lines(ctx):
    """Connection-level correspondence (harness/c16/conn_test.go)."""
    thorough = ctx.tier == "thorough"
    L = []
    for tr in ("udp", "tcp"):
        for (l, e) in ((1, 1), (2, 1)):
            L.append("connexplore %s %d %d %d 2" % (tr, l, e, 4 if thorough else 3))
        if thorough:
            L.append("connexplore %s 2 2 4 1" % tr)
            L.append("connexplore %s 0 1 3 2" % tr)
    # connections made by the REAL constructors: tcp.Client with options.WithLimitClient…, and connections accepted by a real
    # tcp.Server / dtls.Server configured with these options (the requests are the ones the server sends to its peer; the
    # limits in the header are the server's configuration: the judge demands "at most" them)
    # dtlscli = dtls.Client (the option appliers udp.Client uses too) configured by an option LIST in which other options
    # (WithTransmission, WithMaxMessageSize, WithBlockwise, …) precede and follow the two limit options
    for tr, cfgs in (("tcpcli", ((2, 1), (1, 1))), ("dtlscli", ((1, 1), (2, 1), (2, 2))), ("tcpsrv", ((2, 1), (4, 1), (1, 2))), ("dtlssrv", ((2, 1), (4, 1), (1, 2)))):
        for (l, e) in cfgs:
            L.append("connexplore %s %d %d %d 2" % (tr, l, e, 4 if thorough and (l, e) == (2, 1) else 3))
    if not thorough:
        L.append("connexplore tcp 1 1 4 1")
        L.append("connexplore udp 2 1 4 1")
    for i, tr in enumerate(("udp", "tcp", "tcpcli", "tcpsrv", "dtlssrv", "dtlscli")):
        L.append("connrandom %s %d %d 7 2" % (tr, ctx.seed + 77 + i, (3000 if i < 2 else 1000) if thorough else (300 if i < 2 else 150)))
    return L


def run_harness(ctx, exe, lines, tag="x", timeout=3000, test="TestC16"):
    inp = os.path.join(ctx.work, tag + ".in")
    outp = os.path.join(ctx.work, tag + ".out")
    open(inp, "w").write("\n".join(lines) + "\n")
    if os.path.exists(outp):
        os.remove(outp)
    e = dict(os.environ, VERIF_IN=inp, VERIF_OUT=outp, VERIF_SEED=str(ctx.seed), VERIF_TIER=ctx.tier)
    try:
        p = subprocess.run([exe, "-test.run", "^%s$" % test, "-test.timeout", "%ds" % timeout], cwd=ctx.work, env=e,
                           stdout=subprocess.PIPE, stderr=subprocess.STDOUT, text=True, timeout=timeout + 30)
    except subprocess.TimeoutExpired:
        ctx.broken.append(("correspondence", "harness %s timed out" % test, ""))
        return None
    out = open(outp).read().splitlines() if os.path.exists(outp) else []
    if p.returncode != 0:
        ctx.broken.append(("correspondence", "harness %s failed (rc=%d)" % (test, p.returncode), p.stdout[-3000:]))
        return out or None
    return out


def drive(driver, verb, hist, workers=14):
    """Run the Lean driver over history lines in parallel (round-robin split: expensive histories are clustered).
    Returns list of verdict lines or None."""
    if not hist:
        return []
    n = max(1, min(workers, len(hist) // 100 + 1))
    chunks = [hist[i::n] for i in range(n)]

    def one(ch):
        rc, out, _ = common.pipe_lines([driver, verb], ch)
        return out if rc == 0 and len(out) == len(ch) else None
    with ThreadPoolExecutor(max_workers=n) as ex:
        res = list(ex.map(one, chunks))
    if any(r is None for r in res):
        return None
    out = [None] * len(hist)
    for i, r in enumerate(res):
        out[i::n] = r
    return out


def events_only(h):
    """`cfg L E ; ev | obs ; …` -> `cfg L E ; ev ; …` (the replay input)"""
    segs = [s.strip() for s in h.split(";")]
    return " ; ".join(s.split("|")[0].strip() for s in segs if not s.startswith("panic"))


def classify(h):
    """(has a cancel that hits a queued request, number of multi-event windows, number of events, windows with several
    calls, a later call of a path in flight while a textually earlier one of that path still waits)"""
    segs = [s.strip() for s in h.split(";")][1:]
    running, returned, arrived = set(), set(), set()
    queued_cancel = False
    multi = 0
    nev = 0
    multi_arrive = 0
    order, path, started, cancelled = [], {}, set(), set()
    inversion = False
    for sg in segs:
        if "|" not in sg:
            continue
        evs, obs = [x.strip() for x in sg.split("|", 1)]
        if evs.startswith("idle") or evs.startswith("panic"):
            continue
        parts = [e.split() for e in evs.split("&")]
        parts = [["arrive"] + e[1:3] if e[0] in ("get", "post", "observe", "unobserve") else e for e in parts if e[0] not in ("ping", "pong")]
        nev += len(parts)
        if len(parts) > 1:
            multi += 1
        if sum(1 for e in parts if e[0] in ("arrive", "arrivec")) > 1:
            multi_arrive += 1
        for e in parts:
            if e[0] in ("arrive", "arrivec"):
                arrived.add(e[1])
                order.append(e[1])
                path[e[1]] = e[2]
                if e[0] == "arrivec":
                    cancelled.add(e[1])
            if e[0] == "cancel":
                cancelled.add(e[1])
            if e[0] == "cancel" and e[1] in arrived and e[1] not in running and e[1] not in returned:
                queued_cancel = True
        w = obs.split()
        try:
            running = set() if w[1] == "-" else set(w[1].split(","))
            if w[3] != "-":
                returned |= {r.split(":")[0] for r in w[3].split(",")}
        except IndexError:
            pass
        started |= running
        for b in running:
            for a in order[:order.index(b)]:
                if path[a] == path[b] and a not in started and a not in returned and a not in cancelled:
                    inversion = True
    return queued_cancel, multi, nev, multi_arrive, inversion


def judge_one(ctx, art, evline, tag="min"):
    if evline.startswith("conn "):
        out = run_harness(ctx, art["test"], ["connreplay " + evline], tag=tag, test="TestC16Conn")
    else:
        out = run_harness(ctx, art["test"], ["replay " + evline], tag=tag)
    if not out:
        return None, None
    rc, j, _ = common.pipe_lines([art["driver"], "judge"], [out[0]])
    return out[0], (j[0] if j else None)


def minimise(ctx, art, h, verdict):
    """Cut the history after the violating line, then drop single lines while the same clause still fails."""
    clause = verdict.split()[1] if len(verdict.split()) > 1 else "?"
    segs = [s.strip() for s in events_only(h).split(";")]
    try:
        at = int(verdict.rsplit("@", 1)[1])
        segs = segs[:1 + at]
    except (ValueError, IndexError):
        pass
    cur = segs
    budget = 60
    changed = True
    while changed and budget > 0:
        changed = False
        for i in range(len(cur) - 1, 0, -1):
            cand = cur[:i] + cur[i + 1:]
            budget -= 1
            o, j = judge_one(ctx, art, " ; ".join(cand))
            if j and j.startswith("violates") and j.split()[1] == clause:
                cur = cand
                changed = True
                break
            if budget <= 0:
                break
    o, j = judge_one(ctx, art, " ; ".join(cur))
    if j and j.startswith("violates"):
        return " ; ".join(cur), o, j
    return events_only(h), h, verdict


def explore(ctx, art):
    lines, clines = [], []
    for p in sorted(glob.glob(os.path.join(CORPUS, "*.json"))):
        for l in json.load(open(p)).get("input", []):
            if l.startswith("coop "):
                continue              # schedules of the limiter over the cooperative map: run by coop()
            if l.startswith("conn "):
                clines.append("connreplay " + l)
            else:
                lines.append("replay " + l)
    ncorpus = len(lines) + len(clines)
    lines += gen_burst_lines(ctx)
    lines += gen_lines(ctx)
    clines += gen_conn_lines(ctx)
    out = run_harness(ctx, art["test"], lines)
    if out is None:
        return
    # connection level: the real udp / tcp client.Conn, requests counted on the wire
    cout = run_harness(ctx, art["test"], clines, tag="conn", test="TestC16Conn")
    if cout is None:
        return
    nconn = sum(1 for l in cout if l.startswith("conn "))
    ctx.count("connection-level histories (real udp/tcp client.Conn, requests counted on the wire)", nconn)
    ctx.cov["connection_level_histories"] = nconn
    out = out + cout
    hist = [l for l in out if l.startswith("cfg ") or l.startswith("conn ")]
    other = [l for l in out if not l.startswith("cfg ") and not l.startswith("conn ") and not l.startswith("#")]
    for l in other:
        ctx.violations.append(common.Violation("no-crash", "C16:harness:" + l[:80], "harness line: " + l, {"input": [], "observed": l}))
    for l in out:
        if l.startswith("#"):
            ctx.notes.append(l[2:])
    ctx.log("histories executed: %d (corpus %d)" % (len(hist), ncorpus))
    judge = model = None
    if art.get("driver"):
        judge = drive(art["driver"], "judge", hist)
        model = drive(art["driver"], "model", hist)
        if judge is None or model is None:
            ctx.broken.append(("model", "C16 driver run failed", ""))
            judge = model = None
    distinct = set()
    seen_sig = set()
    validated = 0
    for i, h in enumerate(hist):
        qc, multi, nev, multi_arrive, inversion = classify(h)
        mw = max_waiters(h) if h.startswith("cfg ") else 0
        for lo in (256, 128, 64):
            if mw > lo:
                ctx.count("histories with more than %d requests waiting for one path at the same time" % lo)
                break
        if multi_arrive:
            ctx.count("histories with several calls made in one window")
        if inversion:
            ctx.count("histories in which a later call of a path is in flight while an earlier one still waits (legal: "
                      "same window, or both past the per-path limit)")
        cfg = " ".join(h.split(";")[0].split()[1:])
        ctx.count(("conn " if h.startswith("conn ") else "cfg ") + cfg)
        if h.startswith("conn ") and h.split()[1].endswith("srv"):
            ctx.count("histories on connections accepted by a real server (%s)" % h.split()[1])
        if h.startswith("conn tcpcli"):
            ctx.count("histories on connections made by tcp.Client with options.WithLimit…")
        if h.startswith("conn dtlscli"):
            ctx.count("histories on connections made by dtls.Client with an option list (other options before and after the limit options)")
        if h.startswith("conn ") and "unobserve" in h:
            ctx.count("connection-level histories with Observation.Cancel")
        ctx.count("events", nev)
        if multi:
            ctx.count("histories with multi-event windows")
        if "arrivec" in h:
            ctx.count("histories with an already-cancelled arrival")
        if qc:
            ctx.count("histories with a cancel hitting a queued request")
            distinct.add(events_only(h))
        if judge is None:
            continue
        j, m = judge[i], model[i]
        if j != "ok":
            clause = j.split()[1].rstrip(":") if len(j.split()) > 1 else "?"
            if len([v for v in ctx.violations if v.clause == clause]) >= 3:
                ctx.count("further violations of " + clause)
                continue
            ev, obs, jv = minimise(ctx, art, h, j)
            sig = "C16:%s:%s" % (clause, ev)
            if sig in seen_sig:
                continue
            seen_sig.add(sig)
            ctx.violations.append(common.Violation(clause, sig, "%s  [%s]" % (jv, ev),
                                                   {"input": [ev], "observed": obs, "judge": jv}))
            ctx.count("judge:" + clause)
        elif m.startswith("ok"):
            validated += 1
            if len(ctx.cov["samples"]) < 2 or (qc and multi and len(ctx.cov["samples"]) < 5):
                ctx.sample({"history": h, "judge": j, "model": m})
        if not m.startswith("ok") and j == "ok":
            if len([b for b in ctx.broken if b[1] == "C16 model vs implementation"]) < 5:
                ctx.broken.append(("correspondence", "C16 model vs implementation", "%s :: %s" % (m, events_only(h))))
        elif not m.startswith("ok"):
            ctx.count("model-diverges (also judged a violation)")
    ctx.cov["evaluations"] = len(hist)
    ctx.cov["distinct_nontrivial"] = len(distinct)
    ctx.cov["traces_validated_against_impl"] = validated
    ctx.cov["exhaustive"] = True
    ctx.cov["rule"] = ("histories are executed on the real limiter under synctest: `explore L E n p pre` runs EVERY order of "
                       "{arrive (ids in order, path chosen up to symmetry), arrive with cancelled context (pre=1), cancel of a "
                       "non-running unreturned request, finish of a running request} until all n requests returned, for the "
                       "listed (limit, endpoint limit, n, paths) — see notes for the exact list of this tier; `random` adds seeded "
                       "walks with up to 12 requests, 3 paths, limits 0..3 and 1-3 events per quiescence window (also several calls in one "
                       "window); bursts of 63..129 (thorough: ..300, walks ..420) requests waiting for ONE path, drained one completion at a "
                       "time, thinned by cancellations and topped up by arrivals (fixed sizes at the growth steps of the queue's array and seeded walks); "
                       "fixed racing scenarios (same-path calls in one window behind a contended total limit) are repeated. Each history "
                       "is judged by Spec/Limiter.lean and checked for trace inclusion in Model/Limiter.lean. A history is "
                       "non-trivial when a cancel hits a request that is queued (arrived, not running, not returned); "
                       "distinct = by event sequence.")
    ctx.assumptions += [
        "golang.org/x/sync/semaphore.Weighted is modelled as a FIFO counting semaphore with cancellable waiters (v0.11.0 source read, not verified)",
        "testing/synctest: synctest.Wait() returns only when every goroutine of the bubble is durably blocked (quiescence)",
        "the wrapped do function ignores its request's context (the harness' do waits only for `finish`)",
    ]


def coop_corpus():
    L = []
    for p in sorted(glob.glob(os.path.join(CORPUS, "*.json"))):
        L += [l[5:] for l in json.load(open(p)).get("input", []) if l.startswith("coop lsched ")]
    return L


def coop(ctx, art):
    """The limiter over the cooperative-mutex endpoint table (C16 x C14, harness/c14/limiter_test.go): the synctest harness above
    runs every limiter operation to quiescence, so an arrival never meets a release half-way; here every critical section of
    pkg/sync.Map is a scheduling point and all interleavings are enumerated.  Same judge (Spec/Limiter.lean), same model."""
    from . import c14
    exe = c14.build_coop(ctx, "ht_c16coop.test")
    if exe and art.get("driver"):
        c14.limiter_check(ctx, exe, art["driver"], "C16", coop_corpus())


def run(ctx):
    art = common.standard_prepare(ctx, MODULES, hx=False, test=True, generated=["LimiterWiring.lean", "SyncShape.lean"])
    if art.get("test"):
        explore(ctx, art)
    coop(ctx, art)
    return common.finish(ctx)


def replay(ctx, rep):
    art = common.standard_prepare(ctx, MODULES, hx=False, test=True, generated=["LimiterWiring.lean", "SyncShape.lean"])
    lines = rep.get("input") or []
    if not lines:
        print("replay file names no failing input:", rep.get("no_longer_checks"))
        return 1
    bad = 0
    for l in lines:
        if l.startswith("coop "):
            from . import c14
            exe = c14.build_coop(ctx, "ht_c16coop.test")
            o, j = c14.limiter_judge_one(ctx, exe, art["driver"], l[5:], tag="replay") if exe else (None, None)
        else:
            o, j = judge_one(ctx, art, l, tag="replay")
        rc, m, _ = common.pipe_lines([art["driver"], "model"], [o or ""])
        print("input : %s\nimpl  : %s\njudge : %s\nmodel : %s" % (l, o, j, m[0] if m else None))
        if not j or j != "ok":
            bad += 1
    if bad:
        print("VIOLATION property=C16 replay=(replayed) still reproduces")
    return 1 if bad else 0
