"""C17 — router dispatches to a longest matching route, else the default (DESIGN.md §5 C17).

Proof: Props/C17.lean — dispatch_spec, compile_matches_template, vars_are_substrings, middleware_order, lock_discipline,
       no-panic of the template parser; for every route set, iteration order of the Go map and path.
Tie: T — Generated/RouterLockShape.lean (every access to a Router field with the lock held there, default variable
         pattern, FilterPath's replacement) is regenerated from mux/*.go on every run;
     X — a real mux.Router is driven with route sets derived from a target path (literals incl. regex metacharacters,
         {v}, {v:pattern}, overlapping and equal-length templates, invalid templates, removal/replacement, nil handlers,
         middlewares) and paths around it; the implementation's answer must be one of the outcomes the model admits
         (over all map iteration orders) and is judged by the independent specification;
     evidence — concurrent Handle/HandleRemove/DefaultHandle/ServeCOAP under the race detector (harness/c17race).
Round 10: Props/C17Vars (the variables are those of the leftmost-first decomposition; the judge requires it: gen_ambiguous),
     Props/C17Access (GetRoute/GetRoutes/GetRouteRegexp/SetErrorHandler after random histories: getroutes, getroute, seterr, servefail),
     Props/C17Nested (one message object dispatched repeatedly, routers mounted in routers: inner, mount, msgnew, msgpath, msgserve).
Round 11: Props/C17Wire (whole option lists on the wire), Props/C17Long (dispatch after LONG histories: `churn <n> <prefix> <h>` = n
     modifications of the route table in one line; 2^8, 2^16, 2^16 +- 1, 2^17 ... modifications between two dispatches of one path:
     gen_long_systematic, gen_long_run).
"""
import glob
import json
import os
import random
import subprocess

from . import common

MODULES = ["CoapVerif.Props.C17", "CoapVerif.Props.C17Vars", "CoapVerif.Props.C17Access", "CoapVerif.Props.C17Nested", "CoapVerif.Props.C17Wire",
           "CoapVerif.Props.C17Long"]
GENERATED = ["RouterLockShape.lean", "OptionDefs.lean"]


def hx(s):
    b = s.encode("utf-8")
    return b.hex() if b else "-"


def unhx(h):
    return "" if h == "-" else bytes.fromhex(h).decode("utf-8", "replace")


PLAIN = ["a", "b", "ab", "abc", "x", "12", "7", "007", "api", "v1", "id", "q", "zz", "42", "b-c", "x-y-z", "a_b"]
META = ["a.b", "a+b", "x*", "(z)", "[q]", "a|b", "^s", "e$", "b\\c", "q?", ".*", ".+", "[^/]+", "\\d", "a.b.c", "(?:x)",
        "x|", "$", "^", "\\", "+", "*", "?", "(", ")", "[", "]", "|", ".", "[a-z]+", "a{2}".replace("{", "(").replace("}", ")"),
        "\\d+", "a$b", "^^", "x.y-z", "a:b", ":"]
UNI = ["é", "日本", "ü-ö", "я", "a\nb", "naïve", " ", "a b"]
TWIN = {"a.b": ["axb", "a/b"], "a+b": ["aab", "ab"], "x*": ["xxx", "x", ""], "(z)": ["z"], "[q]": ["q"], "a|b": ["a", "b"],
        "^s": ["s"], "e$": ["e"], "b\\c": ["bc", "b\\\\c"], "q?": ["q", ""], ".*": ["anything", "", "a/b"], ".+": ["x", "xy"],
        "[^/]+": ["abc"], "\\d": ["7", "d"], "a.b.c": ["aXbYc"], "(?:x)": ["x"], "x|": ["x", ""], "$": [""], "^": [""],
        ".": ["a", "/"], "[a-z]+": ["abc"], "\\d+": ["123"], "+": ["", "++"], "*": [""], "?": [""], "|": ["", "a"],
        "a$b": ["ab"], "^^": ["^"], "x.y-z": ["xay-z"]}
NAMES = ["v", "x", "y", "id", "n", "name", "product-id", "é", "v1", "rest", "a"]


def rx_escape(s):
    out = ""
    for ch in s:
        if ch.isalnum() or ch in " _-/:é日本üöяï\n" and ch != "\n":
            out += ch
        elif ch == "\n":
            out += "\\n"
        elif ord(ch) < 128:
            out += "\\" + ch
        else:
            out += ch
    return out


def var_forms(rng, s, name):
    """variable texts (with braces) whose pattern language contains the concrete string s (no '/' in s)"""
    forms = []
    if s and "/" not in s:
        forms += ["{%s}" % name, "{%s:[^/]+}" % name]
    forms += ["{%s:[^/]*}" % name]
    if "\n" not in s:
        forms += ["{%s:.*}" % name, "{%s:.*?}" % name]
        if s:
            forms += ["{%s:.+}" % name, "{%s:.+?}" % name]
    if s and s.isascii() and s.isdigit():
        forms += ["{%s:[0-9]+}" % name, "{%s:\\d+}" % name, "{%s:[0-9]*}" % name, "{%s:[0-9]+?}" % name]
        if len(s) <= 6:
            forms += ["{%s:[0-9]{%d}}" % (name, len(s)), "{%s:\\d{1,%d}}" % (name, len(s)), "{%s:[0-9]{%d,}}" % (name, max(0, len(s) - 1))]
    if s and s.isascii() and s.isalpha() and s.islower():
        forms += ["{%s:[a-z]+}" % name, "{%s:[a-z]*}" % name, "{%s:[a-y]*z*}" % name, "{%s:(?:[a-z])+}" % name]
    if s and s.isascii() and all(c.isalnum() or c == "_" for c in s):
        forms += ["{%s:\\w+}" % name, "{%s:[\\w]+}" % name, "{%s:[0-9A-Za-z_]+}" % name, "{%s:\\S+}" % name, "{%s:[^\\W]+}" % name]
    if s and s.isascii() and all(c.isalnum() or c in "_-" for c in s):
        forms += ["{%s:[\\w-]+}" % name, "{%s:[-a-z0-9_]+}" % name, "{%s:[^/.]+}" % name]
    if "\n" not in s:
        e = rx_escape(s)
        forms += ["{%s:%s|zzz}" % (name, e), "{%s:zzz|%s}" % (name, e), "{%s:(?:%s)?}" % (name, e), "{%s:(?:%s|q)}" % (name, e)]
        if s:
            forms += ["{%s:(?:%s)+}" % (name, e), "{%s:(?:%s){1,2}}" % (name, e), "{%s:%s?%s}" % (name, e[:0] + "k", e)]
            if len(s) >= 2:
                forms += ["{%s:%s|%s}" % (name, rx_escape(s[:1]), e), "{%s:%s(?:%s)?}" % (name, rx_escape(s[:1]), rx_escape(s[1:]))]
    return forms


def segment_template(rng, s, used):
    """one template segment (text between slashes) that matches the concrete segment s"""
    def nm():
        n = rng.choice(NAMES)
        if rng.random() < 0.85:
            while n in used:
                n = rng.choice(NAMES) + str(rng.randrange(10))
        used.append(n)
        return n
    if "{" in s or "}" in s:
        return rng.choice(var_forms(rng, s, nm()))
    k = rng.random()
    if k < 0.45:
        return s                      # literal (possibly full of metacharacters)
    if k < 0.8 or len(s) < 2:
        return rng.choice(var_forms(rng, s, nm()))
    # part literal, part variable(s)
    i = rng.randrange(1, len(s))
    if k < 0.88:
        return s[:i] + rng.choice(var_forms(rng, s[i:], nm()))
    if k < 0.94:
        return rng.choice(var_forms(rng, s[:i], nm())) + s[i:]
    return rng.choice(var_forms(rng, s[:i], nm())) + rng.choice(var_forms(rng, s[i:], nm()))


def template_for(rng, segs):
    used = []
    out = [segment_template(rng, s, used) for s in segs]
    k = rng.random()
    if k < 0.12 and len(segs) >= 2:
        # one variable swallowing a suffix of the path (its pattern can cross slashes)
        i = rng.randrange(1, len(segs))
        tail = "/".join(segs[i:])
        if "\n" not in tail:
            out = out[:i] + [rng.choice(["{rest:.*}", "{rest:.+}", "{rest:.*?}", "{r:(?:[^/]*/?)*}".replace("(?:[^/]*/?)*", "[^?]*"),
                                         "{rest:%s}" % rx_escape(tail), "{rest:%s|zz}" % rx_escape(tail)] if tail else ["{rest:.*}"])]
    t = "/" + "/".join(out)
    if k > 0.97:
        t = t[1:]                      # template without the leading slash
    return t


INVALID = ["/{a", "/a}", "/{a}}", "/{{a}", "{", "}", "/{}", "/{:x}", "/{a:}", "/{a:[}", "/{a:*}", "/{a:(}", "/{a:)}",
           "/{a:a**}", "/{a:[z-a]}", "/{a:x{3,1}}", "/{a:(x)}", "/{a:x\\}", "/{a:a|(b)}", "/x/{a}/{", "/{a:+}", "/{a:a+*}",
           "/{a:[a}", "/{a:x{2}{3}}", "/{a:(?:x}", "/{a}{:y}", "/{a:(x)}/{", "/{a:(x)}{:y}", "/{a:(x)}{b:[}", "/{a:?}",
           "/{a:()}", "/{a:((x))}", "/{a:a{2}*}", "/{a:[]}", "/{a:[^]}", "/{a:x|*}", "/}{", "/{a:(x){0}}"]
ODD_VALID = ["/{a:x{}", "/{a:[]]}", "/{a:[]a]+}", "/{a:[a-]+}", "/{a:[-a]+}", "/{a:x{,2}}", "/{a:x{a}}", "/{a:]}", "/{a:x|}",
             "/{a:|x}", "/{a:(?:)}", "/{a:(?:|x)}", "/{a:[\\]]}", "/{a:[\\d-]+}", "/{a:\\.}", "/{a:x{0}}", "/{a:x{0,1}}",
             "/{a:x{2,}}", "/{a:x{1}}", "/{a:(?:ab){2}}", "/{a:[^a]}", "/{a:\\D+}", "/{a:\\s}", "/{a:x??}", "/{a:x+?}",
             "/{a:x{1,2}?}", "/{a:[\\n]}", "/{a:\\/}", "/{a:a{b}c}", "/{a{b}c}", "/{a:[[]}", "/{a:\\n}", "/{a:x{2}?y}"]
ODD_PATHS = ["/x{", "/]", "/a", "/-", "/x", "/xx", "/xxx", "/", "/ab", "/abab", "/\\", "/.", "/b", "/7", "/ ", "/\n", "//",
             "/x{a}", "/a{b}c", "/[", "/x{,2}", "/x{,2", "/xy", "/xxy", "/", "/aa"]


def mutate_path(rng, segs):
    k = rng.random()
    s = list(segs)
    if k < 0.40:
        return s
    if k < 0.47:
        return s + [""]                                   # trailing slash
    if k < 0.53:
        return s + [rng.choice(PLAIN)]
    if k < 0.58 and len(s) > 1:
        return s[:-1]
    if k < 0.64:
        i = rng.randrange(len(s) + 1)
        return s[:i] + [""] + s[i:]                        # empty segment
    if k < 0.82 and s:
        i = rng.randrange(len(s))
        if s[i] in TWIN and rng.random() < 0.8:
            t = rng.choice(TWIN[s[i]])
            return s[:i] + t.split("/") + s[i + 1:]
        s[i] = rng.choice(PLAIN + META + UNI)
        return s
    if k < 0.88 and s:
        i = rng.randrange(len(s))
        s[i] = s[i] + rng.choice(["x", "1", "/", ".", "\n"]) if rng.random() < 0.5 else rng.choice(["x", "1"]) + s[i]
        return "/".join(s).split("/")
    if k < 0.93 and s:
        i = rng.randrange(len(s))
        s[i] = s[i][:-1]
        return s
    return [rng.choice(PLAIN + META + UNI) for _ in range(rng.randrange(1, 4))]


def gen_case(rng):
    """returns (lines, meta)"""
    lines = ["reset"]
    nseg = rng.choice([1, 1, 2, 2, 2, 3, 3, 4])
    vocab = PLAIN * 2 + META + UNI + [""]
    segs = [rng.choice(vocab) for _ in range(nseg)]
    meta = {"meta_literal": False, "invalid": 0, "templates": []}
    if rng.random() < 0.15:
        # Use(chain...) with a slice the application owns (spare capacity), more middlewares afterwards, and then the
        # application goes on using ITS slice: none of that may show in the router's chain
        n = rng.choice([1, 2, 3])
        lines.append("usev %d %s" % (rng.choice([0, 1, 2, 4]), ",".join("u%d" % i for i in range(n))))
        for _ in range(rng.choice([0, 1, 1, 2])):
            lines.append("mw m%d" % rng.randrange(4))
        for _ in range(rng.choice([1, 2])):
            lines.append(rng.choice(["callerappend s%d" % rng.randrange(3), "callerset %d c%d" % (rng.randrange(n), rng.randrange(3))]))
    else:
        for _ in range(rng.choice([0, 0, 1, 2, 3])):
            lines.append("mw m%d" % rng.randrange(4))
    if rng.random() < 0.25:
        lines.append(rng.choice(["default d1", "default nil", "defaultf d2", "defaultf nil", "default d3"]))
    nroutes = rng.choice([1, 2, 3, 3, 4, 5, 6, 8])
    templates = []
    hn = 0
    for _ in range(nroutes):
        k = rng.random()
        if k < 0.10:
            t = rng.choice(INVALID)
            meta["invalid"] += 1
        elif k < 0.16:
            t = rng.choice(ODD_VALID)
        elif k < 0.22:
            t = template_for(rng, [rng.choice(vocab) for _ in range(rng.randrange(1, 4))])
        elif k < 0.25:
            t = rng.choice(["", "/", "/{x:.*}", "{x:.*}", "/{x}", "/{a}/{b}", "/{a}{b:.*}"])
        else:
            t = template_for(rng, segs)
        hn += 1
        h = "h%d" % hn
        r = rng.random()
        if r < 0.03:
            lines.append("route %s nil" % hx(t))
        elif r < 0.06:
            lines.append("routef %s nil" % hx(t))
        elif r < 0.25:
            lines.append("routef %s %s" % (hx(t), h))
        else:
            lines.append("route %s %s" % (hx(t), h))
        templates.append(t)
    meta["templates"] = templates
    for t in templates:
        lit = t
        # crude: a metacharacter outside braces
        depth = 0
        for ch in t:
            if ch == "{":
                depth += 1
            elif ch == "}":
                depth -= 1
            elif depth == 0 and ch in ".+*?()[]|^$\\":
                meta["meta_literal"] = True
    nq = rng.choice([4, 6, 8, 10])
    for _ in range(nq):
        if rng.random() < 0.12:
            # the accessors and the error handler: compared with the model (entries, handlers, expression text) and judged
            # against the judge's own record of the live registrations
            a = rng.random()
            if a < 0.35:
                lines.append("getroutes")
            elif a < 0.7:
                lines.append("getroute %s" % hx(rng.choice(templates + ["/nope", "", "/"])))
            elif a < 0.82:
                lines.append("seterr e%d" % rng.randrange(3))
            else:
                lines.append("servefail %s" % rng.choice(["none", hx("/" + "/".join(mutate_path(rng, segs))), hx("/no/such")]))
            continue
        k = rng.random()
        if k < 0.06 and templates:
            lines.append("unroute %s" % hx(rng.choice(templates + ["/nope", ""])))
            continue
        if k < 0.10 and templates:
            hn += 1
            lines.append("route %s h%d" % (hx(rng.choice(templates)), hn))
            continue
        if k < 0.12:
            lines.append(rng.choice(["default d4", "default nil", "defaultf nil", "defaultf d5"]))
            continue
        if k < 0.135:
            # resources that come and go: a run of modifications (an odd run leaves its last pattern registered)
            lines.append("churn %d %s c%d" % (rng.choice([1, 2, 3, 4, 5, 16, 255, 256, 257]),
                                               hx(rng.choice(["/tmp/", "/", "/" + segs[0] + "/", "/" + "/".join(segs)])), rng.randrange(3)))
            continue
        if k < 0.14:
            lines.append("mw m%d" % rng.randrange(4))
            continue
        if k < 0.18:
            lines.append("serve none")
            continue
        if k < 0.24:
            lines.append("serve %s" % hx(rng.choice(ODD_PATHS)))
            continue
        p = mutate_path(rng, segs)
        path = "/" + "/".join(p)
        if k < 0.32:
            # Router.Match directly: any string, also without the leading slash
            q = rng.choice([path, path[1:], "x" + path, path + "\n", "", path[1:] + "/"])
            lines.append("match %s" % hx(q))
        else:
            lines.append("%s %s" % ("served" if rng.random() < 0.1 else "serve", hx(path)))
    return lines, meta


def gen_systematic():
    """small exhaustive families: every metacharacter as a literal segment against itself and against look-alikes;
    equal-length ties; FilterPath on "" and "/"."""
    cases = []
    for m in META:
        t = "/" + m
        lines = ["reset", "route %s h1" % hx(t), "serve %s" % hx(t)]
        for tw in TWIN.get(m, []) + ["x", ""]:
            lines.append("serve %s" % hx("/" + tw))
        lines.append("match %s" % hx(m))
        cases.append((lines, {"meta_literal": True, "invalid": 0, "templates": [t]}))
    ties = [["/a/{x}", "/{y}/b"], ["/{x}", "/a"], ["/{ab}", "/{cd}"], ["/{x}/b", "/a/{y}", "/{p}/{q}"], ["/é{v}", "/{v}ab"],
            ["/日{v}", "/{v}ab"], ["/{a}-{b}", "/{c}-{d}"], ["/a/b", "/a/{x}", "/a/{x:b}", "/a/{x:[a-z]}"], ["", "/"],
            ["/{x:.*}", "/a/b", "/a/{y}"], ["/{x:a|ab}{y:b?}", "/{x:ab|a}{y:b?}"]]
    for ts in ties:
        for perm in (ts, list(reversed(ts))):
            lines = ["reset"] + ["route %s h%d" % (hx(t), i) for i, t in enumerate(perm)]
            for p in ["/a/b", "/a", "/éab", "/日ab", "/x-y-z", "/", "/ab", "/a/c"]:
                lines.append("serve %s" % hx(p))
            lines.append("serve none")
            lines.append("unroute %s" % hx(perm[0]))
            lines.append("serve %s" % hx("/a/b"))
            lines.append("serve none")
            cases.append((lines, {"meta_literal": False, "invalid": 0, "templates": ts}))
    for t in INVALID + ODD_VALID:
        lines = ["reset", "route %s h1" % hx(t), "routef %s h2" % hx(t)] + ["serve %s" % hx(p) for p in ODD_PATHS[:14]]
        lines.append("unroute %s" % hx(t))
        cases.append((lines, {"meta_literal": False, "invalid": 1, "templates": [t]}))
    # sequences through the server-side adapter: a route with variables, then routes with fewer / other / no variables,
    # then paths nothing matches (default handler) — each handler must see the variables of its own request only
    seqs = [(["/rooms/{room}/lamps/{lamp}", "/rooms/{room}", "/version"],
             ["/rooms/r1/lamps/l2", "/rooms/r7", "/version", "/nothing/here", "", "/rooms/r9", "/rooms/a/lamps/b", "/version"]),
            (["/{a}/{b}/{c}", "/{a}/{b}", "/{z}", "/"], ["/1/2/3", "/4/5", "/6", "/", "", "/7/8/9/10", "/1/2/3", "/x"]),
            (["/u/{id:[0-9]+}", "/u/{name:[a-z]+}", "/u/me"], ["/u/12", "/u/bob", "/u/me", "/u/Bob", "/u/7", "/u/me", "/q"]),
            (["/{v}", "/{w}x", "/lit"], ["/ab", "/abx", "/lit", "/", "/q/r", "/lit", "/cx"])]
    for ts, ps in seqs:
        for dflt in (None, "default d1", "default nil"):
            lines = ["reset"] + ["route %s h%d" % (hx(t), i) for i, t in enumerate(ts)] + ([dflt] if dflt else [])
            for rep in range(3):
                for q in ps:
                    lines.append("serve %s" % (hx(q) if q else "none"))
            lines += ["mw m1"] + ["serve %s" % (hx(q) if q else "none") for q in reversed(ps)]
            cases.append((lines, {"meta_literal": False, "invalid": 0, "templates": ts}))
    # middlewares handed over as a caller-owned slice with spare capacity; the caller keeps using its slice
    for spare in (0, 1, 3):
        for names in ("u0", "u0,u1"):
            for after in (["mw x", "callerappend y"], ["callerset 0 z"], ["mw x", "mw w", "callerappend y", "callerset 0 z"], ["callerappend y", "mw x"]):
                lines = ["reset", "route %s h1" % hx("/a"), "usev %d %s" % (spare, names)] + after + \
                        ["serve %s" % hx("/a"), "serve %s" % hx("/zz"), "mw last", "serve %s" % hx("/a")]
                cases.append((lines, {"meta_literal": False, "invalid": 0, "templates": ["/a"]}))
    # accessors after register / replace / remove / refused registrations; the error handler set, replaced, and a router
    # whose default handler is the application's
    acc = ["reset", "getroutes", "getroute -", "servefail %s" % hx("/q"), "route %s h1" % hx("/a.b/{x}-{y:[0-9]+}"), "routef %s nil" % hx("/n"),
           "route - h2", "route %s h3" % hx("/a.b/{x}-{y:[0-9]+}"), "route %s h4" % hx("/{bad"), "route %s nil" % hx("/nilh"), "getroutes", "getroute -",
           "getroute %s" % hx("/"), "getroute %s" % hx("/n"), "getroute %s" % hx("/zz"), "getroute %s" % hx("/{bad"), "getroute %s" % hx("/nilh"),
           "unroute %s" % hx("/n"), "getroutes", "getroute %s" % hx("/n"), "serve %s" % hx("/a.b/p-q-12"), "unroute %s" % hx("/n"), "getroutes",
           "servefail %s" % hx("/nothing"), "seterr e1", "servefail %s" % hx("/nothing"), "seterr e2", "servefail none",
           "servefail %s" % hx("/nothing"), "servefail %s" % hx("/a.b/p-q-12"), "mw m1", "servefail %s" % hx("/nothing"), "default d1",
           "servefail %s" % hx("/nothing"), "getroutes", "defaultf nil", "servefail %s" % hx("/nothing"), "default nil", "servefail %s" % hx("/nothing"),
           "unroute -", "unroute %s" % hx("/a.b/{x}-{y:[0-9]+}"), "getroutes", "getroute -", "serve %s" % hx("/")]
    cases.append((acc, {"meta_literal": True, "invalid": 1, "templates": ["/a.b/{x}-{y:[0-9]+}"]}))
    for t in META[:20]:
        lines = ["reset", "route %s h1" % hx("/" + t + "/{v}"), "getroutes", "getroute %s" % hx("/" + t + "/{v}"), "getroute %s" % hx("/" + t)]
        cases.append((lines, {"meta_literal": True, "invalid": 0, "templates": ["/" + t + "/{v}"]}))
    for d in ["default nil", "defaultf nil", "default d1", "defaultf d2"]:
        lines = ["reset", "mw m1", "mw m2", d, "serve none", "serve %s" % hx("/"), "serve %s" % hx("/a"), "route - h1", "serve none",
                 "serve %s" % hx("/"), "serve %s" % hx("//"), "unroute %s" % hx("/"), "unroute -", "serve none", "routef %s nil" % hx("/a"),
                 "serve %s" % hx("/a"), "route %s nil" % hx("/b"), "serve %s" % hx("/b")]
        cases.append((lines, {"meta_literal": False, "invalid": 0, "templates": ["/"]}))
    return cases


# ---------------------------------------------------------------- requests as bytes (independent encoder, RFC 7252 §3 / RFC 8323 §3.2)

def _ext(v):
    if v < 13:
        return v, b""
    if v < 269:
        return 13, bytes([v - 13])
    return 14, (v - 269).to_bytes(2, "big")


def enc_options(opts):
    out = b""
    prev = 0
    for num, val in sorted(opts, key=lambda o: o[0]):      # stable: Uri-Path values keep their order
        dn, de = _ext(num - prev)
        ln, le = _ext(len(val))
        out += bytes([dn * 16 + ln]) + de + le + val
        prev = num
    return out


# RFC 7252 table 4 (+ RFC 7641 Observe, RFC 7959 Block/Size2, RFC 7967 No-Response): number -> (min, max) value length.  Used only to
# pick value lengths INSIDE and just OUTSIDE the range; Block1/Block2 are left out (a legal one engages the blockwise layer).
RFC_OPTION_LENGTHS = {1: (0, 8), 3: (1, 255), 4: (1, 8), 5: (0, 0), 6: (0, 3), 7: (0, 2), 8: (0, 255), 12: (0, 2), 14: (0, 4),
                      15: (0, 255), 17: (0, 2), 20: (0, 255), 28: (0, 4), 35: (1, 1034), 39: (1, 255), 60: (0, 4), 258: (0, 1)}
UNASSIGNED_OPTIONS = [2, 9, 10, 13, 16, 21, 300, 2048, 65000, 65535]
URI_PATH = 11


def other_option(rng, numbers, legal):
    """(number, value) of an option that is not Uri-Path: value length inside its range (legal) or just outside (a recipient
    ignores / skips such an option, RFC 7252 5.4.3); unassigned numbers have no range"""
    num = rng.choice(numbers)
    if num not in RFC_OPTION_LENGTHS:
        n = rng.choice([0, 1, 3, 13, 20])
    else:
        mn, mx = RFC_OPTION_LENGTHS[num]
        if legal:
            n = rng.choice([mn, mx if mx <= 16 else min(mx, 14), min(mx, mn + 1)])
        else:
            out = ([mn - 1] if mn > 0 else []) + [mx + 1] + ([mx + 2] if mx < 16 else [])
            n = rng.choice(out)
    return num, bytes(rng.choice(b"0123456789abcdefxyz") for _ in range(n))


def gen_option_list(rng, segs, before=None, behind=None):
    """the whole option list of a request as (delta, value) pairs in wire order: one Uri-Path option per segment plus other options
    in front of and behind them - in range, out of range (skipped by a recipient), unassigned, number 0.
    before / behind: explicit [(number, value)] lists instead of random ones"""
    low = [n for n in list(RFC_OPTION_LENGTHS) + UNASSIGNED_OPTIONS if n < URI_PATH]
    high = [n for n in list(RFC_OPTION_LENGTHS) + UNASSIGNED_OPTIONS if n > URI_PATH]
    if before is None:
        before = []
        k = rng.random()
        for _ in range(0 if k < 0.15 else 1 if k < 0.6 else 2 if k < 0.9 else 3):
            before.append(other_option(rng, low, legal=rng.random() < 0.35))
        if rng.random() < 0.05:
            before.append((0, b""))                         # delta 0 in front: option number 0
    if behind is None:
        behind = []
        k = rng.random()
        for _ in range(0 if k < 0.5 else 1 if k < 0.85 else 2):
            behind.append(other_option(rng, high, legal=rng.random() < 0.5))
    numbered = sorted(before, key=lambda o: o[0]) + [(URI_PATH, x.encode("utf-8")) for x in segs] + sorted(behind, key=lambda o: o[0])
    out, prev = [], 0
    for num, val in numbered:
        out.append((num - prev, val))
        prev = num
    return out


def enc_wire_opts(ws):
    """(delta, value) pairs -> bytes (RFC 7252 3.1: nibbles 13 / 14 announce one / two extension bytes)"""
    out = b""
    for d, val in ws:
        dn, de = _ext(d)
        ln, le = _ext(len(val))
        out += bytes([dn * 16 + ln]) + de + le + val
    return out


def opts_field(ws):
    return "o:" + ",".join("%d.%s" % (d, v.hex() if v else "-") for d, v in ws)


def parse_opts_field(field):
    """-> [(number, value bytes)] by the RFC's delta sums"""
    out, num = [], 0
    for item in [x for x in field[2:].split(",") if x]:
        d, v = item.split(".")
        num += int(d)
        out.append((num, b"" if v == "-" else bytes.fromhex(v)))
    return out


def skipped_by_rfc(num, val):
    return num in RFC_OPTION_LENGTHS and not (RFC_OPTION_LENGTHS[num][0] <= len(val) <= RFC_OPTION_LENGTHS[num][1])


def enc_request(rng, transport, code, segs, token=None, optlist=None):
    """datagram (udp, udpsrv) or frame (tcp/tcpsrv) of a message with the given code and one Uri-Path option per segment;
    optlist: the complete option list as (delta, value) pairs instead"""
    if token is None:
        token = bytes(rng.randrange(256) for _ in range(rng.choice([0, 1, 2, 4, 8])))
    opts = [(11, s.encode("utf-8")) for s in segs]
    if rng.random() < 0.25:
        opts.append((3, b"host"))
    if rng.random() < 0.25:
        opts.append((15, b"q=1"))
    if rng.random() < 0.15:
        opts.append((17, b""))
    if rng.random() < 0.1:
        opts.append((12, b""))
    body = enc_options(opts) if optlist is None else enc_wire_opts(optlist)
    if rng.random() < 0.25:
        body += b"\xff" + bytes(rng.randrange(256) for _ in range(rng.randrange(1, 20)))
    if transport in ("udp", "udpsrv"):
        typ = rng.choice([0, 1])                              # CON / NON
        mid = rng.randrange(1, 0xffff)
        return bytes([0x40 | (typ << 4) | len(token), code]) + mid.to_bytes(2, "big") + token + body
    n = len(body)
    if n < 13:
        nib, e = n, b""
    elif n < 269:
        nib, e = 13, bytes([n - 13])
    else:
        nib, e = 14, (n - 269).to_bytes(2, "big")
    return bytes([nib * 16 + len(token)]) + e + bytes([code]) + token + body


def segs_field(segs):
    return "none" if not segs else ",".join(hx(s) for s in segs)


def wire_line(rng, segs, code=None, transport=None, failed=False, optlist=None):
    """optlist: the request's complete option list ((delta, value) pairs; field 3 becomes `o:<delta>.<value>,…`);
    failed=True: the request carries the token of an exchange that FAILED just before on the same connection / server
    (observe registration that timed out; discovery whose datagram could not be written)"""
    if transport is None:
        transport = rng.choice(["udp", "udp", "udp", "tcp", "tcp", "tcpsrv", "udpsrv"])
    token = None
    field = transport
    if failed:
        token = bytes(rng.randrange(256) for _ in range(rng.choice([1, 2, 4, 8])))
        field = "%s+%s:%s" % (transport, "discfail" if transport == "udpsrv" else "obsfail", token.hex())
    if code is None:
        k = rng.random()
        code = rng.choice([1, 2, 3, 4]) if k < 0.4 else rng.choice([5, 6, 7]) if k < 0.8 else \
            rng.choice([8, 13, 20, 31]) if k < 0.9 else rng.choice([65, 69, 132, 160])
    if optlist is not None:
        return "wire %s %d %s %s" % (field, code, opts_field(optlist), enc_request(rng, transport, code, segs, token, optlist).hex())
    return "wire %s %d %s %s" % (field, code, segs_field(segs), enc_request(rng, transport, code, segs, token).hex())


def gen_wire_case(rng):
    """a case of gen_case with every dispatch turned into a request on the wire (extra weight on empty segments)"""
    lines, meta = gen_case(rng)
    out = []
    for l in lines:
        f = l.split()
        if f[0] in ("serve", "served"):
            segs = [] if f[1] == "none" else unhx(f[1])[1:].split("/")
            if segs and rng.random() < 0.25:
                i = rng.choice([len(segs), len(segs), 0, rng.randrange(len(segs) + 1)])
                segs = segs[:i] + [""] + segs[i:]
            if any(len(x.encode("utf-8")) > 255 for x in segs):
                continue
            optlist = gen_option_list(rng, segs) if rng.random() < 0.4 else None     # other options around the path, in and out of range
            out.append(wire_line(rng, segs, failed=rng.random() < 0.2, optlist=optlist))
        elif f[0] not in ("match", "getroutes", "getroute", "servefail"):
            out.append(l)
    return out, meta


def gen_wire_systematic(rng):
    cases = []
    fams = [(["/a", "/a/", "/dev/{id}", "/dev/{id}/", "//a", "/", "/{x}", "/{x}/"],
             [["a"], ["a", ""], ["dev", "42"], ["dev", "42", ""], ["", "a"], [""], [], ["", ""], ["zz"], ["zz", ""], ["a", "", ""]]),
            (["/a", "/dev/{id}"], [["a"], ["a", ""], ["dev", "42"], ["dev", "42", ""], ["", "a"], [""], []]),
            (["/rooms/{room}/lamps/{lamp}", "/rooms/{room}", "/version"],
             [["rooms", "r1", "lamps", "l2"], ["rooms", "r7"], ["version"], ["nothing", "here"], [], ["rooms", "r7", ""], ["version", ""]])]
    # a request under the token of an exchange that failed just before must be routed like any other
    for tr in ("udp", "tcp", "tcpsrv", "udpsrv"):
        for dflt in (None, "default d1"):
            lines = ["reset", "route %s hb" % hx("/b/{name}"), "route %s hello" % hx("/hello")] + ([dflt] if dflt else [])
            for code in (1, 2, 5):
                for segs in (["b", "x"], ["hello"], ["nothing"], []):
                    lines.append(wire_line(rng, segs, code, tr, failed=True))
                    lines.append(wire_line(rng, segs, code, tr))
            cases.append((lines, {"meta_literal": False, "invalid": 0, "templates": ["/b/{name}", "/hello"]}))
    # an option the recipient skips (value length out of range) in front of, or behind, the Uri-Path options: the path is the same
    ts = ["/", "/a", "/a/b", "/{x}/{y}/{z}", "/{x}", "/a/"]
    skipped = [(n, b"v" * k) for n, (mn, mx) in sorted(RFC_OPTION_LENGTHS.items()) if mx < 300
               for k in ([mn - 1] if mn > 0 else []) + [mx + 1]]
    for tr in ("udp", "tcp", "tcpsrv", "udpsrv"):
        for dflt in (None, "default d1"):
            lines = ["reset"] + ["route %s h%d" % (hx(t), i) for i, t in enumerate(ts)] + ([dflt] if dflt else [])
            for segs in (["a", "b"], ["a"], ["a", ""], ["zz", "zz"], []):
                for num, val in skipped:
                    before = [(num, val)] if num < URI_PATH else []
                    behind = [(num, val)] if num > URI_PATH else []
                    lines.append(wire_line(rng, segs, rng.choice([1, 2, 5]), tr, optlist=gen_option_list(rng, segs, before, behind)))
                for pair in ([(3, b""), (6, b"1234")], [(1, b"123456789"), (9, b"x")], [(0, b""), (5, b"x")], [(4, b""), (7, b"abc"), (8, b"loc")],
                             [(3, b"host"), (7, b"abc")], [(2, b"u"), (4, b"123456789")]):
                    lines.append(wire_line(rng, segs, 1, tr, optlist=gen_option_list(rng, segs, pair, [(12, b"xyz"), (2048, b"far")])))
            cases.append((lines, {"meta_literal": False, "invalid": 0, "templates": ts}))
    for ts, ps in fams:
        for tr in ("udp", "tcp", "tcpsrv", "udpsrv"):
            lines = ["reset"] + ["route %s h%d" % (hx(t), i) for i, t in enumerate(ts)]
            for code in (1, 2, 3, 4, 5, 6, 7, 20, 69):
                for segs in ps:
                    lines.append(wire_line(rng, segs, code, tr))
            lines += ["default d1"] + [wire_line(rng, segs, c, tr) for segs in ps for c in (1, 5)]
            lines += ["mw m1", "default nil"] + [wire_line(rng, segs, c, tr) for segs in ps for c in (2, 6)]
            cases.append((lines, {"meta_literal": False, "invalid": 0, "templates": ts}))
    return cases


AMB_PATTERNS = [".*", ".*?", ".+", ".+?", "[^/]+", "[^/]*?", "[^/]+?", "[ab]*", "[ab]+?", "a*", "a+?", "a|ab", "ab|a", "a|ab|abc",
                "abc|ab|a", "(?:a|ab)(?:c|bcd)?", "(?:ab|a)*", "(?:a|b)*?", "a?", "a??", "a{1,3}", "a{1,3}?", "a{2,}", "a{2,}?", "\\d+",
                "\\d+?", "\\d{1,2}", "[ab-]*", "(?:a|b|-)+", "(?:-|a)*?", "b?(?:ab)*", "(?:a*)", "(?:a|)", "(?:|a)", "(?:a|)b?", "[^-]*",
                "[^-]+?", "(?:ab|a)(?:bc|c)?", "(?:a|ab)(?:bc|c)??", "\\w*", "\\w+?", "(?:aa|a)+", "(?:a|aa)+?", "[a-c]{0,2}", "[a-c]{0,2}?"]
AMB_FIXED = [(["/{x}-{y}"], ["/p-q-r", "/a--b", "/-a-", "/---", "/a-b", "/-", "/a"]),
             (["/{x}-{y}-{z}"], ["/a-b-c-d-e", "/----", "/a-b-c", "/a-b"]),
             (["/{a}{b:.*}"], ["/abc", "/a", "/", "/a/b"]), (["/{a:.*}{b}"], ["/abc", "/a", "/a/b", "/a/"]),
             (["/{a:.*?}{b:.*}"], ["/abc", "/"]), (["/{a:\\d+}{b:\\d+}"], ["/12345", "/12", "/1"]),
             (["/{a:\\d+?}{b:\\d+}"], ["/12345", "/12"]), (["/{a:\\d{1,3}}{b:\\d*}"], ["/12345", "/12", "/1234"]),
             (["/{a:\\d{1,3}?}{b:\\d*}"], ["/12345", "/1"]), (["/{a:a|ab}{b:b?}c", "/{a:ab|a}{b:b?}c"], ["/abc", "/ac", "/abbc"]),
             (["/{a:a|ab|abc}{b:.*}"], ["/abcd", "/abc", "/ab", "/a"]), (["/{a:(?:a|ab)(?:c|bcd)?}{b:.*}"], ["/abcd", "/abc", "/acd"]),
             (["/{a:(?:ab|a)*}{b:[ab]*}"], ["/abab", "/aab", "/aba", "/"]), (["/{a:(?:a|b)*?}{b:b*}"], ["/abb", "/bbb", "/ab"]),
             (["/{x:.*}/{y:.*}/{z:.*}"], ["/a/b/c/d", "/a/b/c", "///", "/a//b/"]), (["/{x:.*?}/{y:.*}"], ["/a/b/c", "//"]),
             (["/{x:.+}/{y}"], ["/a/b/c", "/a/b"]), (["/{a:x??}{b:x*}"], ["/xx", "/x", "/"]),
             (["/{v}-{v}"], ["/a-b-c", "/a-b"]), (["/{a:(?:aa|a)+}{b:a*}"], ["/aaa", "/aaaa", "/a"]),
             (["/{a:(?:a|aa)+?}{b:a*}"], ["/aaa", "/a"]), (["{x:.*}{y:.*}"], ["/abc", "/"]),
             (["/é{a:.*}{b:é*}"], ["/ééé", "/éaé"])]


def gen_ambiguous(rng):
    """a case whose templates have several variables side by side (or separated by a character their patterns admit), greedy
    against lazy, alternations: most of its paths have two or more decompositions along the dispatched pattern"""
    alpha = "aab-1c/"
    nvars = rng.choice([2, 2, 2, 3])
    names = rng.sample(["x", "y", "z", "v", "w"], nvars)
    t = rng.choice(["/", "/", "/", "", "/k", "/a"])
    for i, n in enumerate(names):
        p = rng.choice(AMB_PATTERNS)
        t += "{%s}" % n if p == "[^/]+" and rng.random() < 0.5 else "{%s:%s}" % (n, p)
        if i < nvars - 1:
            t += rng.choice(["", "", "-", "/", "a", "ab"])
    t += rng.choice(["", "", "", "c", "-", "/", "b"])
    lines = ["reset", "route %s h1" % hx(t)]
    templates = [t]
    if rng.random() < 0.3:
        t2 = rng.choice(AMB_FIXED)[0][0]
        lines.append("route %s h2" % hx(t2))
        templates.append(t2)
    if rng.random() < 0.2:
        lines.append("mw m1")
    for _ in range(rng.choice([6, 8, 10])):
        n = rng.choice([0, 1, 2, 3, 3, 4, 4, 5, 6, 8])
        path = "/" + "".join(rng.choice(alpha) for _ in range(n))
        k = rng.random()
        if k < 0.1:
            lines.append("match %s" % hx(path))
        else:
            lines.append("%s %s" % ("served" if k < 0.2 else "serve", hx(path)))
    return lines, {"meta_literal": False, "invalid": 0, "templates": templates}


def gen_ambiguous_systematic():
    cases = []
    for ts, ps in AMB_FIXED:
        lines = ["reset"] + ["route %s h%d" % (hx(t), i) for i, t in enumerate(ts)]
        for q in ps:
            lines.append("serve %s" % hx(q))
            lines.append("match %s" % hx(q))
        cases.append((lines, {"meta_literal": False, "invalid": 0, "templates": ts}))
    return cases


MOUNTS = [("/api/{rest:.*}", "rest"), ("/m/{p:.+}", "p"), ("/{t}/sub/{tail:.*}", "tail"), ("/v{n:[0-9]}/{r:.*}", "r"), ("/ap/{rest}", "rest"),
          ("/{rest:.*}", "rest"), ("/api/{a}/{rest:.*}", "rest"), ("/é/{ü:.*}", "ü")]
OUTER_PLAIN = ["/x/{a}", "/api/status", "/{x}", "/x/{a}/{b}", "/", "/nothing/{h}", "/api/dev/{id}/on"]
INNER_ROUTES = ["/dev/{id}", "/dev/{id}/{x}", "/{rest}", "/status", "/", "/{a}-{b}", "/dev/{rest:.*}", "/{id:[0-9]+}", "/{a:a|ab}{b:b?}c", "/{x}/sub/{y}"]
MSG_PATHS = ["/api/dev/42", "/api/dev/42/on", "/api/status", "/api/", "/api", "/nothing/here", "/x/7", "/m/dev/1", "/m/", "/t/sub/dev/3",
             "/v1/dev/5", "/api/a-b", "/api/12", None, "/", "/x/7/8", "/api//dev", "/ap/dev", "/dev/42", "/api/abc", "/api/q/dev/9", "/é/dev/ü",
             "/m/status", "/api/dev/42/on/", "/api/p-q-r"]


def distinct_lengths(rng, pool, k, taken):
    out = []
    for t in rng.sample(pool, len(pool)):
        n = len((t[0] if isinstance(t, tuple) else t).encode("utf-8"))
        if n in taken:
            continue
        taken.add(n)
        out.append(t)
        if len(out) == k:
            break
    return out


def gen_nested(rng):
    """one message object dispatched again and again while its Uri-Path is rewritten; routes of the outer router whose
    handler strips the path to a variable and hands the same message to an inner router.  Patterns of one router have
    pairwise different lengths (no ties: the state of the message after a dispatch is then determined)."""
    lines = ["reset"]
    taken = set()
    mounts = distinct_lengths(rng, MOUNTS, rng.choice([1, 1, 2]), taken)
    plains = distinct_lengths(rng, OUTER_PLAIN, rng.choice([0, 1, 2]), taken)
    for i, (t, v) in enumerate(mounts):
        lines.append("mount %s %s" % (hx(t), hx(v)))
    for i, t in enumerate(plains):
        lines.append("route %s o%d" % (hx(t), i))
    if rng.random() < 0.6:
        lines.append(rng.choice(["default od", "defaultf od", "default nil"]))
    for _ in range(rng.choice([0, 0, 1, 2])):
        lines.append("mw m%d" % rng.randrange(3))
    itaken = set()
    inner = distinct_lengths(rng, INNER_ROUTES, rng.choice([1, 2, 3]), itaken)
    for i, t in enumerate(inner):
        lines.append("inner route %s i%d" % (hx(t), i))
    if rng.random() < 0.6:
        lines.append(rng.choice(["inner default id", "inner defaultf id"]))
    for _ in range(rng.choice([0, 0, 1])):
        lines.append("inner mw n%d" % rng.randrange(3))

    def parg(q):
        return "none" if q is None else hx(q)
    lines.append("msgnew %s" % parg(rng.choice(MSG_PATHS)))
    lines.append("msgserve")
    for _ in range(rng.choice([3, 5, 8])):
        k = rng.random()
        if k < 0.08:
            lines.append("msgnew %s" % parg(rng.choice(MSG_PATHS)))
        elif k < 0.14 and inner:
            lines.append(rng.choice(["inner unroute %s" % hx(rng.choice(inner)), "unroute %s" % hx(rng.choice(mounts)[0])]))
        elif k < 0.85:
            lines.append("msgpath %s" % parg(rng.choice(MSG_PATHS)))
        lines.append("msgserve")
    return lines, {"meta_literal": False, "invalid": 0, "templates": [m[0] for m in mounts] + plains + inner}


# ---------------------------------------------------------------- long runs: many modifications of the route table between two dispatches

POW16 = 1 << 16
LONG_TOTALS = [255, 256, 257, POW16 - 1, POW16, POW16 + 1, 2 * POW16]
LONG_TOTALS_THOROUGH = LONG_TOTALS + [3 * POW16, 1 << 18, (1 << 20) - 1, 1 << 20]


def long_scenarios(total):
    """histories in which exactly `total` modifications of the route table (Handle / HandleRemove calls that succeed) lie between two
    dispatches of the same path, one of them concerning a route that matches it: -> {name: lines}"""
    d, p7 = hx("/dev/42"), hx("/dev/7")
    rid, rab, rnum, rname = hx("/dev/{id}"), hx("/{a}/{b}"), hx("/dev/{id:[0-9]+}"), hx("/dev/{nm}")
    tmp = hx("/tmp/")
    out = {}
    out["removed"] = ["reset", "default d1", "route %s h1" % rid, "serve %s" % d, "unroute %s" % rid,
                      "churn %d %s c" % (total - 1, tmp), "serve %s" % d, "serve %s" % p7]
    out["removed-builtin-default"] = ["reset", "mw m1", "routef %s h1" % rid, "served %s" % d, "unroute %s" % rid,
                                      "churn %d %s c" % (total - 1, tmp), "served %s" % d]
    out["longer-added"] = ["reset", "route %s h1" % rab, "serve %s" % d, "route %s h2" % rnum,
                           "churn %d %s c" % (total - 1, tmp), "serve %s" % d, "serve %s" % hx("/dev/x")]
    out["replaced"] = ["reset", "route %s h1" % rid, "serve %s" % d, "route %s h2" % rid,
                       "churn %d %s c" % (total - 1, tmp), "serve %s" % d]
    if total >= 2:
        out["removed-and-registered-under-another-name"] = ["reset", "route %s h1" % rid, "serve %s" % d, "unroute %s" % rid, "route %s h2" % rname,
                                                            "churn %d %s c" % (total - 2, tmp), "serve %s" % d]
        out["run-split-by-an-unmatched-dispatch"] = ["reset", "default d1", "route %s h1" % rid, "serve %s" % d, "unroute %s" % rid,
                                                     "churn %d %s c" % ((total - 1) // 2, tmp), "serve %s" % hx("/nothing/here"),
                                                     "churn %d %s c" % (total - 1 - (total - 1) // 2, hx("/t2/")), "serve %s" % d]
    out["run-over-patterns-under-the-same-prefix"] = ["reset", "default d1", "route %s h1" % rid, "serve %s" % p7, "unroute %s" % rid,
                                                      "churn %d %s c" % (total - 1, hx("/dev/")), "serve %s" % p7, "serve %s" % hx("/dev/%d" % ((total - 1) // 2))]
    out["registered-after-a-default-dispatch"] = ["reset", "default d1", "serve %s" % d, "route %s h1" % rid,
                                                  "churn %d %s c" % (total - 1, tmp), "serve %s" % d]
    out["match-directly"] = ["reset", "route %s h1" % rab, "match %s" % d, "route %s h2" % rnum,
                             "churn %d %s c" % (total - 1, tmp), "match %s" % d, "unroute %s" % rnum, "unroute %s" % rab,
                             "churn %d %s c" % (max(total - 2, 0), tmp), "match %s" % d]
    return out


def gen_long_systematic(thorough):
    cases = []
    meta = {"meta_literal": False, "invalid": 0, "templates": ["/dev/{id}", "/{a}/{b}", "/dev/{id:[0-9]+}"]}
    main = ("removed", "longer-added", "replaced")
    for total in (LONG_TOTALS_THOROUGH if thorough else LONG_TOTALS):
        for name, lines in long_scenarios(total).items():
            if thorough and total > 2 * POW16 and name not in main:
                continue
            if not thorough and name not in main and total not in (256, POW16):
                continue
            cases.append((lines, dict(meta, long=name)))
    # every power of two (a modification counter of any width wraps at one of them) and its neighbours
    for k in range(1, 16):
        for total in ((1 << k) - 1, 1 << k, (1 << k) + 1):
            if total >= 1:
                cases.append((long_scenarios(total)["removed"], dict(meta, long="removed")))
                if thorough:
                    cases.append((long_scenarios(total)["longer-added"], dict(meta, long="longer-added")))
    return cases


def gen_long_run(rng):
    """random route set around a target path; the path is dispatched, then `total` modifications follow - the first one or two concern
    a route that matches the path (removed, replaced, a new template for the path), the rest is a run over unrelated patterns - and the
    path is dispatched again.  `total` is mostly a multiple of 2^16 or next to one."""
    k = rng.random()
    total = POW16 if k < 0.5 else 2 * POW16 if k < 0.62 else rng.choice([POW16 - 1, POW16 + 1, 256, 512, 255, 257, 4096]) if k < 0.85 else rng.randrange(1, 3000)
    segs = [rng.choice(PLAIN) for _ in range(rng.choice([1, 2, 2, 3]))]
    path = "/" + "/".join(segs)
    lines = ["reset"]
    for _ in range(rng.choice([0, 0, 1, 2])):
        lines.append("mw m%d" % rng.randrange(4))
    if rng.random() < 0.6:
        lines.append(rng.choice(["default d1", "defaultf d2", "default nil"]))
    templates = []
    for i in range(rng.choice([1, 2, 3, 4])):
        t = template_for(rng, segs)
        templates.append(t)
        lines.append("%s %s h%d" % (rng.choice(["route", "route", "routef"]), hx(t), i))
    other = "/" + "/".join(mutate_path(rng, segs))
    serve = rng.choice(["serve", "serve", "serve", "served"])
    lines.append("%s %s" % (serve, hx(path)))
    if rng.random() < 0.3:
        lines += ["serve %s" % hx(other), "%s %s" % (serve, hx(path))]
    m = 0
    for j in range(rng.choice([1, 1, 2])):
        a = rng.random()
        if a < 0.45 and templates:
            t = rng.choice(templates)
            templates.remove(t)
            lines.append("unroute %s" % hx(t))
        elif a < 0.7 and templates:
            lines.append("route %s g%d" % (hx(rng.choice(templates)), j))
        else:
            t = template_for(rng, segs)
            templates.append(t)
            lines.append("route %s n%d" % (hx(t), j))
        m += 1
    prefix = rng.choice(["/tmp/", "/r", "/" + segs[0] + "/", "/é/", "/tmp.", "/"])
    rest = max(total - m, 0)
    if rng.random() < 0.3 and rest >= 2:
        cut = rng.randrange(1, rest)
        lines += ["churn %d %s c" % (cut, hx(prefix)), "serve %s" % hx(rng.choice(["/no/such/thing", other])), "churn %d %s c" % (rest - cut, hx("/t2/"))]
    else:
        lines.append("churn %d %s c" % (rest, hx(prefix)))
    lines.append("%s %s" % (serve, hx(path)))
    lines.append("serve %s" % hx(other))
    return lines, {"meta_literal": False, "invalid": 0, "templates": templates, "long": "random"}


def load_corpus():
    out = []
    for p in sorted(glob.glob(os.path.join(common.VERIF, "corpus", "C17", "*.json"))):
        try:
            out.append((json.load(open(p))["input"], {"meta_literal": False, "invalid": 0, "templates": [], "corpus": os.path.basename(p)}))
        except Exception:
            pass
    return out


def run_wire(art, lines):
    """the lines through harness/c17wire (go test binary, synctest, real connections)"""
    d = os.path.join(common.WORK, "C17")
    os.makedirs(d, exist_ok=True)
    inp = os.path.join(d, "wire-%d.in" % os.getpid())
    outp = os.path.join(d, "wire-%d.out" % os.getpid())
    open(inp, "w").write("\n".join(lines) + "\n")
    if os.path.exists(outp):
        os.remove(outp)
    e = dict(os.environ, VERIF_IN=inp, VERIF_OUT=outp)
    try:
        p = subprocess.run([art["wire"], "-test.run", "^TestC17Wire$", "-test.timeout", "1500s"], cwd=d, env=e,
                           stdout=subprocess.PIPE, stderr=subprocess.STDOUT, text=True, timeout=1600)
    except subprocess.TimeoutExpired:
        return 1, [], "c17wire timed out"
    out = open(outp).read().splitlines() if os.path.exists(outp) else []
    return p.returncode, out, p.stdout[-600:]


def run_lines(art, lines):
    """(impl, model, judge) output lists; any may be None. Lines with `wire` requests go to the connection harness."""
    if any(l.startswith("wire ") for l in lines):
        if not art.get("wire"):
            return None, None, None, "wire harness missing"
        rc, impl, err = run_wire(art, lines)
    else:
        rc, impl, err = common.pipe_lines([art["hx"]], lines)
    if rc != 0 or len(impl) != len(lines):
        return None, None, None, "harness rc=%d lines=%d/%d %s" % (rc, len(impl), len(lines), err[-300:])
    if not art.get("driver"):
        return impl, None, None, "driver missing"
    rc1, model, e1 = common.pipe_lines([art["driver"], "model"], lines)
    rc2, judge, e2 = common.pipe_lines([art["driver"], "judge"], ["%s | %s" % (l, o) for l, o in zip(lines, impl)])
    if rc1 or rc2 or len(model) != len(lines) or len(judge) != len(lines):
        return impl, None, None, "driver rc=%d/%d %s %s" % (rc1, rc2, e1[-200:], e2[-200:])
    return impl, model, judge, None


def model_accepts(model_line, impl_line):
    body = model_line.split(" ## ")[0]
    return impl_line in body.split(" || ")


def first_bad(art, lines):
    """index and clause of the first judge failure in a case, else None"""
    impl, model, judge, err = run_lines(art, lines)
    if err or judge is None:
        return None
    for i, (o, j) in enumerate(zip(impl, judge)):
        if o.startswith("panic other") or o.startswith("multi") or o.startswith("chain-without") or o.startswith("bad-path"):
            return i, "no-crash:" + o.split()[0] + (":" + o.split()[1].split(":")[0] if len(o.split()) > 1 else ""), o
        if j.startswith("violates"):
            return i, j.split(" ", 1)[1], o
    return None


def minimise(art, lines, clause):
    fb = first_bad(art, lines)
    if fb is None:
        return lines
    lines = lines[:fb[0] + 1]
    i = 1
    while i < len(lines) - 1:
        trial = lines[:i] + lines[i + 1:]
        fb2 = first_bad(art, trial)
        if fb2 is not None and fb2[0] == len(trial) - 1 and fb2[1] == clause:
            lines = trial
        else:
            i += 1
    return lines


DISPATCH_OPS = ("serve", "served", "match", "wire", "servefail", "msgserve")


def show_line(l):
    f = l.split()
    if f[0] == "wire" and f[3].startswith("o:"):
        opts = parse_opts_field(f[3])
        segs = [v.decode("utf-8", "replace") for n, v in opts if n == URI_PATH]
        return "wire %s code=%s path=%r options=[%s] bytes=%s" % (
            f[1], f[2], "(no Uri-Path)" if not segs else "/" + "/".join(segs),
            " ".join("%d:%s%s" % (n, v.hex() if len(v) <= 8 else "<%d bytes>" % len(v), "(out of range)" if skipped_by_rfc(n, v) else "") for n, v in opts), f[4])
    if f[0] == "wire":
        return "wire %s code=%s path=%r bytes=%s" % (f[1], f[2], "(no Uri-Path)" if f[3] == "none" else "/" + "/".join(unhx(x) for x in f[3].split(",")), f[4])
    if f[0] == "churn" and len(f) == 4:
        return "churn %s %r %s (= %s modifications of the route table: Handle/HandleRemove of %s0, %s0, %s1, ...)" % (f[1], unhx(f[2]), f[3], f[1], unhx(f[2]), unhx(f[2]), unhx(f[2]))
    if len(f) > 1 and f[0] in ("route", "routef", "unroute", "serve", "served", "match") and f[1] != "none":
        return f[0] + " " + repr(unhx(f[1])) + " " + " ".join(f[2:])
    return l


def explore(ctx, art):
    rng = random.Random(ctx.seed)
    thorough = ctx.tier == "thorough"
    cases = load_corpus()
    direct = [c for c in cases if not any(l.startswith("wire ") for l in c[0])] + gen_systematic()
    wired = [c for c in cases if any(l.startswith("wire ") for l in c[0])]
    direct += gen_ambiguous_systematic()
    n_amb = 20000 if thorough else 1500
    for _ in range(n_amb):
        direct.append(gen_ambiguous(rng))
    n_nested = 10000 if thorough else 800
    for _ in range(n_nested):
        direct.append(gen_nested(rng))
    direct += gen_long_systematic(thorough)
    n_long = 120 if thorough else 10
    for _ in range(n_long):
        direct.append(gen_long_run(rng))
    n_random = 100000 if thorough else 6000
    for _ in range(n_random):
        direct.append(gen_case(rng))
    evaluate(ctx, art, direct, n_random)
    if art.get("wire"):
        wired += gen_wire_systematic(rng)
        n_wire = 10000 if thorough else 1000
        for _ in range(n_wire):
            wired.append(gen_wire_case(rng))
        evaluate(ctx, art, wired, n_wire)
    ctx.cov["distinct_nontrivial"] = len(ctx.nontrivial)
    ctx.cov["distinct_ambiguous_dispatches"] = len(getattr(ctx, "ambiguous", ()))
    ctx.cov["rule"] = ("one evaluation = one dispatch (serve: through mux.ToHandler, the servers' adapter, requests of a case one after another; "
                       "served: Router.ServeCOAP directly; match: Router.Match directly; wire: request BYTES from an independent encoder "
                       "- any method code, one Uri-Path option per segment incl. empty ones, optionally with other options in front of and behind them whose value "
                       "length is inside or OUTSIDE the range of their definition (skipped by the decoder; the path is made of the options whose deltas add up to 11), optionally under the token of an observe registration / "
                       "discovery that failed just before - into a real udp/tcp connection, tcp server or udp server on a loopback socket "
                       "whose handler was installed by options.WithMux) after a "
                       "sequence of route/routef/unroute/default/mw operations on a fresh real mux.Router - also LONG ones: churn = a run of n Handle/HandleRemove "
                       "calls in one line, with 2^k - 1, 2^k, 2^k + 1 (k up to 16), 2^17 and more modifications between two dispatches of one path "
                       "(histogram dispatch-after-a-run-of-...). Non-trivial = at least two "
                       "registered patterns match the path, or a registered template has a regex metacharacter in a literal; distinct by "
                       "(operation prefix, request). The implementation's answer must be among the model's outcomes over all map "
                       "iteration orders and is judged by Spec/Router (derivative matcher, independent template cutter) and Spec/RouterPrefer "
                       "(the variables must be those of the leftmost-first decomposition; distinct_ambiguous_dispatches = dispatches whose path "
                       "has two or more decompositions along the dispatched pattern). servefail: a response writer that refuses; msgserve: "
                       "ServeCOAP on ONE message object again and again while its Uri-Path is rewritten, also through mount routes into an inner "
                       "router; getroutes / getroute: accessors compared with model and judged against the judge's record of registrations.")


def evaluate(ctx, art, cases, n_random):
    if not hasattr(ctx, "nontrivial"):
        ctx.nontrivial = set()
    nontrivial = ctx.nontrivial
    if not hasattr(ctx, "ambiguous"):
        ctx.ambiguous = set()
    ambiguous = ctx.ambiguous
    lines, owner = [], []
    for ci, (ls, meta) in enumerate(cases):
        for l in ls:
            lines.append(l)
            owner.append(ci)
    impl, model, judge, err = run_lines(art, lines)
    if err:
        ctx.broken.append(("correspondence" if impl is None else "model", "C17 run failed", err))
    if impl is None:
        return
    bad_cases = {}
    mism = 0
    since = 0          # modifications of the route table since the previous dispatch of the case
    for i, (l, o) in enumerate(zip(lines, impl)):
        ci = owner[i]
        op = l.split()[0]
        ctx.count("op-" + op)
        if op == "reset":
            since = 0
        elif op == "churn" and o.startswith("ok "):
            since += int(o.split()[1])
            ctx.count("modifications-in-runs", int(o.split()[1]))
        elif op in ("route", "routef", "unroute") and o == "ok":
            since += 1
        if op in DISPATCH_OPS:
            if since >= 255:
                ctx.count("dispatch-after-a-run-of-%s-modifications" % (
                    "2^16*k" if since % POW16 == 0 else "2^16*k+-1" if since % POW16 in (1, POW16 - 1) else
                    "2^8*k" if since % 256 == 0 else "other-255+"))
            since = 0
            ctx.cov["evaluations"] += 1
            ctx.count("out-" + o.split()[0])
            if op == "wire":
                f = l.split()
                if "+" in f[1]:
                    ctx.count("wire-after-failed-" + f[1].split("+")[1].split(":")[0])
                ctx.count("wire-%s-code-%s" % (f[1].split("+")[0], f[2] if int(f[2]) <= 7 else "other"))
                if f[3].startswith("o:"):
                    opts = parse_opts_field(f[3])
                    ctx.count("wire-with-whole-option-list")
                    if any(n < URI_PATH and skipped_by_rfc(n, v) for n, v in opts):
                        ctx.count("wire-out-of-range-option-before-uri-path" if any(n == URI_PATH for n, v in opts) else "wire-out-of-range-option-and-no-uri-path")
                    if any(n > URI_PATH and skipped_by_rfc(n, v) for n, v in opts):
                        ctx.count("wire-out-of-range-option-behind-uri-path")
                    if any(n == URI_PATH and not v for n, v in opts):
                        ctx.count("wire-empty-uri-path-segment")
                elif f[3] != "none" and "-" in f[3].split(","):
                    ctx.count("wire-empty-uri-path-segment")
        elif op in ("route", "routef", "unroute"):
            ctx.count("reg-" + " ".join(o.split()[:2]))
        if o.startswith("panic other") or o.split()[0] in ("multi", "chain-without-handler", "bad-path", "bad-op", "process-error", "conn-error", "preamble-did-not-fail", "sentinel-lost"):
            bad_cases.setdefault(ci, ("no-crash:" + o.split()[0], "%s -> %s" % (l, o[:200])))
            continue
        if judge is not None:
            j = judge[i]
            if j.startswith("violates"):
                bad_cases.setdefault(ci, (j.split(" ", 1)[1], "%s: observed `%s`: %s" % (show_line(l)[:200], o[:200], j)))
            elif j.startswith("ok ambiguous "):
                n = int(j.split()[2])
                ctx.count("path-with-%s-decompositions-along-the-dispatched-pattern" % (n if n < 4 else "4+"))
                ambiguous.add((tuple(cases[ci][0][:cases[ci][0].index(l) if l in cases[ci][0] else 0]), l))
            elif j != "ok":
                mism += 1
                if mism <= 3:
                    ctx.broken.append(("correspondence", "C17 judge cannot evaluate (generator outside the modelled subset?)",
                                       "case %d `%s` observed `%s` judge `%s`" % (ci, l, o[:200], j)))
        if model is not None:
            m = model[i]
            if not model_accepts(m, o):
                mism += 1
                if mism <= 5:
                    ctx.broken.append(("correspondence", "C17 model vs implementation",
                                       "case %d `%s`: impl `%s` model `%s`; case: %s" % (ci, show_line(l), o[:300], m[:300], " ; ".join(cases[ci][0][:40]))))
            if op in DISPATCH_OPS and " ## " in m:
                k = int(m.rsplit(" ## ", 1)[1])
                ctx.count("matching-%s" % (k if k < 4 else "4+"))
                if " || " in m:
                    ctx.count("tie-with-several-admissible-outcomes")
                if k >= 2 or cases[ci][1].get("meta_literal"):
                    nontrivial.add((tuple(cases[ci][0][:cases[ci][0].index(l) if l in cases[ci][0] else 0]), l))
    for ci, (clause, what) in list(bad_cases.items())[:6]:
        ls, meta = cases[ci]
        # state can leak from earlier cases (process-wide pools): make the replay self-contained
        back = 0
        while first_bad(art, ls) is None and back < 3 and ci - back - 1 >= 0:
            back += 1
            ls = cases[ci - back][0] + ls
        mini = minimise(art, ls, clause) if not clause.startswith("no-crash") else ls
        sig = "C17:%s" % clause
        ctx.violations.append(common.Violation(clause, sig, what, {"input": mini, "readable": [show_line(l) for l in mini],
                                                                   "templates": [unhx(l.split()[1]) for l in mini if l.split()[0] in ("route", "routef")]}))
    ctx.cov["traces_validated_against_impl"] = ctx.cov.get("traces_validated_against_impl", 0) + len(cases)
    for ls, meta in cases[len(cases) - n_random:len(cases) - n_random + 2]:
        ctx.sample({"templates": meta["templates"], "ops": [show_line(l)[:160] for l in ls[:14]]})


def race_evidence(ctx, art_race):
    """concurrent Handle/HandleRemove/DefaultHandle/ServeCOAP under the race detector (evidence), and concurrent writers
    on disjoint patterns whose joint result is known (lost updates)"""
    ms = 8000 if ctx.tier == "thorough" else 1500
    rounds = 4000 if ctx.tier == "thorough" else 600
    inp = os.path.join(ctx.work, "race.in")
    outp = os.path.join(ctx.work, "race.out")
    lines = ["race %d %d 3" % (ctx.seed, ms), "writers %d %d 4" % (ctx.seed, rounds), "writers %d %d 2" % (ctx.seed + 1, rounds)]
    open(inp, "w").write("\n".join(lines) + "\n")
    if os.path.exists(outp):
        os.remove(outp)
    e = dict(os.environ, VERIF_IN=inp, VERIF_OUT=outp, GORACE="halt_on_error=0 history_size=2")
    try:
        p = subprocess.run([art_race, "-test.run", "^TestC17Race$", "-test.timeout", "300s"], cwd=ctx.work, env=e,
                           stdout=subprocess.PIPE, stderr=subprocess.STDOUT, text=True, timeout=400)
    except subprocess.TimeoutExpired:
        ctx.broken.append(("correspondence", "c17race timed out", ""))
        return
    outs = open(outp).read().splitlines() if os.path.exists(outp) else []
    log = p.stdout
    if "DATA RACE" in log:
        import re as _re
        funcs = sorted(set(_re.findall(r"go-coap/v3/mux\.(\(\*?\w+\)\.\w+|\w+)\(", log)))[:6]
        ctx.violations.append(common.Violation("data-race", "C17:data-race:" + "+".join(funcs),
                                               "race detector report during concurrent Handle/HandleRemove/DefaultHandle/ServeCOAP: " + ",".join(funcs),
                                               {"input": lines, "race": True, "report": log[:3000]}))
        return
    for line, out in zip(lines, outs):
        if out.startswith("bad "):
            clause = out.split()[1].split("_")[0]
            ctx.violations.append(common.Violation("concurrent-" + clause, "C17:concurrent:" + clause,
                                                   "%s -> %s" % (line, out[:400].replace("_", " ")), {"input": [line], "race": True}))
            return
    if p.returncode != 0 or len(outs) != len(lines) or not all(o.startswith("ok ") for o in outs):
        ctx.broken.append(("correspondence", "c17race failed rc=%d" % p.returncode, ("\n".join(outs) + "\n" + log)[-1500:]))
        return
    kv = dict(x.split("=") for x in outs[0].split()[1:])
    wops = sum(int(dict(x.split("=") for x in o.split()[1:])["operations"]) for o in outs[1:])
    ctx.cov["race_run"] = {"milliseconds": ms, "dispatches": int(kv.get("serves", 0)), "mutations": int(kv.get("mutations", 0)),
                           "race_reports": 0, "concurrent_writer_rounds": 2 * rounds, "concurrent_writer_operations": wops}
    ctx.count("race-dispatches", int(kv.get("serves", 0)))
    ctx.count("concurrent-writer-operations", wops)
    ctx.notes.append("race detector run: %s; concurrent writers on disjoint patterns: %s (evidence, not proof; the proof part is "
                     "lock_discipline / route_table_updated_in_place over Generated/RouterLockShape)" % (outs[0], "; ".join(outs[1:])))


def prepare(ctx):
    art = common.standard_prepare(ctx, MODULES, hx=True, test=False, generated=GENERATED)
    with common.Lock():
        art["race"] = common.build_test(ctx, "c17race", race=True)
        art["wire"] = common.build_test(ctx, "c17wire")
    return art


def run(ctx):
    art = prepare(ctx)
    if art.get("hx"):
        explore(ctx, art)
    if art.get("race"):
        race_evidence(ctx, art["race"])
    ctx.assumptions += [
        "Go's regexp package is trusted on the pattern subset of Model/RouterPat.lean (leftmost-first submatch semantics = priority backtracking; QuoteMeta yields literals)",
        "strings are valid UTF-8 (the harness only sends such); lengths of patterns are UTF-8 byte lengths",
        "data-race freedom of the real binary = lock discipline over the extracted accesses (proved) + race-detector run (evidence)",
    ]
    return common.finish(ctx)


def replay(ctx, rep):
    art = prepare(ctx)
    lines = rep.get("input") or []
    if not lines:
        print("replay file names no failing input:", rep.get("no_longer_checks"))
        return 1
    if rep.get("race"):
        race_evidence(ctx, art["race"])
        for v in ctx.violations:
            print("VIOLATION property=C17 replay=(replayed) still reproduces:", v.what[:300])
        return 1 if ctx.violations else 0
    impl, model, judge, err = run_lines(art, lines)
    if err:
        print("replay failed:", err)
        return 1
    bad = 0
    for l, o, m, j in zip(lines, impl, model, judge):
        shown = show_line(l)
        print("%s: implementation `%s`  model `%s`  judge `%s`" % (shown, o[:200], m[:200], j))
        if j.startswith("violates") or o.startswith("panic other"):
            bad += 1
    if bad:
        print("VIOLATION property=C17 replay=(replayed) still reproduces")
    return 1 if bad else 0
