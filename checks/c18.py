"""C18 — inactivity and keep-alive monitors (DESIGN.md §5 C18).

Proof: Props/C18.lean (closed_only_if_silent_for_period, closed_at_first_tick_after_period,
keepalive_close_needs_unanswered_run, answered_resets, late_pong_not_credited, datagram_close_bound_partial)
+ Findings/C18.lean (witness for the datagram server look-ahead, known finding O3).
Tie: T — comparison operators, "Notify resets the counter" and the server look-ahead are read from the AST;
     X — event histories {recv, pong g, tick t} with spacing around the period on (a) the real Monitor/KeepAlive
         objects and (b) real udp / tcp client.Conn configured through options.WithKeepAlive/WithInactivityMonitor
         (in-memory transports, synctest virtual time), compared with the model and judged by the reference monitor;
         plus one real-socket probe of the datagram server's per-datagram expiry check.
"""
import os
import random
import subprocess

from . import common

MODULES = ["CoapVerif.Props.C18", "CoapVerif.Props.C18Far", "CoapVerif.Props.C18Runner", "CoapVerif.Findings.C18"]
GENERATED = ["Monitor.lean"]


def gen_case(rng, level=None):
    level = level or rng.choice(["unit", "unit", "udp", "tcp", "tcpsrv", "dtlssrv", "tcpsrvdef", "dtlssrvdef", "udpnc", "tcpnc", "udpreq"])
    stream = level in ("tcp", "tcpsrv", "tcpsrvdef", "tcpnc")
    can_fail = level in ("unit", "udp", "udpnc", "udpreq")
    period = rng.choice([100, 1000, 1_000_000, 16_000_000_000 // 3])
    n = rng.choice(["-", "0", "1", "2", "3"])
    if level.endswith("nc") and n == "-":
        n = rng.choice(["0", "1", "2"])      # the give-up of a KEEP-ALIVE whose callback leaves the connection open
    if level == "tcpsrvdef":      # the stream server's DefaultConfig: keep-alive, 2 retries over 16 s
        period, n = 16_000_000_000 // 3, "2"
    elif level == "dtlssrvdef":   # the DTLS server's DefaultConfig: plain monitor, 16 s
        period, n = 16_000_000_000, "-"
    lines = ["cfg %s %d %s 0" % (level, period, n)]
    t = 0
    pings = 0
    kinds = set()
    failing = rng.random() < 0.4     # does this history contain failing sends?
    sent_fail = False
    trickled = False
    for _ in range(rng.randrange(4, 22)):
        gap = rng.choice([1, 1, period // 2, period - 1, period, period + 1, period + 2, 2 * period + 1])
        t += gap
        r = rng.random()
        if r < 0.55 and n != "-" and can_fail and failing and rng.random() < 0.35:
            lines.append("tickf %d" % t)     # a housekeeping tick while the network refuses to send
            kinds.add("tick-send-fails")
            sent_fail = True
        elif r < 0.55:
            lines.append("tick %d" % t)
            kinds.add("tick-gap-" + ("eq" if gap == period else "lt" if gap < period else "gt"))
            if rng.random() < 0.3:          # a second tick right after (counter advances per tick)
                t += 1
                lines.append("tick %d" % t)
                kinds.add("double-tick")
            pings += 1                      # upper bound of generations that may exist
        elif r >= 0.55 and stream and (trickled or rng.random() < 0.2):
            # the stream peer trickles bytes of a frame it never completes: bytes arrive, no message does (and, being in
            # the middle of a frame, the peer cannot send any message afterwards)
            lines.append("trickle %d" % t)
            kinds.add("partial-frame-bytes")
            trickled = True
        elif r < 0.8 and level in ("udp", "udpnc", "udpreq", "tcp", "tcpnc") and rng.random() < 0.3:
            # the LOCAL side writes a non-confirmable message (an application that pushes notifications): what this side sends
            # says nothing about the peer - neither the period nor the count of unanswered pings may be refreshed (seeded C18-T)
            lines.append("send %d" % t)
            kinds.add("local-send")
        elif r < 0.8 and level != "unit" and rng.random() < 0.15:
            # a request whose handler takes a while (it ends before, at or after the period has run out): what counts is when
            # the message was RECEIVED
            lines.append("recvslow %d %d" % (t, rng.choice([max(1, period // 2), max(1, period - 1), period + 1])))
            kinds.add("slow-handler")
        elif r < 0.8:
            if rng.random() < 0.6:
                k = rng.choice(["ping", "ack", "rst", "non"])
                lines.append("recvk %s %d" % (k, t))
                kinds.add("recv-" + k)
            else:
                lines.append("recv %d" % t)
                kinds.add("recv")
        else:
            if n != "-" and pings > 0 and not sent_fail:
                g = rng.choice([pings, max(1, pings - 1), rng.randrange(1, pings + 2)])
                lines.append("pong %d %d" % (g, t))
                kinds.add("pong")
            else:
                lines.append("recv %d" % t)
    return lines, kinds, level


def pushing_case(rng, level):
    """a silent peer and a local side that keeps pushing messages more often than the period: the connection must be pinged /
    closed at the ticks exactly as if nothing had been sent"""
    period = rng.choice([100, 1000, 1_000_000])
    n = rng.choice(["-", "0", "1", "2"])
    if level.endswith("nc") and n == "-":
        n = "1"
    lines = ["cfg %s %d %s 0" % (level, period, n)]
    t = 0
    step = max(1, period // rng.choice([3, 4, 7]))
    nticks = 0
    while t < 5 * period:
        t += step
        lines.append("send %d" % t)
        if t // (period // 2 + 1) > nticks:
            nticks = t // (period // 2 + 1)
            t += 1
            lines.append("tick %d" % t)
    return lines, {"local-send", "pushing-to-silent-peer"}, level


# Retry limits at the edges of 8-, 16-, 20- and 24-bit counters ("all retry limits"): a count of unanswered pings kept in fewer
# bits than maxRetries (uint32) has wraps exactly there (seeded C18-W: 16 bits).  2^32 - 1 is out of reach of any run (2^32
# ticks); see docs/notes/C18.md, O5.
FAR_LIMITS_QUICK = [255, 256, 65534, 65535, 65536, 65537]
FAR_LIMITS_THOROUGH = FAR_LIMITS_QUICK + [2 ** 20 - 1, 2 ** 24 - 1, 2 ** 24, 2 ** 24 + 1]


def far_case(rng, level, n, shape):
    """a dead peer and a large retry limit: `ticks <k> <t0> <dt>` is k housekeeping ticks in a row.  The connection must be
    pinged at every idle tick up to the limit and closed at exactly the (n+1)-th; a message (or the answer to the current
    ping) after n unanswered pings starts the count again - from 0, not from where a narrower counter would be."""
    period = rng.choice([100, 1000, 1_000_000])
    dt = rng.choice([1, 1, 3, period + 1]) if n < 2 ** 20 else 1
    lines = ["cfg %s %d %d 0" % (level, period, n)]
    kinds = {"far-limit-%d" % n, "far-" + shape}
    extra = rng.choice([1, 2, 5])
    if shape == "straight":
        # starts one or two ticks before the period has run out: those do nothing
        t0 = period + 1 - rng.choice([0, 1, 2]) * dt
        lines.append("ticks %d %d %d" % (n + 1 + extra + 2, t0, dt))
    elif shape == "one-short":
        # n idle ticks (n unanswered pings), still open; a single further tick closes
        t0 = period + 1
        lines.append("ticks %d %d %d" % (n, t0, dt))
        t = t0 + n * dt
        lines.append("tick %d" % t)
        lines.append("tick %d" % (t + 1))
    else:
        # n unanswered pings, then a sign of life: the count starts again and n more pings go out before the close
        t0 = period + 1
        lines.append("ticks %d %d %d" % (n, t0, dt))
        t = t0 + n * dt
        if shape == "reset-by-pong" and n > 0:
            lines.append("pong %d %d" % (n, t))
        else:
            lines.append("recv %d" % t)
        lines.append("tick %d" % (t + period))        # exactly a period later: not yet idle
        lines.append("ticks %d %d %d" % (n + 1 + extra, t + period + 1, dt))
    return lines, kinds, level


def strip_level(l):
    f = l.split()
    if f[0] == "cfg":
        return "cfg %s %s %s" % (f[2], f[3], f[4])
    return l


def no_cancel(line):
    """what is observable on a connection: no cancellation marks, no failed attempts, pings unnumbered"""
    if line.startswith("rle c"):       # run-length summary of a `ticks` line: the count of cancellation marks is not observable
        return "rle c0 " + line.split(" ", 2)[2] if line.count(" ") >= 2 else "rle c0"
    parts = [("ping" if p.startswith("ping ") else p) for p in line.split(" ; ") if not p.startswith("cancelping") and not p.startswith("pingfail")]
    return " ; ".join(parts) if parts else "none"


def judge_view(o):
    parts = [p for p in o.split(" ; ") if not p.startswith("cancelping")]
    return " ; ".join(parts) if parts else "none"


def conn_view(o):
    return no_cancel(o)


def explore(ctx, art):
    rng = random.Random(ctx.seed)
    thorough = ctx.tier == "thorough"
    cases = []
    lines = []
    owner = []
    for ci in range(4000 if thorough else 600):
        if ci % 40 == 7:
            cl, kinds, level = pushing_case(rng, rng.choice(["udp", "udpnc", "udpreq", "tcp", "tcpnc"]))
        else:
            cl, kinds, level = gen_case(rng)
        cases.append((cl, kinds, level))
        for l in cl:
            lines.append(l)
            owner.append(ci)
    # far along: retry limits at counter-width boundaries with silent stretches that long (bulk `ticks` lines)
    far = []
    shapes = ["straight", "one-short", "reset-by-recv", "reset-by-pong"]
    for n in (FAR_LIMITS_THOROUGH if thorough else FAR_LIMITS_QUICK):
        big = n >= 2 ** 20
        for k, shape in enumerate(shapes if thorough and not big else [shapes[0], rng.choice(shapes[1:])]):
            far.append(("unit", n, shape))
        if 2 ** 16 - 2 <= n < 2 ** 20:
            lv = ["udp", "tcp", "udpnc", "tcpnc"]
            for level in (lv if thorough else [lv[(n + ctx.seed) % 4]]):
                far.append((level, n, rng.choice(shapes)))
    if thorough:
        far.append(("udp", 2 ** 20 - 1, "straight"))
        far.append(("tcp", 2 ** 20 - 1, "reset-by-pong"))
    for level, n, shape in far:
        cl, kinds, level = far_case(rng, level, n, shape)
        cases.append((cl, kinds, level))
        for l in cl:
            lines.append(l)
            owner.append(len(cases) - 1)
    lines.append("end")
    owner.append(-1)
    # unit-level cases run in their own harness package (it refers to KeepAliveMonitor, which a change of the
    # repository may remove: the connection-level harness must keep working then)
    unit_lines = [l for l, ci in zip(lines, owner) if ci >= 0 and cases[ci][2] == "unit"] + ["end"]
    conn_lines = [l for l, ci in zip(lines, owner) if ci < 0 or cases[ci][2] != "unit"]
    with common.Lock():
        unit_exe = common.build_test(ctx, "c18unit")
    conn_out = common.run_test_harness(ctx, art["test"], "TestC18", conn_lines, timeout=1500)
    unit_out = common.run_test_harness(ctx, unit_exe, "TestC18Unit", unit_lines, timeout=1500, tag="unit") if unit_exe else None
    if conn_out is None or len(conn_out) != len(conn_lines):
        return
    unit_ok = unit_out is not None and len(unit_out) == len(unit_lines)
    ui = ci_ = 0
    impl = []
    for l, ci in zip(lines, owner):
        if ci >= 0 and cases[ci][2] == "unit":
            impl.append(unit_out[ui] if unit_ok else "skipped")
            ui += 1
        else:
            impl.append(conn_out[ci_])
            ci_ += 1
    model = judge = None
    dl = [strip_level(l) for l in lines]
    if art.get("driver"):
        rc, model, _ = common.pipe_lines([art["driver"], "model"], dl)
        jl = [l if l.split()[0] in ("cfg", "end") else l + " | " + ("none" if o == "skipped" else judge_view(o)) for l, o in zip(dl, impl)]
        rc2, judge, _ = common.pipe_lines([art["driver"], "judge"], jl)
        if rc or rc2 or len(model) != len(lines) or len(judge) != len(lines):
            ctx.broken.append(("model", "C18 driver run failed", ""))
            model = judge = None
    bad = {}
    mism = 0
    for i, (l, o) in enumerate(zip(lines, impl)):
        f = l.split()
        if f[0] in ("cfg", "end"):
            continue
        ci = owner[i]
        level = cases[ci][2]
        if o == "skipped":
            continue
        if o.startswith("panic") or o in ("bad-op", "conn-error") or "panic" in o:
            ctx.violations.append(common.Violation("no-crash", "C18:" + l, "%s -> %s" % (l, o), {"input": cases[ci][0] + ["end"], "observed": o}))
            continue
        if "leak-pending-ping" in o:
            first = sum(1 for k in range(i + 1) if owner[k] == ci)
            ctx.violations.append(common.Violation("monitor", "C18:give-up-leaves-pending-ping",
                                                   "%s (%s): the keep-alive gave up (the application keeps the connection open) and the entry of its last, unanswered ping is still registered: %s" % (l, cases[ci][0][0], o),
                                                   {"input": cases[ci][0][:first] + ["end"], "observed": o}))
            continue
        if "close-talkative" in o:
            # server levels: the connection of the peer that is heard from right before every tick was closed by its monitor
            first = sum(1 for k in range(i + 1) if owner[k] == ci)
            ctx.violations.append(common.Violation("closed-only-if-silent-for-period", "C18:server-closed-talkative-peer",
                                                   "%s (%s): the monitor closed the connection of a peer that had sent a message right before this tick" % (l, cases[ci][0][0]),
                                                   {"input": cases[ci][0][:first] + ["end"], "observed": o}))
            continue
        if judge is not None and judge[i] != "ok":
            bad.setdefault(ci, (i, "%s: observed `%s`: %s" % (l, o, judge[i])))
        if model is not None:
            m = model[i] if level == "unit" else no_cancel(model[i])
            if m != (o if level == "unit" else conn_view(o)):
                mism += 1
                if mism <= 3:
                    ctx.broken.append(("correspondence", "C18 model vs implementation",
                                       "case %d (%s) line `%s`: impl `%s` model `%s`" % (ci, cases[ci][0][0], l, o, m)))
    for ci, (i, what) in list(bad.items())[:8]:
        cl, kinds, level = cases[ci]
        first = sum(1 for k in range(i + 1) if owner[k] == ci)
        clause = what.split("violates ", 1)[-1]
        import re
        clause = re.sub(r"\d+", "N", clause)[:70]
        ctx.violations.append(common.Violation("monitor", "C18:%s" % clause, what, {"input": cl[:first] + ["end"], "kinds": sorted(kinds)}))
    runner_check(ctx, art["test"], art.get("driver"), rng, thorough, "C18", "closed-at-first-tick-after-period")
    # datagram server probe (real loopback socket, real time): known finding O3
    outp = os.path.join(ctx.work, "server.out")
    try:
        if os.path.exists(outp):
            os.remove(outp)
        subprocess.run([art["test"], "-test.run", "^TestC18Server$", "-test.timeout", "60s"], cwd=ctx.work,
                       env=dict(os.environ, VERIF_OUT=outp), stdout=subprocess.PIPE, stderr=subprocess.STDOUT, timeout=90)
        line = open(outp).read().strip() if os.path.exists(outp) else "server skipped no-output"
    except Exception as e:  # the probe needs a loopback interface; its absence is not a violation
        line = "server skipped %s" % e
    ctx.cov["server_probe"] = line
    f = dict(p.split("=") for p in line.split()[1:] if "=" in p)
    if f.get("closed") == "1" and int(f.get("silent", "0")) <= int(f.get("period", "0")):
        ctx.violations.append(common.Violation(
            "closed-only-if-silent-for-period", "C18:server-getConn-lookahead",
            "datagram server closed a known peer's connection on its own next datagram after %s ns of silence (< period %s ns)" % (f["silent"], f["period"]),
            {"input": ["go test -run TestC18Server (harness/c18/server_test.go)"], "observed": line}))
    distinct = set()
    for cl, kinds, level in cases:
        ctx.cov["evaluations"] += 1
        ctx.count("level-" + level)
        for k in kinds:
            ctx.count(k)
        if len(kinds) >= 2:
            distinct.add(tuple(cl))
    ctx.cov["distinct_nontrivial"] = len(distinct)
    ctx.cov["traces_validated_against_impl"] = len(cases)
    ctx.cov["rule"] = ("histories of recv / pong(generation) / tick(t) with gaps of 1, period/2, period-1, period, period+1, period+2, 2*period+1 ns "
                       "and double ticks; period in {100 ns, 1 us, 1 ms, 5.33 s}; plain monitor and keep-alive with 0..3 retries; pongs for the current, "
                       "a superseded or a never-sent ping; run on the bare Monitor/KeepAlive objects and on udp/tcp connections; "
                       "far along: retry limits 255, 256, 65534..65537 (thorough: 2^20-1, 2^24-1..2^24+1) with silent stretches of that many "
                       "ticks (bulk `ticks` lines: straight, one short of the close, count restarted by a message / the current pong). "
                       "non-trivial = at least two kinds of event/gap; distinct by the exact line list.")
    for cl, kinds, level in cases[:2]:
        ctx.sample({"history": cl, "kinds": sorted(kinds)})




def server_peers_check(ctx, test_exe, driver, rng, n, prop, clause, levels=("tcpsrv", "dtlssrv", "tcpsrvdef", "dtlssrvdef")):
    """The server levels of C18 as an isolation run for another property (C10): three peers on one real tcp/dtls server -
    the observed one, one always silent, one heard from before every tick; the observed peer's connection must behave as
    if it were alone (judge = the single-connection reference monitor; Props/C18 server_conn_is_single_conn)."""
    lines, owner, cases = [], [], []
    for ci in range(n):
        cl, kinds, level = gen_case(rng, rng.choice(list(levels)))
        cases.append(cl)
        for l in cl:
            lines.append(l)
            owner.append(ci)
    lines.append("end")
    owner.append(-1)
    impl = common.run_test_harness(ctx, test_exe, "TestC18", lines, timeout=900, tag="srvpeers" if "tcpsrv" in levels else "monitored")
    if impl is None or len(impl) != len(lines) or not driver:
        return
    dl = [strip_level(l) for l in lines]
    jl = [l if l.split()[0] in ("cfg", "end") else l + " | " + judge_view(o) for l, o in zip(dl, impl)]
    rc, judge, _ = common.pipe_lines([driver, "judge"], jl)
    if rc or len(judge) != len(lines):
        ctx.broken.append(("model", "server-peers judge run failed", ""))
        return
    seen = set()
    for i, (l, o) in enumerate(zip(lines, impl)):
        ci = owner[i]
        if ci < 0 or ci in seen or l.split()[0] in ("cfg", "end"):
            continue
        why = None
        if "leak-pending-ping" in o:
            why = "the keep-alive gave up (the application keeps the connection open) and the entry of its last, unanswered ping is still registered"
        elif "close-talkative" in o:
            why = "the connection of a peer that had sent a message right before this tick was closed"
        elif o.startswith("panic") or o in ("bad-op", "conn-error"):
            why = o
        elif judge[i] != "ok":
            why = judge[i]
        if why:
            seen.add(ci)
            if len(seen) > 6:
                break
            first = sum(1 for k in range(i + 1) if owner[k] == ci)
            ctx.violations.append(common.Violation(clause, "%s:server-peers:%s" % (prop, cases[ci][0].split()[1]),
                                                   "monitored connection (%s): %s: observed `%s`: %s" % (cases[ci][0], l, o, why),
                                                   {"input": cases[ci][:first] + ["end"], "observed": o, "server_peers": True}))
    ctx.cov["server_peers_cases"] = n
    ctx.count("server-peers-histories", n)

def runner_check(ctx, test_exe, driver, rng, thorough, prop, clause):
    """Housekeeping runners (pkg/runner/periodic shared ticker, default goroutine-per-registration runner): register / finish /
    tick histories on the real runners (harness/c18 TestC18Runner, synctest) against Model/Runner.lean, which is the
    specification "every live registration is called exactly once per period" (Props/C18Runner.lean).  Used by C18 (ticks
    that drive the monitors) and by C09 (the sweep that completes a closed datagram peer's shutdown)."""
    rl, rowner, rcases = [], [], []
    for ci in range(600 if thorough else 120):
        kind = rng.choice(["shared", "shared", "default"])
        cl = ["rcfg " + kind]
        live, nxt, nested, unborn = [], 1, set(), []
        for _ in range(rng.randrange(3, 16)):
            r = rng.random()
            if r < 0.35 or not live:
                cl.append("reg %d" % nxt)
                live.append(nxt)
                nxt += 1
            elif r < 0.5:
                cl.append("fin %d" % rng.choice(live))
            elif r < 0.62:
                # a live function registers a new one during its next call (possibly the tick in which another one finishes)
                k = rng.choice(live)
                if k not in nested:
                    cl.append("nest %d %d" % (k, nxt))
                    nested.add(k)
                    unborn.append(nxt)      # exists only after the tick in which k is called
                    nxt += 1
            else:
                cl.append("tick")
                nested.clear()
                live += unborn
                unborn = []
        cl.append("tick")
        rcases.append(cl)
        for l in cl:
            rl.append(l)
            rowner.append(ci)
    rl.append("end")
    rowner.append(-1)
    rimpl = common.run_test_harness(ctx, test_exe, "TestC18Runner", rl, timeout=600, tag="runner")
    if rimpl is None or len(rimpl) != len(rl) or not driver:
        return
    rc, rmodel, _ = common.pipe_lines([driver, "runner"], rl)
    if rc or len(rmodel) != len(rl):
        ctx.broken.append(("model", "housekeeping-runner driver run failed", ""))
        return
    seen_bad = set()
    for i, (l, o, m) in enumerate(zip(rl, rimpl, rmodel)):
        ci = rowner[i]
        if ci < 0 or ci in seen_bad or o == m:
            continue
        seen_bad.add(ci)
        if len(seen_bad) > 6:
            break
        first = sum(1 for k in range(i + 1) if rowner[k] == ci)
        kind = rcases[ci][0].split()[1]
        what = ("housekeeping runner (%s): after `%s` the functions called were `%s`, every live registration exactly once would be `%s`"
                % (kind, l, o, m))
        ctx.violations.append(common.Violation(clause, "%s:runner:%s" % (prop, kind), what,
                                               {"input": rcases[ci][:first] + ["end"], "observed": o, "expected": m, "runner": True}))
    ctx.cov["runner_cases"] = len(rcases)
    ctx.count("runner-histories", len(rcases))
    # the client constructors: every connection registers its housekeeping with the configured runner, whatever else is configured
    ct = ["ctor %s %s %s" % (t, b, m) for t in ("udp", "dtls", "tcp") for b in ("bw", "nobw") for m in ("mon", "nomon")]
    cto = common.run_test_harness(ctx, test_exe, "TestC18Ctor", ct, timeout=300, tag="ctor")
    if cto and len(cto) == len(ct):
        for l, o in zip(ct, cto):
            if o != "registered 1 live 1 afterclose 0" and o != "conn-error":
                ctx.violations.append(common.Violation(clause, "%s:constructor-housekeeping:%s" % (prop, l.split()[1]),
                                                       "%s: observed `%s`: a connection made by this constructor must register exactly one housekeeping function "
                                                       "with the periodic runner, live while the connection is open and finished once it is closed "
                                                       "(retransmissions, expiry of message-ID continuations, cached replies and block-wise buffers depend on it)" % (l, o),
                                                       {"input": [l], "observed": o, "ctor": True}))
        ctx.count("constructor-housekeeping", len(ct))
    # the table the stream / DTLS servers tick (pkg/connections): overlapping stores and deletes from the per-connection
    # goroutines must not lose a connection (real goroutines: evidence, the table is a sync.Map)
    cl = ["conns %d %d 8" % (ctx.seed, 1500 if thorough else 300)]
    # ... and the datagram server's own sweep over its peer table (real udp.Server, ticks by hand): connections the
    # application closed are reaped in the same pass in which a silent peer's period ends - that peer must still be closed
    sl = ["sweep 12 %d" % (20 if thorough else 6)]
    so = common.run_test_harness(ctx, test_exe, "TestC18Conns", sl, timeout=300, tag="sweep")
    if so and len(so) == 1 and not so[0].startswith("ok ") and not so[0].startswith("bad round=0 rig-error") and "rig-error" not in so[0]:
        ctx.violations.append(common.Violation(clause, "%s:udp-server-sweep" % prop, "udp/server housekeeping sweep: %s" % so[0],
                                               {"input": sl, "observed": so[0], "conns": True}))
    elif so and "rig-error" in so[0]:
        ctx.notes.append("rig problem (not a violation): %s" % so[0])
    co = common.run_test_harness(ctx, test_exe, "TestC18Conns", cl, timeout=300, tag="conns")
    if co and len(co) == 1:
        if not co[0].startswith("ok "):
            ctx.violations.append(common.Violation(clause, "%s:connections-table" % prop,
                                                   "pkg/connections under overlapping Store/Delete: %s (a connection that is not in the table is never ticked: "
                                                   "its monitor never fires, its tables are never swept)" % co[0], {"input": cl, "observed": co[0], "conns": True}))
        ctx.cov["connections_table_rounds"] = co[0]

def run(ctx):
    art = common.standard_prepare(ctx, MODULES, hx=False, test=True, generated=GENERATED)
    if art.get("test"):
        explore(ctx, art)
    return common.finish(ctx)


def replay(ctx, rep):
    art = common.standard_prepare(ctx, MODULES, hx=False, test=True, generated=GENERATED)
    lines = rep.get("input") or []
    if lines and lines[0].startswith("ctor"):
        o = common.run_test_harness(ctx, art["test"], "TestC18Ctor", lines, tag="replay")
        print("%s: %s" % (lines[0], o))
        if o and o[0] != "registered 1 live 1 afterclose 0":
            print("VIOLATION property=%s replay=(replayed) still reproduces" % ctx.prop)
            return 1
        return 0
    if lines and (lines[0].startswith("conns") or lines[0].startswith("sweep")):
        o = common.run_test_harness(ctx, art["test"], "TestC18Conns", lines, tag="replay")
        print("%s: %s" % (lines[0], o))
        if o and not o[0].startswith("ok "):
            print("VIOLATION property=%s replay=(replayed) still reproduces" % ctx.prop)
            return 1
        return 0
    if lines and lines[0].startswith("rcfg"):
        impl = common.run_test_harness(ctx, art["test"], "TestC18Runner", lines, tag="replay")
        rc, model, _ = common.pipe_lines([art["driver"], "runner"], lines)
        bad = 0
        for l, o, m in zip(lines, impl, model):
            print("%s: implementation `%s`  specification `%s`" % (l, o, m))
            bad += o != m
        if bad:
            print("VIOLATION property=%s replay=(replayed) still reproduces" % ctx.prop)
        return 1 if bad else 0
    if not lines or not lines[0].startswith("cfg"):
        print("replay:", rep.get("what") or rep.get("no_longer_checks"))
        return 1
    impl = common.run_test_harness(ctx, art["test"], "TestC18", lines, tag="replay")
    dl = [strip_level(l) for l in lines]
    jl = [l if l.split()[0] in ("cfg", "end") else l + " | " + no_cancel(o) for l, o in zip(dl, impl)]
    rc, judge, _ = common.pipe_lines([art["driver"], "judge"], jl)
    bad = 0
    for l, o, j in zip(lines, impl, judge):
        print("%s: implementation `%s`  judge `%s`" % (l, o, j))
        if j.startswith("violates"):
            bad += 1
    if bad:
        print("VIOLATION property=%s replay=(replayed) still reproduces" % ctx.prop)
    return 1 if bad else 0
