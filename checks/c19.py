"""C19 — block option value codec (DESIGN.md §5 C19).

Proof: lean/CoapVerif/Props/C19.lean over Generated/Blockwise.lean (constants and size table from /repo).
Correspondence: exhaustive.  All 2^24 option values and all 8 x 2 x (2^20 + margin) encoder triples are
evaluated by the real code (hx), by the model (driver model) and by the RFC specification (driver spec)
as range digests; a digest mismatch is bisected to single inputs.  Thorough: all 2^32 decoder inputs.
"""
import concurrent.futures as cf
import random

from . import common

MODULES = ["CoapVerif.Props.C19", "CoapVerif.Props.C19Wire", "CoapVerif.Props.C19Xfer"]
CHUNK = 1 << 16


def norm(line):
    f = line.split()
    if not f:
        return line
    if f[0] == "err":
        return "err"
    if f[0] == "sent":
        return " ".join(f[:3])
    if f[0] == "ok" and len(f) == 5 and (f[1] in ("-", "*") or len(f[1]) <= 6):
        # wenc: the RFC asks for 0-3 value bytes that carry the triple (fewest bytes is a SHOULD): the judge does not compare the
        # bytes themselves (the model comparison does)
        return "ok * " + " ".join(f[2:])
    if f[0] == "digest":
        return "digest " + " ".join(f[2:])
    return line


def edge_lines(rng):
    L = []
    for v in [0, 1, 7, 8, 15, 16, 83, 0xFFFF7F, 0xFFFF80, 0xFFFFF7, 0xFFFFF8, 0xFFFFFF, 0x1000000, 0x1000001,
              0x7FFFFFFF, 0x80000000, 0xFFFFFFF0, 0xFFFFFFFF]:
        L.append("dec %d" % v)
    for _ in range(200):
        L.append("dec %d" % rng.randrange(1 << 24, 1 << 32))
    nums = [-(1 << 63), -(1 << 32), -1, 0, 1, 0xFFFF7, 0xFFFF8, 0xFFFFE, 0xFFFFF, 0x100000, 0x100001, (1 << 28) - 1,
            1 << 28, (1 << 28) + 5, 1 << 32, (1 << 32) + 3, 1 << 59, (1 << 60) + 1, (1 << 63) - 1]
    for s in list(range(0, 10)) + [127, 128, 255]:
        for n in nums:
            for m in (0, 1):
                L.append("enc %d %d %d" % (s, n, m))
    for _ in range(300):
        L.append("enc %d %d %d" % (rng.randrange(0, 256), rng.randrange(-(1 << 40), 1 << 40), rng.randrange(2)))
    for s in range(256):
        L.append("size %d" % s)
    maxes = [0, 1, 15, 16, 1023, 1024, 1025, 1151, 1152, 2047, 2048, 2049, 4096, 65535, 65536, (1 << 31) - 1, 1 << 31,
             (1 << 32) - 1] + [rng.randrange(0, 1 << 32) for _ in range(40)]
    for s in range(8):
        for mx in maxes:
            L.append("buf %d %d" % (s, mx))
    return L


def wire_lines(rng, thorough):
    """The block option as a message carries it (Props/C19Wire.lean): EncodeBlockOption -> SetOptionUint32 -> datagram / stream
    coder (or none) -> GetOptionUint32 -> DecodeBlockOption, and arbitrary option values of 0-4 bytes a peer may send."""
    L = []
    ways = [(23, "udp"), (27, "udp"), (23, "tcp"), (27, "tcp"), (23, "raw"), (27, "raw")]
    nums = [-1, 0, 1, 15, 16, 17, 255, 256, 4095, 4096, 65535, 65536, (1 << 20) - 2, (1 << 20) - 1, 1 << 20, (1 << 20) + 1, 1 << 28, 1 << 32]
    for i, (oid, c) in enumerate(ways):
        for s in range(0, 9):
            for n in nums:
                for m in (0, 1):
                    L.append("wenc %d %s %d %d %d" % (oid, c, s, n, m))
        for _ in range(3000 if thorough else 400):
            L.append("wenc %d %s %d %d %d" % (oid, c, rng.randrange(0, 8), rng.randrange(0, 1 << 20), rng.randrange(2)))
        # the second time: the message already carries the option with a wider / narrower / equal value (a re-used request, the
        # next block of a transfer, fitSZX's rewrite) when the block value is set
        prevs = [0, 6, 14, 255, 256, 65535, 65536, 0xFFFFFF, 0x0E000E]
        for s in (0, 6, 7):
            for n in (0, 1, 15, 16, 4095, 4096, 65535, (1 << 20) - 1):
                for m in (0, 1):
                    for pv in prevs:
                        L.append("wenc2 %d %s %d %d %d %d" % (oid, c, s, n, m, pv))
        for _ in range(1500 if thorough else 200):
            L.append("wenc2 %d %s %d %d %d %d" % (oid, c, rng.randrange(0, 8), rng.randrange(0, 1 << 20), rng.randrange(2), rng.randrange(0, 1 << 24)))
        # a peer's value bytes: every value of at most one byte, zero-padded forms, random two and three byte values
        L.append("wdec %d %s -" % (oid, c))
        for b in range(256):
            L.append("wdec %d %s %02x" % (oid, c, b))
            L.append("wdec %d %s 00%02x" % (oid, c, b))
            L.append("wdec %d %s 0000%02x" % (oid, c, b))
        for _ in range(6000 if thorough else 600):
            k = rng.choice((2, 3))
            L.append("wdec %d %s %s" % (oid, c, "".join("%02x" % rng.randrange(256) for _ in range(k))))
        if c == "raw":
            # four bytes (more than the registry admits; GetOptionUint32 still reads them): refused unless zero-led
            for _ in range(400):
                L.append("wdec %d raw %s" % (oid, "".join("%02x" % rng.randrange(256) for _ in range(4))))
                L.append("wdec %d raw 00%s" % (oid, "".join("%02x" % rng.randrange(256) for _ in range(3))))
    if thorough:
        for v in range(1 << 16):
            L.append("wdec 23 raw %04x" % v)
            L.append("wdec 27 udp %04x" % v)
    return L


def xfer_lines(rng, thorough):
    """The codec inside a transfer (Model/BlockOptXfer, Props/C19Xfer; eleventh seeded round): block <num> of a body of <body>
    bytes through the real block-wise layer - Handle (download), Do (upload), WriteMessage - with the body sizes and block
    numbers at the edge of the 20-bit block number permanently in the set: bodies of 2^20-1 blocks, of 2^20 blocks exactly,
    one byte more and less, one block more; block numbers 0xffffe, 0xfffff, 0x100000."""
    L = []
    top = 1 << 20
    for way in ("dl", "ul", "wm"):
        for szx in range(8):
            unit = 1024 if szx == 7 else 1 << (szx + 4)
            for mx in ([1152] if szx < 7 else [1024, 1152, 2048, 4096, 65535]):
                blk = unit if szx < 7 else mx // 1024 * 1024
                k = blk // unit
                bodies = [(top - 1) * unit, (top - 1) * unit + 1, top * unit - 1, top * unit, top * unit + 1, (top + 1) * unit,
                          (top - 2) * unit + 1, 3 * unit, 2 * unit + 1, 70000, (1 << 32) - 1, 1 << 32, (1 << 32) + 5 * unit]
                for body in bodies:
                    last = (body - 1) // unit
                    nums = {0, 1, k, k + 1, last - 1, last, last + 1, top - 2, top - 1, top, top + 1, top - 1 - k, top - k}
                    for num in sorted(n for n in nums if 0 <= n < (1 << 27)):
                        L.append("xfer %s %d %d %d %d" % (way, szx, mx, body, num))
            for _ in range(120 if thorough else 25):
                mx = rng.choice([1152, 2048, 4096, 65535]) if szx == 7 else 1152
                body = rng.choice([rng.randrange(unit + 1, 100000), rng.randrange(unit + 1, top * unit + 1),
                                   top * unit - rng.randrange(0, 3 * unit), top * unit + rng.randrange(0, 3 * unit)])
                last = (body - 1) // unit
                num = rng.choice([rng.randrange(0, last + 1), last - rng.randrange(0, 3), rng.randrange(0, top + 4)])
                L.append("xfer %s %d %d %d %d" % (way, szx, mx, body, max(0, num)))
    return L


def xfer_verdict(line, o, s):
    """judge of an `xfer` line: `o` = what the real block-wise layer produced, `s` = Spec/BlockOptXfer's verdict.
    Returns None (holds / not judged) or (clause, text)."""
    fo, fs = o.split(), s.split()
    if not fs or fs[0] == "skip" or o == "skip":
        return None
    if fs[0] == "err":
        if fo[:1] == ["err"]:
            return None
        return ("refused-outside-domain", "%s: a block whose number does not fit 20 bits was produced: `%s`" % (line, o))
    if fs[0] in ("ok", "ok?"):
        if fo[:1] == ["err"]:
            if fs[0] == "ok?":
                return None       # a body of more than 2^20 blocks may be refused at once
            return ("nothing-inside-the-domain-is-refused",
                    "%s: the body has at most 2^20 blocks of this size, block %s exists and its number fits 20 bits (RFC value %s, %s "
                    "bytes) but the block-wise layer refused: `%s`" % (line, line.split()[5], fs[1], fs[2], o))
        if fo[:1] == ["ok"] and len(fo) == 5 and fo[1] == fs[1] and fo[2] == fs[2] and fo[4] == "data-ok":
            return None
        return ("codec-equals-RFC7959", "%s: block produced `%s`, RFC 7959 value and length `%s %s` with the payload at offset num*unit"
                % (line, o, fs[1], fs[2]))
    return ("codec-equals-RFC7959", "%s: unreadable verdict `%s`" % (line, s))


def digest_lines(thorough):
    L = []
    top = (1 << 32) if thorough else (1 << 24) + 4 * CHUNK
    step = CHUNK if not thorough else (1 << 20)
    lo = 0
    while lo < (1 << 24):
        L.append("digest dec %d %d" % (lo, lo + CHUNK))
        lo += CHUNK
    while lo < top:
        hi = min(top, lo + step)
        L.append("digest dec %d %d" % (lo, hi))
        lo = hi
    for s in range(8):
        for m in (0, 1):
            lo = 0
            while lo < (1 << 20) + 64:
                hi = min((1 << 20) + 64, lo + CHUNK)
                L.append("digest enc %d %d %d %d" % (s, m, lo, hi))
                lo = hi
    return L


def run_three(art, lines, par=1):
    """Returns (impl, model, spec) output lists (None where the binary is missing)."""
    def go(cmd):
        if cmd is None:
            return None
        if par <= 1 or len(lines) < 4 * par:
            rc, out, err = common.pipe_lines(cmd, lines)
            return out if rc == 0 and len(out) == len(lines) else None
        parts = [lines[i::par] for i in range(par)]
        with cf.ThreadPoolExecutor(par) as ex:
            res = list(ex.map(lambda p: common.pipe_lines(cmd, p), parts))
        out = [None] * len(lines)
        for i, (rc, o, err) in enumerate(res):
            if rc != 0 or len(o) != len(parts[i]):
                return None
            out[i::par] = o
        return out
    impl = go([art["hx"]] if art.get("hx") else None)
    model = go([art["driver"], "model"] if art.get("driver") else None)
    spec = go([art["driver"], "spec"] if art.get("driver") else None)
    return impl, model, spec


def expand(line):
    """Single-input lines covered by one digest line."""
    f = line.split()
    if f[1] == "dec":
        return ["dec %d" % v for v in range(int(f[2]), int(f[3]))]
    return ["enc %s %d %s" % (f[2], n, f[3]) for n in range(int(f[4]), int(f[5]))]


def compare(ctx, art, lines, impl, model, spec, depth=0):
    for i, line in enumerate(lines):
        o = impl[i]
        if o.startswith("panic") or o == "bad-op":
            ctx.violations.append(common.Violation("no-crash", "C19:" + line, "%s -> %s" % (line, o),
                                                   {"input": [line], "observed": o}))
            continue
        if line.startswith("xfer "):
            if model is not None and model[i] != "skip" and model[i] != (" ".join(o.split()[:3]) if o.startswith("ok ") else o):
                ctx.broken.append(("correspondence", "C19 model vs implementation", "%s: impl `%s` model `%s`" % (line, o, model[i])))
            bad = xfer_verdict(line, o, spec[i]) if spec is not None else None
            if bad and len(ctx.violations) < 50:
                ctx.violations.append(common.Violation(bad[0], "C19:" + " ".join(line.split()[:3]), bad[1],
                                                       {"input": [line], "observed": o, "expected": spec[i]}))
            continue
        if model is not None and model[i] != o and not line.startswith("digest"):
            ctx.broken.append(("correspondence", "C19 model vs implementation", "%s: impl `%s` model `%s`" % (line, o, model[i])))
        if spec is not None and norm(spec[i]) != norm(o):
            if line.startswith("digest"):
                sub = expand(line)
                si, sm, ss = run_three(art, sub)
                if si is None or ss is None:
                    ctx.broken.append(("correspondence", "C19 bisect", line))
                    continue
                before = len(ctx.violations)
                compare(ctx, art, sub, si, sm, ss, depth + 1)
                if len(ctx.violations) == before:
                    ctx.broken.append(("correspondence", "C19 digest differs but no single input does", line))
            else:
                if len([v for v in ctx.violations]) < 50:
                    ctx.violations.append(common.Violation(
                        "codec-equals-RFC7959", "C19:" + line,
                        "%s: implementation `%s`, RFC 7959 mapping `%s`" % (line, o, spec[i]),
                        {"input": [line], "observed": o, "expected": spec[i]}))
        elif model is not None and model[i] != o and line.startswith("digest"):
            # judge agrees, model (error kinds) does not: locate it
            sub = expand(line)
            si, sm, ss = run_three(art, sub)
            bad = [(l, a, b) for l, a, b in zip(sub, si or [], sm or []) if a != b][:3]
            ctx.broken.append(("correspondence", "C19 model vs implementation", "%s: %s" % (line, bad)))


def explore(ctx, art):
    rng = random.Random(ctx.seed)
    thorough = ctx.tier == "thorough"
    lines = edge_lines(rng) + wire_lines(rng, thorough) + xfer_lines(rng, thorough) + digest_lines(thorough)
    impl, model, spec = run_three(art, lines, par=16 if thorough else 8)
    if impl is None:
        ctx.broken.append(("correspondence", "C19 harness run failed", ""))
        return
    if model is None or spec is None:
        ctx.broken.append(("model", "C19 driver run failed", ""))
    compare(ctx, art, lines, impl, model, spec)
    evals = 0
    nontrivial = 0
    for line, o in zip(lines, impl):
        f = line.split()
        if f[0] == "xfer":
            evals += 1
            nontrivial += 1
            ctx.count("xfer-%s-%s" % (f[1], "block" if o.startswith("ok") else o.split()[0]), 1)
            if int(f[5]) == (1 << 20) - 1 and o.startswith("ok"):
                ctx.count("xfer-last-block-number-0xfffff-served", 1)
        elif f[0] == "digest":
            n = (int(f[3]) - int(f[2])) if f[1] == "dec" else (int(f[5]) - int(f[4]))
            evals += n
            nontrivial += int(o.split()[3]) if len(o.split()) > 3 else 0
            ctx.count("digest-" + f[1], 1)
        else:
            evals += 1
            nontrivial += 1
            ctx.count(f[0] + ("-ok" if not o.startswith("err") else "-err"), 1)
    ctx.cov["evaluations"] = evals
    ctx.cov["distinct_nontrivial"] = nontrivial
    ctx.cov["exhaustive"] = True
    ctx.cov["rule"] = ("decoder: every value 0..2^24+%s enumerated once (range digests, FNV over result words); encoder: every "
                       "(szx 0..7, more, num 0..2^20+63) enumerated once; plus single edge inputs (out-of-range szx, negative and "
                       "huge block numbers, all 256 size exponents, BERT buffer sizes). All inputs are distinct by construction; "
                       "non-trivial = accepted by the implementation (counted by the harness) or an individually probed edge input."
                       % ("2^32" if thorough else "4*65536"))
    ctx.cov["traces_validated_against_impl"] = evals
    for line, o in list(zip(lines, impl))[:3] + list(zip(lines, impl))[-2:]:
        ctx.sample({"input": line, "implementation": o})


def glue_expect(ctx, art, line):
    """what the specification says about a constructor-level line (None = not judged)"""
    f = line.split()
    if f[0] == "cfgszx":
        szx, body = int(f[2]), int(f[3])
        # datagram transports: exponents 0..6; 7 is BERT (reliable transports only), above 7 is outside the codec's domain
        top = 7 if f[1] == "tcp" else 6
        return "ok code=68 delivered=%d" % body if szx <= top else "err"
    if f[0] == "cfgszxw":
        # the one-way entrance (Conn.WriteMessage -> BlockWise.WriteMessage): same domain, the body arrives without a response
        szx, body = int(f[2]), int(f[3])
        return "ok delivered=%d" % body if szx <= 6 else "err"
    if f[0] == "srvszx":
        # a server configured with an exponent its transport cannot use refuses to serve
        top = 7 if f[1] == "tcp" else 6
        return "serving" if int(f[2]) <= top else "err"
    if f[0] == "szxpeer":
        # stream transport: exponents 0..7 are in the domain (7 = BERT); anything above must be refused, whatever the peer's
        # CSM announced (with or without Max-Message-Size)
        return "err" if int(f[1]) > 7 else None
    if f[0] == "bert":
        rc, out, _ = common.pipe_lines([art["driver"], "spec"], ["buf 7 %s" % f[1]])
        if rc != 0 or not out or not out[0].isdigit():
            return None
        # the first block carries min(body, BERT buffer for the local maximum message size) bytes
        return "first %d" % min(int(out[0]), int(f[3]))
    return None


def glue_lines(ctx):
    L = []
    for t in ("udp", "dtls"):
        for szx in ([2, 6, 7, 8, 9, 15, 200] if ctx.tier == "quick" else [0, 1, 2, 3, 4, 5, 6, 7, 8, 9, 15, 16, 127, 200, 255]):
            L.append("cfgszx %s %d 3000" % (t, szx))
        # ... and through the one-way write of the same connection (seeded C19-U: the only refusal there was the codec's own)
        for szx in ([2, 6, 8, 9, 16, 200] if ctx.tier == "quick" else [0, 1, 2, 3, 4, 5, 6, 8, 9, 15, 16, 24, 127, 200, 255]):
            L.append("cfgszxw %s %d 3000" % (t, szx))
    # servers of all three transports configured (options.WithBlockwise) with every kind of exponent: Serve refuses what the
    # transport cannot use.  (A stream CLIENT with such an exponent is judged towards a peer that announces block-wise
    # transfer - `szxpeer`, configured through the same option -: library to library no block-wise transfer takes place on
    # streams and the exponent is never used.)
    for t in ("udp", "dtls", "tcp"):
        for szx in ([2, 6, 7, 8, 9, 200] if ctx.tier == "quick" else [0, 1, 2, 3, 4, 5, 6, 7, 8, 9, 15, 16, 127, 200, 255]):
            L.append("srvszx %s %d" % (t, szx))
    for szx in ([6, 7, 8, 9, 200] if ctx.tier == "quick" else [0, 5, 6, 7, 8, 9, 15, 16, 127, 200, 255]):
        for pm in (0, 1152, 4096):
            L.append("szxpeer %d %d 3000" % (szx, pm))
    for local in ([1152, 2048, 4096] if ctx.tier == "quick" else [1152, 2047, 2048, 2049, 3000, 4096, 65536]):
        L.append("bert %d 1048576 10240" % local)
    return L


def glue(ctx, art):
    """the codec's users: a client made by udp.Dial / dtls.Dial with an exponent outside the domain must refuse to transfer
    (never silently use another exponent); a BERT transfer over tcp cuts blocks by the LOCAL maximum message size, whatever
    the peer's CSM announces"""
    with common.Lock():
        exe = common.build_test(ctx, "c19glue")
    if not exe or not art.get("driver"):
        return
    lines = glue_lines(ctx)
    nb = len(ctx.broken)
    out = common.run_test_harness(ctx, exe, "TestC19Glue", lines, timeout=600, tag="glue")
    if out is None or len(out) != len(lines):
        # the harness process died (a panic in a goroutine of the library cannot be recovered by the harness): run the lines one
        # by one; a line whose own process dies is a concrete failing input
        log = getattr(ctx, "harness_log", "") or ""
        out = []
        crashed = 0
        for l in lines:
            before = len(ctx.broken)
            o = common.run_test_harness(ctx, exe, "TestC19Glue", [l], timeout=120, tag="glue1")
            if o and len(o) == 1:
                out.append(o[0])
                continue
            del ctx.broken[before:]
            crashed += 1
            tail = [x for x in (getattr(ctx, "harness_log", "") or "").splitlines() if x.startswith("panic:")][:1]
            out.append("crash " + (tail[0] if tail else ""))
        if crashed:
            del ctx.broken[nb:]          # replaced by the concrete lines below
        elif not log:
            return
    nb = None
    for l, o in zip(lines, out):
        ctx.cov["evaluations"] += 1
        ctx.count("glue-" + l.split()[0])
        if o == "conn-error":
            ctx.notes.append("rig problem (not a violation): %s -> %s" % (l, o))
            continue
        want = glue_expect(ctx, art, l)
        if o.startswith("crash "):
            ctx.violations.append(common.Violation("no-crash", "C19:glue:" + " ".join(l.split()[:2]), "%s: the process died: %s (expected `%s`)" % (l, o, want),
                                                   {"input": [l], "observed": o, "expected": want, "glue": True}))
            continue
        if want is not None and o != want:
            clause = "refused-outside-domain" if l.startswith(("cfgszx", "szxpeer", "srvszx")) else "bert-bounded-by-max-message-size"
            ctx.violations.append(common.Violation(clause, "C19:glue:" + " ".join(l.split()[:2]), "%s: observed `%s`, expected `%s`" % (l, o, want),
                                                   {"input": [l], "observed": o, "expected": want, "glue": True}))


def run(ctx):
    art = common.standard_prepare(ctx, MODULES, generated=["Blockwise.lean"])
    if art.get("hx"):
        explore(ctx, art)
    glue(ctx, art)
    # the block option's use sites: early block-size negotiation with every wire encoding of the value (empty = 0, zero-padded,
    # one byte) against a real tcp.Server and in line histories judged by C04's `szx` clause
    from . import c04
    with common.Lock():
        t4 = common.build_test(ctx, "c04")
        d4 = common.build_driver(ctx, "C04")
    if t4:
        c04.early_negotiation_check(ctx, t4, d4, "C19", "decoding-defined-on-the-whole-domain")
    return common.finish(ctx)


def replay(ctx, rep):
    if (rep.get("scenario") and str(rep.get("test", "")).startswith("TestC04")) or str(rep.get("replay_with", "")).startswith("bin/check C04"):
        from . import c04
        rc = c04.replay(ctx, rep)
        if rc:
            print("VIOLATION property=C19 replay=(replayed) still reproduces")
        return rc
    art = common.standard_prepare(ctx, MODULES, generated=["Blockwise.lean"])
    lines = rep.get("input") or []
    if not lines:
        print("replay file names no failing input:", rep.get("no_longer_checks"))
        return common.finish(ctx) if not art["proofs_ok"] else 0
    if rep.get("glue"):
        with common.Lock():
            exe = common.build_test(ctx, "c19glue")
        out = common.run_test_harness(ctx, exe, "TestC19Glue", lines, tag="replay")
        if not out or len(out) != len(lines):
            print("%s: the harness process died (a panic in a goroutine of the library)" % " ; ".join(lines))
            print("VIOLATION property=C19 replay=(replayed) still reproduces")
            return 1
        bad = 0
        for l, o in zip(lines, out):
            want = glue_expect(ctx, art, l)
            print("%s: implementation `%s`  specification `%s`" % (l, o, want))
            bad += want is not None and o != want
        if bad:
            print("VIOLATION property=C19 replay=(replayed) still reproduces")
        return 1 if bad else 0
    impl, model, spec = run_three(art, lines)
    bad = 0
    for l, a, s in zip(lines, impl, spec):
        print("%s: implementation `%s`  specification `%s`" % (l, a, s))
        if l.startswith("xfer "):
            bad += xfer_verdict(l, a, s) is not None
        elif norm(a) != norm(s):
            bad += 1
    if bad:
        print("VIOLATION property=C19 replay=(replayed) still reproduces")
    return 1 if bad else 0
