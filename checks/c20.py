"""C20 — No-Response suppression (DESIGN.md §5 C20).

Proof: Props/C20.lean (class rule for all codes and all values; wire outcome for every transport / request type).
Tie: T — the class switch of IsNoResponseCode is read from the AST on every run (Generated/NoResponse.lean);
     X — predicate exhaustively over all 65536 codes x 32 low values (+ random wide values) against model and RFC
         rule; real udp/tcp connections (in-memory transport, synctest) for request type x value x code.
"""
import random

from . import common

MODULES = ["CoapVerif.Props.C20", "CoapVerif.Props.C20Cache"]
EDGE_CODES = [0, 1, 2, 31, 32, 63, 64, 65, 69, 95, 96, 127, 128, 132, 136, 143, 157, 159, 160, 165, 191, 192, 224, 225, 255]


EXCHANGE_LIFETIME_MS = 247000   # RFC 7252 section 4.8.2 (the generated lines only need times on both sides of it)


def gen_histories(rng, thorough):
    """`srvt` lines: histories on one long-lived datagram connection in which a message ID comes again - inside
    EXCHANGE_LIFETIME (a duplicate: the judge is silent, the model must still agree with the code) and after it (a NEW request,
    RFC 7252 section 4.4: its own No-Response value decides, the handler is asked), with the periodic cache sweep before the
    expiry, after it, or never (seeded C20-V: a reply cache that leaves the end of an element's life to the sweep)."""
    Lt = EXCHANGE_LIFETIME_MS
    H = []
    # (first request's value, code), (second request's value, code)
    sits = [(("-", 69), ("2", 69)),      # answered 2.05, then the same ID asks not to hear about 2.xx: bare ACK / nothing
            (("2", 69), ("-", 69)),      # suppressed (a confirmable one got its bare ACK), then a request that wants its answer
            (("8", 132), ("8", 160)),    # 4.xx suppressed, then a 5.xx that is of interest
            (("26", 69), ("26", 69)),    # both suppressed
            (("-", 132), ("16", 165))]
    after = [Lt + 1, Lt + 2, Lt + 999, Lt + 3999, Lt + 4000, 2 * Lt, 2 * Lt + 1, 300000, 86400000, 2 ** 31, 2 ** 32 + 1]
    mids = [0, 1, 0x1234, 32767, 32768, 65534, 65535]
    for rt1 in ("con", "non"):
        for rt2 in ("con", "non"):
            for (pv, pc), (v, c) in sits:
                for gap in (after if thorough else [Lt + 1, rng.choice(after[1:6]), rng.choice(after[6:])]):
                    m = rng.choice(mids)
                    r1, r2 = "r%d:%s:%s:%d" % (m, rt1, pv, pc), "r%d:%s:%s:%d" % (m, rt2, v, c)
                    early = rng.choice([1, 4000, 100000, Lt - 1, Lt])
                    H.append("srvt %s;w%d;%s" % (r1, gap, r2))                                          # never swept
                    H.append("srvt %s;w%d;s;w%d;%s" % (r1, early, gap - early, r2))                    # last sweep before the expiry
                    H.append("srvt %s;w%d;s;w%d;%s" % (r1, Lt + 1, gap - Lt - 1, r2))                  # swept after the expiry
                for gap in (0, 1, Lt - 1, Lt):   # a duplicate by its message ID: the cached reply (the judge does not look)
                    m = rng.choice(mids)
                    H.append("srvt r%d:%s:%s:%d;w%d;%sr%d:%s:%s:%d" % (m, rt1, pv, pc, gap, rng.choice(["", "s;"]), m, rt2, v, c))
    # far along: a connection that has been up for 259 years (synctest's clock starts in 2000 and the runtime's timers end with
    # int64 nanoseconds in 2262: the harness cannot go further), and a message ID that rests that long
    H.append("srvt w8200000000000;r7:con:-:69;w247001;r7:con:2:69;w247001;r7:con:-:69")
    H.append("srvt r7:con:-:69;w8200000000000;r7:con:2:69;s;r7:non:2:69")
    # longer histories: several message IDs interleaved, the same ID three and more times
    vals, cds = ["-", "0", "2", "8", "16", "26", "10"], [69, 65, 132, 160, 165, 95, 0]
    waits = [0, 1, 1000, 4000, Lt - 1, Lt, Lt + 1, Lt + 1, 2 * Lt + 1, 300000, 1000000]
    for _ in range(600 if thorough else 80):
        ms = rng.sample(mids, rng.choice([1, 1, 2, 3]))
        steps = []
        for _ in range(rng.randrange(3, 8)):
            steps.append("r%d:%s:%s:%d" % (rng.choice(ms), rng.choice(["con", "non"]), rng.choice(vals), rng.choice(cds)))
            if rng.random() < 0.85:
                steps.append("w%d" % rng.choice(waits))
            if rng.random() < 0.35:
                steps.append("s")
        H.append("srvt " + ";".join(steps))
    return H


def gen_lines(ctx):
    rng = random.Random(ctx.seed)
    thorough = ctx.tier == "thorough"
    L = []
    for lo in range(0, 65536, 4096):
        L.append("digest is %d %d 0 32" % (lo, lo + 4096))
    L.append("digest is 0 256 0 256")
    for _ in range(2000 if thorough else 400):
        L.append("is %d %d" % (rng.choice([rng.randrange(256), rng.randrange(65536)]), rng.choice(
            [rng.randrange(1 << 32), (1 << 32) - 1, 1 << rng.randrange(32), rng.randrange(64)])))
    for n in range(0, 7):
        for _ in range(40 if thorough else 12):
            val = bytes(rng.randrange(256) if rng.random() < 0.5 else rng.choice([0, 2, 8, 16, 26]) for _ in range(n))
            L.append("rw %s %d" % (val.hex() or "-", rng.choice(EDGE_CODES + [rng.randrange(256)])))
    # whole option lists: No-Response first / in the middle / last / absent, among options numbered below and above 258
    LOW, HIGH = [1, 4, 11, 12, 15, 17, 23, 27, 60], [259, 292, 2049, 2053, 65000, 65535]
    for _ in range(1500 if thorough else 300):
        ids = sorted(rng.sample(LOW, rng.randrange(0, 4)) + rng.sample(HIGH, rng.randrange(0, 4)) + ([258] if rng.random() < 0.85 else []))
        if not ids:
            ids = [258]
        if 258 in ids and rng.random() < 0.2:
            # No-Response is not repeatable: a second occurrence is ignored (RFC 7252 section 5.4.5), the first one is the value
            ids = sorted(ids + [258])
        ents = []
        for i in ids:
            if i == 258:
                val = bytes([rng.choice([0, 2, 8, 16, 24, 26, 10, 18, rng.randrange(256)])]) if rng.random() < 0.9 else b""
            else:
                val = bytes(rng.randrange(256) for _ in range(rng.randrange(0, 4)))
            ents.append("%d:%s" % (i, val.hex() or "-"))
        L.append("rwl %d %s" % (rng.choice(EDGE_CODES + [rng.randrange(256)]), ",".join(ents)))
    for c in ([69, 132, 160, 65, 128, 165] if not thorough else EDGE_CODES):
        for v in ("2", "8", "16", "26", "10"):
            for x in ("x2049", "x292,65000", "x11,2053", "m3", "m3,15", "m15,17", "b17", "b7,12", "b14,60"):
                L.append("srv udp con %s %d %s" % (v, c, x))
                L.append("srv udp non %s %d %s" % (v, c, x))
                L.append("srv tcp non %s %d %s" % (v, c, x))
    codes = list(range(256)) if thorough else sorted(set(EDGE_CODES + [rng.randrange(256) for _ in range(8)]))
    vals = ["-"] + [str(v) for v in range(32)] + ([str(v) for v in range(32, 256)] if thorough else
                                                   [str(rng.randrange(32, 256)) for _ in range(4)])
    # (values above 255 are not put on the wire: RFC 7967 defines the option as a uint of length 0-1, the parser drops a
    #  longer one as it does every option with a registry-illegal length - C02's subject -, so such a request carries no
    #  No-Response option at all; values of up to four bytes are exercised at the response-writer level by `rw`/`rwl`)
    # the second time: the peer retransmits its confirmable request (the acknowledgement was lost); the copy must be answered
    # exactly as the first transmission was - the bare acknowledgement of a suppressed response included (seeded C20-U)
    for c in ([69, 132, 160, 65, 128, 165, 95] if not thorough else EDGE_CODES):
        for v in ("-", "0", "2", "8", "16", "26", "10", "31"):
            L.append("srvd udp con %s %d" % (v, c))
    # ... and a request that comes SECOND on its connection, after one that carried another (or no) No-Response value: nothing of
    # the earlier request's option may be left in the connection (seeded C20-T: a recycled response writer)
    for c in ([69, 132, 160, 65] if not thorough else EDGE_CODES):
        for v in ("-", "0", "2", "16", "26"):
            for pv in ("-", "0", "2", "8", "16", "26", "31"):
                if pv != v:
                    L.append("srvp udp %s %s %d %s" % (rng.choice(["con", "non"]), v, c, pv))
    for c in codes:
        for v in vals:
            L.append("srv udp con %s %d" % (v, c))
            L.append("srv udp non %s %d" % (v, c))
            L.append("srv tcp non %s %d" % (v, c))
    # the glue between the response writer and the application / the wire:
    #  srvreal: the connection a real udp.Server made for the peer (loopback socket), its handler is the server's wrapper around
    #           the configured one; `multi` = the datagram's control message names a multicast destination
    #  srvmux:  the handler is a mux.Router installed with options.WithMux (the writer the application uses is mux's wrapper)
    #  srvmw:   the same with a middleware that stamps an option on the response message first (only the SetResponse outcome
    #           is compared then: what such a middleware leaves on the wire is its own business)
    gc = EDGE_CODES if thorough else [69, 132, 160, 65, 95, 128]
    for c in gc:
        for v in ("-", "0", "2", "8", "16", "26", "10", "24"):
            for m in ("uni", "multi"):
                L.append("srvreal %s %s %s %d" % (m, rng.choice(["con", "non"]), v, c))
            L.append("srvmux udp %s %s %d" % (rng.choice(["con", "non"]), v, c))
            L.append("srvmux tcp non %s %d" % (v, c))
            L.append("srvmw udp %s %s %d" % (rng.choice(["con", "non"]), v, c))
            L.append("srvmw tcp non %s %d" % (v, c))
            #  srvbw: block-wise enabled, the request is a GET that asks for the size of the representation (Size2: 0)
            L.append("srvbw udp %s %s %d" % (rng.choice(["con", "non"]), v, c))
            L.append("srvbw tcp non %s %d" % (v, c))
    #  srvh: the handler takes its request over (Hijack) and releases it to the pool before it responds (fire-and-forget
    #        processing by another owner): the outcome must be that of `srv` - a confirmable request still gets its bare ACK
    for c in gc:
        for v in ("-", "2", "8", "16", "26"):
            L.append("srvh udp con %s %d" % (v, c))
            L.append("srvh udp non %s %d" % (v, c))
            L.append("srvh tcp non %s %d" % (v, c))
    #  srvm: requests with RFC 8132 methods (FETCH 5, PATCH 6, iPATCH 7) and unassigned method codes - delivered to the handler
    #        like the core methods, so No-Response applies in the same way
    for mth in (1, 4, 5, 6, 7, 8, 31):
        for v in ("-", "2", "8", "16", "26"):
            for c in (69, 132, 160, 68):
                L.append("srvm udp con %s %d %d" % (v, c, mth))
                L.append("srvm udp non %s %d %d" % (v, c, mth))
                L.append("srvm tcp non %s %d %d" % (v, c, mth))
    #  srvnf: the path matches no route of the mux.Router: its own default handler answers 4.04, which a request may suppress
    for v in ("-", "0", "2", "8", "10", "16", "24", "26", "127"):
        L.append("srvnf udp con %s" % v)
        L.append("srvnf udp non %s" % v)
        L.append("srvnf tcp non %s" % v)
    #  srvn: a handler that calls SetResponse several times (a result, then an error path; a default, then the real outcome):
    #        every call is judged on its own, and the wire must carry the response of the last call that was not refused
    nc = [69, 65, 68, 95, 132, 128, 160, 165, 0, 1, 224]
    for _ in range(1200 if thorough else 160):
        cs = [rng.choice(nc) if rng.random() < 0.85 else rng.randrange(256) for _ in range(rng.choice([2, 2, 2, 3, 4]))]
        v = rng.choice(["-", "0", "2", "8", "16", "26", "10", "24", "18", str(rng.randrange(256))])
        tr, rt = rng.choice([("udp", "con"), ("udp", "non"), ("tcp", "non")])
        L.append("srvn %s %s %s %s" % (tr, rt, v, ",".join(map(str, cs))))
    for v, cs in (("16", "69,160"), ("2", "160,69"), ("8", "132,69,132"), ("26", "69,132,160"), ("16", "69,69,160")):
        for tr, rt in (("udp", "con"), ("udp", "non"), ("tcp", "non")):
            L.append("srvn %s %s %s %s" % (tr, rt, v, cs))
    L.extend(gen_histories(rng, thorough))
    return L


def dl(l):
    """the line as the driver sees it"""
    f = l.split()
    if f[0] == "srvreal":
        return "srv udp %s %s %s" % (f[2], f[3], f[4])
    if f[0] == "srvm":
        return "srv %s %s %s %s" % (f[1], f[2], f[3], f[4])
    if f[0] == "srvd":
        return "srv " + " ".join(f[1:])
    if f[0] == "srvp":
        return "srv " + " ".join(f[1:5])
    if f[0] in ("srvmux", "srvbw", "srvh"):
        return "srv %s %s %s %s" % (f[1], f[2], f[3], f[4])
    if f[0] == "srvmw":
        return "is %s %s" % (f[4], f[3] if f[3] != "-" else "0")   # no option = nothing suppressed = value 0
    return l


def explore(ctx, art):
    lines = gen_lines(ctx)
    impl = common.run_test_harness(ctx, art["test"], "TestC20", lines)
    if impl is None or len(impl) != len(lines):
        return
    # `srvd`: the first answer is judged like any `srv` line; the answer to the copy is compared with it by the harness
    dupverdict = {}
    for i, (l, o) in enumerate(zip(lines, impl)):
        if l.startswith("srvd ") and " dup " in o:
            impl[i], dupverdict[i] = o.split(" dup ", 1)
    model = judge = None
    if art.get("driver"):
        dls = [dl(l) for l in lines]
        rc, model, _ = common.pipe_lines([art["driver"], "model"], dls)
        jl = [l if l.split()[0] in ("is", "digest") else l + " | " + o for l, o in zip(dls, impl)]
        rc2, judge, _ = common.pipe_lines([art["driver"], "judge"], jl)
        if rc or rc2 or len(model) != len(lines) or len(judge) != len(lines):
            ctx.broken.append(("model", "C20 driver run failed", ""))
            model = judge = None
    distinct = set()
    for i, (l, o) in enumerate(zip(lines, impl)):
        f = l.split()
        if o.startswith("panic") or o == "bad-op":
            ctx.violations.append(common.Violation("no-crash", "C20:" + l, "%s -> %s" % (l, o), {"input": [l], "observed": o}))
            continue
        if i in dupverdict and dupverdict[i] != "same":
            ctx.violations.append(common.Violation("wire-outcome", "C20:" + l, "%s: the first transmission was answered `%s`, its retransmission `%s`" % (l, o, dupverdict[i]),
                                                   {"input": [l], "observed": o + " dup " + dupverdict[i]}))
        if model is not None and model[i] != "n/a" and model[i] != o:
            ctx.broken.append(("correspondence", "C20 model vs implementation", "%s: impl `%s` model `%s`" % (l, o, model[i])))
        if judge is not None:
            j = judge[i]
            if f[0] == "digest":
                if j != o:
                    # bisect to single (code, value) pairs
                    clo, chi, vlo, vhi = map(int, f[2:6])
                    sub = ["is %d %d" % (c, v) for c in range(clo, chi) for v in range(vlo, vhi)]
                    si = common.run_test_harness(ctx, art["test"], "TestC20", sub, tag="bisect")
                    rc, sj, _ = common.pipe_lines([art["driver"], "judge"], sub)
                    found = 0
                    for sl, a, b in zip(sub, si or [], sj):
                        if a != b:
                            found += 1
                            if found <= 20:
                                ctx.violations.append(common.Violation(
                                    "refused-iff-class-suppressed", "C20:" + sl,
                                    "%s: implementation %s, RFC 7967 says %s" % (sl, a, b),
                                    {"input": [sl], "observed": a, "expected": b}))
                    if not found:
                        ctx.broken.append(("correspondence", "C20 digest differs but no single input does", l))
            elif f[0] in ("is", "srvmw"):
                if j != o:
                    ctx.violations.append(common.Violation(
                        "refused-iff-class-suppressed", "C20:" + l, "%s: implementation %s, RFC 7967 says %s" % (l, o, j),
                        {"input": [l], "observed": o, "expected": j}))
            elif j != "ok":
                clause = "refused-iff-class-suppressed" if f[0] in ("rw", "rwl") else "wire-outcome"
                ctx.violations.append(common.Violation(clause, "C20:" + l, "%s: observed `%s`: %s" % (l, o, j),
                                                       {"input": [l], "observed": o, "judge": j}))
        if f[0] == "digest":
            n = (int(f[3]) - int(f[2])) * (int(f[5]) - int(f[4]))
            ctx.cov["evaluations"] += n
            ctx.count("predicate-exhaustive", n)
            ctx.cov["distinct_nontrivial"] += int(o.split()[2]) if len(o.split()) > 2 else 0
        else:
            ctx.cov["evaluations"] += 1
            ctx.count(f[0] + ("-" + f[1] + "-" + f[2] if f[0] == "srv" else "") + ":" + o.split()[0 if f[0] != "srv" else 1])
            if l not in distinct and (f[0] != "srv" or f[3] != "-"):
                distinct.add(l)
    ctx.cov["distinct_nontrivial"] += len(distinct)
    ctx.cov["traces_validated_against_impl"] = sum(1 for l in lines if l.startswith("srv"))
    ctx.cov["exhaustive"] = True
    ctx.cov["rule"] = ("predicate: all 65536 codes x 32 low option values and 256 codes x 256 values enumerated (digests, bisected on "
                       "mismatch) + random wide values; response writer on raw option bytes of length 0..6; connection level: "
                       "{udp con, udp non, tcp} x {no option, 0..31%s} x %s codes through a real client.Conn (in-memory, synctest). "
                       "distinct_nontrivial = refused (code, value) pairs counted by the harness + distinct single lines that carry an option."
                       % (", 32..255" if ctx.tier == "thorough" else ", 4 random larger", "all 256" if ctx.tier == "thorough" else "boundary + random"))
    for l, o in list(zip(lines, impl))[:2] + [(l, o) for l, o in zip(lines, impl) if l.startswith("srv udp con 2 ")][:3]:
        ctx.sample({"input": l, "implementation": o})


def run(ctx):
    art = common.standard_prepare(ctx, MODULES, hx=False, test=True, generated=["NoResponse.lean", "Dedup.lean"])
    if art.get("test"):
        explore(ctx, art)
    return common.finish(ctx)


def replay(ctx, rep):
    art = common.standard_prepare(ctx, MODULES, hx=False, test=True, generated=["NoResponse.lean", "Dedup.lean"])
    lines = rep.get("input") or []
    if not lines:
        print("replay file names no failing input:", rep.get("no_longer_checks"))
        return 1
    impl = common.run_test_harness(ctx, art["test"], "TestC20", lines, tag="replay")
    dls = [dl(l) for l in lines]
    jl = [l if l.split()[0] in ("is", "digest") else l + " | " + o for l, o in zip(dls, impl)]
    rc, judge, _ = common.pipe_lines([art["driver"], "judge"], jl)
    bad = 0
    for l, d, o, j in zip(lines, dls, impl, judge):
        print("%s: implementation `%s`  judge `%s`" % (l, o, j))
        if (d.split()[0] in ("is", "digest") and o != j) or (d.split()[0] not in ("is", "digest") and j != "ok"):
            bad += 1
    if bad:
        print("VIOLATION property=C20 replay=(replayed) still reproduces")
    return 1 if bad else 0
