"""Seeded structured generators shared by checks/c01.py and checks/c02.py (wire codecs).

A message is a dict {typ, mid, code, tok(bytes), pay(bytes), opts[(id, bytes)]}.  `encode_udp/encode_tcp`
are a plain generator-side encoder (used only to *produce* byte strings for C02; nothing is judged by it).
"""
import random

KNOWN = {1: (0, 8), 3: (1, 255), 4: (1, 8), 5: (0, 0), 6: (0, 3), 7: (0, 2), 8: (0, 255), 11: (0, 255), 12: (0, 2),
         14: (0, 4), 15: (0, 255), 17: (0, 2), 20: (0, 255), 23: (0, 3), 27: (0, 3), 28: (0, 4), 35: (1, 1034),
         39: (1, 255), 60: (0, 4), 258: (0, 1)}
SIGNAL = {225: {2: (0, 4), 4: (0, 0)}, 226: {2: (0, 0)}, 227: {2: (0, 0)}, 228: {2: (1, 255), 4: (0, 3)}, 229: {2: (0, 2)}}
BOUND = [0, 1, 12, 13, 14, 268, 269, 270]


def hexs(b):
    return b.hex() if b else "-"


def fmt_msg(m):
    s = "%d %d %d %s %s %d" % (m["typ"], m["mid"], m["code"], hexs(m["tok"]), hexs(m["pay"]), len(m["opts"]))
    for i, v in m["opts"]:
        s += " %d:%s" % (i, hexs(v))
    return s


def ext(v):
    if v < 13:
        return v & 0xf, b""
    if v < 269:
        return 13, bytes([v - 13])
    return 14, ((v - 269) & 0xffff).to_bytes(2, "big")


def enc_opts(opts):
    out = bytearray()
    prev = 0
    for i, v in opts:
        d, dx = ext(i - prev)
        l, lx = ext(len(v))
        out.append((d << 4) | l)
        out += dx + lx + v
        prev = i
    return bytes(out)


def body(m):
    b = enc_opts(m["opts"])
    if m["pay"]:
        b += b"\xff" + m["pay"]
    return b


def encode_udp(m):
    return bytes([0x40 | (m["typ"] & 3) << 4 | (len(m["tok"]) & 0xf), m["code"] & 0xff]) + (m["mid"] & 0xffff).to_bytes(2, "big") + m["tok"] + body(m)


def encode_tcp(m):
    b = body(m)
    n = len(b)
    if n < 13:
        nib, x = n, b""
    elif n < 269:
        nib, x = 13, bytes([n - 13])
    elif n < 65805:
        nib, x = 14, (n - 269).to_bytes(2, "big")
    else:
        nib, x = 15, (n - 65805).to_bytes(4, "big")
    return bytes([nib << 4 | (len(m["tok"]) & 0xf)]) + x + bytes([m["code"] & 0xff]) + m["tok"] + b


def rbytes(rng, n):
    if n > 4096:
        return bytes([rng.randrange(256)]) * n
    return bytes(rng.randrange(256) for _ in range(n))


def legal_len(rng, table, oid, big):
    """A registry-legal value length for option `oid` (unknown options: any class)."""
    if oid in table:
        lo, hi = table[oid]
        return rng.choice([lo, hi, rng.randint(lo, hi), min(hi, max(lo, rng.choice(BOUND)))])
    r = rng.random()
    if r < 0.55:
        return rng.choice([0, 1, 2, 5, 12])
    if r < 0.85:
        return rng.choice([13, 14, 20, 100, 268])
    if r < 0.97 or not big:
        return rng.choice([269, 270, 300, 600])
    return rng.choice([65804, 65803, 4000])


def gen_options(rng, table, big=False, wf=True):
    n = rng.choice([0, 1, 1, 2, 2, 3, 4, 6, 10, 17, 33]) if rng.random() < 0.9 else rng.randrange(0, 40)
    opts = []
    prev = 0
    known = sorted(table)
    for _ in range(n):
        r = rng.random()
        if r < 0.45 and known:
            cand = [k for k in known if k >= prev and k != 0]
            oid = rng.choice(cand) if cand else prev
        elif r < 0.60:
            oid = prev                                     # repeated option
        else:
            d = rng.choice(BOUND + [rng.randrange(1, 13), rng.randrange(13, 269), rng.randrange(269, 3000), 65535 - prev])
            oid = min(65535, prev + d)
        if oid == 0:
            oid = 1 if wf else 0
        ln = legal_len(rng, table, oid, big)
        opts.append((oid, rbytes(rng, ln)))
        prev = oid
    return opts


def gen_wf(rng, coder, big=False):
    """A well-formed message (the preconditions of C01) with boundary-biased shapes."""
    code = rng.randrange(256) if rng.random() < 0.8 else rng.choice([0, 1, 69, 225, 226, 227, 228, 229, 255])
    table = SIGNAL.get(code, KNOWN) if coder == "tcp" else KNOWN
    m = {"typ": rng.randrange(4), "mid": rng.choice([0, 1, 255, 256, 65535, rng.randrange(65536)]), "code": code,
         "tok": rbytes(rng, rng.choice(list(range(9)))), "opts": gen_options(rng, table, big)}
    pl = rng.choice([0, 0, 1, 2, 5, 11, 12, 13, 30, 200])
    if big and rng.random() < 0.3:
        pl = rng.choice([255, 256, 268, 269, 270, 1000, 65804, 65805, 65806, 70000])
    m["pay"] = rbytes(rng, pl)
    return m


def tcp_len_class(m, target, rng):
    """Adjust the payload so that options+payload is exactly `target` bytes (stream length classes)."""
    ol = len(enc_opts(m["opts"]))
    if target == ol:
        m["pay"] = b""
    elif target >= ol + 2:
        m["pay"] = rbytes(rng, target - ol - 1)
    return m


def gen_invalid(rng, coder):
    """Outside the preconditions in the 'must be refused' class, or merely ill-formed (judge: skip)."""
    m = gen_wf(rng, coder)
    k = rng.randrange(9)
    if k == 8:
        m["code"] = rng.choice([256, 257, 300, 325, 511, 512, 4096, 65535, 256 + m["code"]])   # codes.Code is uint16
        return m
    if k == 0:
        m["tok"] = rbytes(rng, rng.choice([9, 10, 15, 16, 17, 255]))
    elif k == 1:
        m["typ"] = rng.choice([-1, 4, 5, 7, 8, 127, 255, 256, 1000, -5])
    elif k == 2:
        m["mid"] = rng.choice([-1, 65536, 65537, 1 << 20, -70000, (1 << 31) - 1])
    elif k == 3 and m["opts"]:
        rng.shuffle(m["opts"])                              # unsorted
    elif k == 4:
        m["opts"] = [(0, b"x")] + m["opts"]                  # option number 0
    elif k == 5:
        oid = rng.choice(sorted(KNOWN))                     # registry-illegal length
        lo, hi = KNOWN[oid]
        m["opts"] = sorted(m["opts"] + [(oid, rbytes(rng, hi + 1 + rng.randrange(3)))], key=lambda o: o[0])
    elif k == 6:
        m["opts"] = sorted(m["opts"] + [(rng.randrange(300, 60000), rbytes(rng, rng.choice([65805, 65806, 70000])))],
                           key=lambda o: o[0])               # value longer than the format can express
    else:
        m["tok"] = rbytes(rng, 9)
        m["typ"] = 9
    return m


def boundary_msgs(rng, coder):
    """Single- and two-option messages over the products of delta and length boundaries (unknown numbers
    so that every length is registry-legal), known options at min/max length, stream length classes."""
    out = []
    base = {"typ": 0, "mid": 0x1234, "code": 1, "tok": b"\x01\x02", "pay": b""}
    deltas = BOUND + [65535, 300, 2000]
    lens = BOUND + [600]
    for d in deltas:
        for ln in lens:
            oid = 2000 + d if 2000 + d <= 65535 else 65535
            m = dict(base, opts=[(2000, b""), (oid, rbytes(rng, ln))])
            out.append(m)
            if d not in KNOWN and d != 0:
                out.append(dict(base, opts=[(d, rbytes(rng, ln))], pay=b"p"))
    table = KNOWN
    for oid, (lo, hi) in sorted(table.items()):
        for ln in sorted({lo, hi}):
            out.append(dict(base, opts=[(oid, rbytes(rng, ln))], pay=rbytes(rng, 3)))
    if coder == "tcp":
        for code, tbl in SIGNAL.items():
            for oid, (lo, hi) in tbl.items():
                for ln in sorted({lo, hi}):
                    out.append(dict(base, code=code, opts=[(oid, rbytes(rng, ln))]))
        for target in [0, 1, 11, 12, 13, 14, 267, 268, 269, 270, 65803, 65804, 65805, 65806]:
            for opts in ([], [(11, b"ab")], [(2000, rbytes(rng, 13))]):
                m = dict(base, opts=list(opts))
                out.append(tcp_len_class(m, target, rng))
    for tl in range(9):
        out.append(dict(base, tok=rbytes(rng, tl), opts=[(11, b"a")], pay=b"x"))
    # option counts around powers of two (capacity steps of the pooled retry): repeated empty If-Match / unknown 2000
    for n in (1023, 1024, 1025, 2049):
        out.append(dict(base, opts=[(1, b"")] * n))
        out.append(dict(base, opts=[(1, b"")] * (n // 2) + [(2000, b"")] * (n - n // 2), pay=b"q"))
    return out


def classify(m, coder):
    """Histogram keys of one message."""
    keys = ["tkl%d" % len(m["tok"])]
    prev = 0
    for i, v in m["opts"]:
        d = i - prev
        keys.append("delta-" + ("neg" if d < 0 else "lit" if d < 13 else "ext8" if d < 269 else "ext16"))
        keys.append("len-" + ("lit" if len(v) < 13 else "ext8" if len(v) < 269 else "ext16" if len(v) <= 65804 else "over"))
        keys.append("known" if i in KNOWN else "unknown")
        prev = i
    b = len(body(m))
    if coder == "tcp":
        keys.append("tcplen-" + ("lit" if b < 13 else "ext8" if b < 269 else "ext16" if b < 65805 else "ext32"))
    keys.append("payload" if m["pay"] else "nopayload")
    return keys


def nontrivial(m):
    prev = 0
    for i, v in m["opts"]:
        if i - prev >= 13 or len(v) >= 13:
            return True
        prev = i
    return bool(m["pay"])
