"""Shared pipeline of every check (see DESIGN.md §2, §4, §8).

  1. extractor   : regenerate lean/CoapVerif/Generated from /repo's working tree
  2. lake build  : the property's Props module (proof obligations) and the driver exe
  3. audit       : forbidden tokens, `#print axioms` of every property theorem
  4. go build    : harness binaries against /repo with -tags verif
  5. explore     : property specific correspondence (impl vs model) and judge (impl vs spec)
  6. verdict     : VIOLATION / KNOWN-FINDING lines, evidence file, exit code
"""
import fcntl
import json
import os
import re
import subprocess
import sys
import time

VERIF = os.path.dirname(os.path.dirname(os.path.abspath(__file__)))
REPO = os.environ.get("VERIF_REPO", "/repo")
LEAN = os.path.join(VERIF, "lean")
HARNESS = os.path.join(VERIF, "harness")
WORK = os.path.join(VERIF, "work")
GENERATED = os.path.join(LEAN, "CoapVerif", "Generated")
ALLOWED_AXIOMS = {"propext", "Classical.choice", "Quot.sound"}
FORBIDDEN = re.compile(r"\bsorry\b|\badmit\b|^\s*axiom\s|native_decide|bv_decide|implemented_by|\bunsafe\s|maxHeartbeats\s+0")

GOENV = dict(os.environ, GOFLAGS="-mod=mod", GOPROXY="off", GOSUMDB="off", GOTOOLCHAIN="local",
             CGO_ENABLED="0")
GO = "go1.26.8"

TRUSTED_BASE = [
    "Lean 4.33.0 kernel (lake build; thorough tier re-checks with leanchecker)",
    "axioms: propext, Classical.choice, Quot.sound only (audited from #print axioms on every run)",
    "extractor harness/cmd/extract (values by compiling against /repo with -tags verif, shapes by go/ast)",
    "correspondence harness (Go, calls /repo in-process) and the compiled Lean driver evaluating the same definitions the theorems are about",
    "Go semantics as modelled in DESIGN.md §3 (slices, uint arithmetic, maps, channels, synctest virtual time)",
]


class Violation:
    def __init__(self, clause, signature, what, replay):
        self.clause = clause          # which clause of the property / which theorem's conclusion
        self.signature = signature    # canonical identity used by the known-findings filter
        self.what = what              # one line for humans
        self.replay = replay          # dict written to the replay file


class Ctx:
    def __init__(self, prop, tier, seed):
        self.prop = prop
        self.tier = tier
        self.seed = seed
        self.t0 = time.time()
        self.work = os.path.join(WORK, prop)
        os.makedirs(self.work, exist_ok=True)
        os.makedirs(os.path.join(WORK, "replay"), exist_ok=True)
        self.violations = []     # judge failures on the implementation (with inputs)
        self.broken = []         # (kind, name, detail): proof obligations / correspondences that no longer check
        self.cov = {"evaluations": 0, "distinct_nontrivial": 0, "samples": [], "rule": "", "histogram": {}}
        self.obligations = []
        self.discharged = []
        self.notes = []
        self.assumptions = []

    def log(self, *a):
        print("[%s %6.1fs]" % (self.prop, time.time() - self.t0), *a, file=sys.stderr, flush=True)

    def count(self, key, n=1):
        h = self.cov["histogram"]
        h[key] = h.get(key, 0) + n

    def sample(self, s, limit=8):
        if len(self.cov["samples"]) < limit:
            self.cov["samples"].append(s)


def sh(cmd, cwd=None, env=None, timeout=None, input=None):
    p = subprocess.run(cmd, cwd=cwd, env=env, stdout=subprocess.PIPE, stderr=subprocess.STDOUT,
                       timeout=timeout, input=input, text=True)
    return p.returncode, p.stdout


class Lock:
    """Serialises extractor + lake + go build between concurrently running checks."""

    def __init__(self, name="build.lock"):
        os.makedirs(WORK, exist_ok=True)
        self.path = os.path.join(WORK, name)

    def __enter__(self):
        self.f = open(self.path, "w")
        fcntl.flock(self.f, fcntl.LOCK_EX)
        return self

    def __exit__(self, *a):
        fcntl.flock(self.f, fcntl.LOCK_UN)
        self.f.close()


# ---------------------------------------------------------------- step 1: extractor

def run_extractor(ctx, generated=None):
    """generated: the Generated/*.lean files this property's model depends on (None = all)."""
    exe = os.path.join(WORK, "extract")
    rc, out = sh([GO, "build", "-tags", "verif", "-o", exe, "./cmd/extract"], cwd=HARNESS, env=GOENV)
    if rc != 0:
        ctx.broken.append(("translator", "extractor-build", out[-2000:]))
        return False
    rc, out = sh([exe, REPO, GENERATED])
    if rc != 0:
        ctx.broken.append(("translator", "extractor-run", out[-2000:]))
        return False
    changed = [l.split()[1] for l in out.splitlines() if l.startswith("changed ")]
    if changed:
        ctx.log("generated files changed:", changed)
    ctx.generated_changed = changed
    for l in out.splitlines():
        if l.startswith("failed "):
            f, _, why = l[len("failed "):].partition(": ")
            if generated is None or f in generated:
                ctx.broken.append(("translator", "extractor cannot regenerate Generated/" + f, why))
    return True


# ---------------------------------------------------------------- step 2/3: proofs and audit

def theorem_spans(path):
    """[(name, first_line, last_line)] of `theorem` declarations in a Lean file."""
    lines = open(path).read().splitlines()
    starts = []
    for i, l in enumerate(lines, 1):
        m = re.match(r"\s*(?:private\s+|protected\s+)?theorem\s+([A-Za-z_][\w.']*)", l)
        if m:
            starts.append((m.group(1), i))
    spans = []
    for k, (n, s) in enumerate(starts):
        e = starts[k + 1][1] - 1 if k + 1 < len(starts) else len(lines)
        spans.append((n, s, e))
    return spans


def strip_comments(src):
    src = re.sub(r"/-.*?-/", lambda m: "\n" * m.group(0).count("\n"), src, flags=re.S)
    src = re.sub(r"--.*", "", src)
    return src


def lean_sources(modules, extra=()):
    """Transitive import closure (inside this project) of the given modules + the property's driver."""
    seen = {}
    todo = list(modules) + list(extra)
    while todo:
        m = todo.pop()
        if m in seen:
            continue
        p = os.path.join(LEAN, m.replace(".", "/") + ".lean")
        if not os.path.exists(p):
            continue
        seen[m] = p
        for l in open(p).read().splitlines():
            mm = re.match(r"\s*import\s+((?:CoapVerif|Driver)\.[\w.]+)", l)
            if mm:
                todo.append(mm.group(1))
    return sorted(seen.values())


def build_proofs(ctx, modules):
    """modules: list of Lean module names holding the property theorems (Props.*)."""
    all_ok = True
    for mod in modules:
        rel = mod.replace(".", "/") + ".lean"
        path = os.path.join(LEAN, rel)
        spans = theorem_spans(path)
        names = [mod.split(".")[-1] + "." + n for n, _, _ in spans]
        ctx.obligations += names
        t = time.time()
        rc, out = sh(["lake", "build", mod], cwd=LEAN, timeout=3000)
        ctx.log("lake build %s rc=%d (%.1fs)" % (mod, rc, time.time() - t))
        failed = set()
        if rc != 0:
            all_ok = False
            own_error = False
            for m in re.finditer(r"^error: (\S+?\.lean):(\d+):(\d+): (.*)$", out, flags=re.M):
                f, line = m.group(1), int(m.group(2))
                if f.endswith(rel):
                    own_error = True
                    hit = [n for n, s, e in spans if s <= line <= e]
                    for n in hit:
                        failed.add(n)
                    if not hit:
                        ctx.broken.append(("proof", "%s:%d" % (rel, line), m.group(4)[:300]))
                else:
                    # a dependency (model, lemma, generated file) no longer compiles: nothing is discharged
                    failed.update(n for n, _, _ in spans)
                    ctx.broken.append(("proof", "%s:%d" % (f, line), m.group(4)[:300]))
            if not own_error and not failed:
                failed.update(n for n, _, _ in spans)
                ctx.broken.append(("proof", mod, out[-1500:]))
        # axiom audit from the (replayed) build log
        axioms = {}
        for m in re.finditer(r"'([\w.']+)' depends on axioms: \[([^\]]*)\]", out):
            axioms[m.group(1).split(".")[-1]] = {a.strip() for a in m.group(2).split(",") if a.strip()}
        for m in re.finditer(r"'([\w.']+)' does not depend on any axioms", out):
            axioms[m.group(1).split(".")[-1]] = set()
        for n, _, _ in spans:
            short = n.split(".")[-1]
            if n in failed:
                ctx.broken.append(("proof", "theorem %s.%s" % (mod, n), "no longer checks"))
                continue
            if short not in axioms:
                if rc == 0:
                    failed.add(n)
                    ctx.broken.append(("audit", "theorem %s.%s" % (mod, n), "no `#print axioms` line in build log"))
                continue
            bad = axioms[short] - ALLOWED_AXIOMS
            if bad:
                failed.add(n)
                ctx.broken.append(("audit", "theorem %s.%s" % (mod, n), "depends on %s" % sorted(bad)))
        ctx.discharged += [mod.split(".")[-1] + "." + n for n, _, _ in spans if n not in failed]
        if failed:
            all_ok = False
    # forbidden tokens anywhere in the Lean sources
    for p in lean_sources(modules, ["Driver." + ctx.prop]):
        for i, l in enumerate(strip_comments(open(p).read()).splitlines(), 1):
            if FORBIDDEN.search(l):
                ctx.broken.append(("audit", "%s:%d" % (os.path.relpath(p, LEAN), i), "forbidden token: " + l.strip()[:120]))
                all_ok = False
    return all_ok


def build_driver(ctx, prop=None):
    """Builds the per-property driver executable drv_cxx; returns its path or None."""
    name = "drv_" + (prop or ctx.prop).lower()
    t = time.time()
    rc, out = sh(["lake", "build", name], cwd=LEAN, timeout=3000)
    ctx.log("lake build %s rc=%d (%.1fs)" % (name, rc, time.time() - t))
    if rc != 0:
        ctx.broken.append(("model", "driver-build " + name, out[-2000:]))
        return None
    return os.path.join(LEAN, ".lake", "build", "bin", name)


def leanchecker(ctx, modules):
    for mod in modules:
        t = time.time()
        rc, out = sh(["lake", "env", "leanchecker", mod], cwd=LEAN, timeout=3000)
        ctx.log("leanchecker %s rc=%d (%.1fs)" % (mod, rc, time.time() - t))
        if rc != 0:
            ctx.broken.append(("proof", "leanchecker " + mod, out[-1500:]))
        else:
            ctx.notes.append("leanchecker re-checked " + mod)


# ---------------------------------------------------------------- step 4: harness

# VERIF_COVER=<dir>: build the harnesses with statement coverage of the library and collect the counters of every run there
# (a review aid - `go tool covdata textfmt -i=<dir>` - never used by the registered commands)
COVERDIR = os.environ.get("VERIF_COVER")
COVERPKG = "github.com/plgd-dev/go-coap/v3/..."
if COVERDIR:
    os.makedirs(COVERDIR, exist_ok=True)
    os.environ["GOCOVERDIR"] = COVERDIR


def build_hx(ctx, pkg=None):
    """go build of the stateless harness command harness/<pkg> (package main)."""
    pkg = pkg or ctx.prop.lower()
    exe = os.path.join(WORK, "hx_" + pkg)
    cover = ["-cover", "-coverpkg=" + COVERPKG] if COVERDIR else []
    rc, out = sh([GO, "build", "-tags", "verif"] + cover + ["-o", exe, "./" + pkg], cwd=HARNESS, env=GOENV, timeout=900)
    if rc != 0:
        ctx.broken.append(("correspondence", "harness-build " + pkg, out[-2000:]))
        return None
    return exe


def build_test(ctx, pkg=None, race=False):
    """go test -c of harness/<pkg> (synctest based harnesses, *_test.go files)."""
    pkg = pkg or ctx.prop.lower()
    exe = os.path.join(WORK, "ht_" + pkg.replace("/", "_") + (".race" if race else "") + ".test")
    real = exe + ".bin" if COVERDIR else exe
    cmd = [GO, "test", "-c", "-tags", "verif", "-o", real]
    env = GOENV
    if race:
        cmd.append("-race")
        env = dict(GOENV, CGO_ENABLED="1")
    if COVERDIR:
        cmd += ["-cover", "-coverpkg=" + COVERPKG]
    rc, out = sh(cmd + ["./" + pkg], cwd=HARNESS, env=env, timeout=900)
    if rc != 0:
        ctx.broken.append(("correspondence", "harness-build " + pkg, out[-2000:]))
        return None
    if COVERDIR:
        # coverage review (DESIGN 0.6): a wrapper that makes every invocation write its counters to $VERIF_COVER
        with open(exe, "w") as f:
            f.write('#!/bin/sh\nexec "%s" -test.gocoverdir="%s" "$@"\n' % (real, COVERDIR))
        os.chmod(exe, 0o755)
    return exe


def pipe_lines(cmd, lines, timeout=1800, env=None, cwd=None):
    """Feed lines to a line-protocol process; return (rc, output lines, stderr tail)."""
    data = "\n".join(lines) + "\n"
    p = subprocess.run(cmd, input=data, stdout=subprocess.PIPE, stderr=subprocess.PIPE, text=True,
                       timeout=timeout, env=env, cwd=cwd)
    return p.returncode, p.stdout.splitlines(), p.stderr[-2000:]


def run_test_harness(ctx, exe, test, lines, timeout=1800, tag="x", env=None):
    """Runs a `go test -c` harness binary on input lines (files $VERIF_IN/$VERIF_OUT). Returns output lines or None."""
    inp = os.path.join(ctx.work, tag + ".in")
    outp = os.path.join(ctx.work, tag + ".out")
    open(inp, "w").write("\n".join(lines) + "\n")
    if os.path.exists(outp):
        os.remove(outp)
    e = dict(os.environ, VERIF_IN=inp, VERIF_OUT=outp, VERIF_SEED=str(ctx.seed), VERIF_TIER=ctx.tier)
    if env:
        e.update(env)
    try:
        p = subprocess.run([exe, "-test.run", "^" + test + "$", "-test.timeout", "%ds" % timeout], cwd=ctx.work, env=e,
                           stdout=subprocess.PIPE, stderr=subprocess.STDOUT, text=True, timeout=timeout + 30)
    except subprocess.TimeoutExpired:
        ctx.broken.append(("correspondence", "harness %s timed out" % test, ""))
        return None
    out = open(outp).read().splitlines() if os.path.exists(outp) else []
    ctx.harness_log = p.stdout
    if p.returncode != 0 or len(out) != len(lines):
        ctx.broken.append(("correspondence", "harness %s failed (rc=%d, %d/%d lines)" % (test, p.returncode, len(out), len(lines)),
                           p.stdout[-3000:]))
        ctx.harness_log = p.stdout
        return out if out else None
    return out


# ---------------------------------------------------------------- step 6: verdict

def load_known():
    p = os.path.join(VERIF, "known_findings.json")
    if not os.path.exists(p):
        return []
    return json.load(open(p)).get("findings", [])


def finish(ctx, level="proof", checker_cmd=None):
    known = [k for k in load_known() if k.get("property") == ctx.prop and k.get("status") == "known"]
    lines = []
    nviol = 0
    seen_known = set()
    n = 0
    for v in ctx.violations:
        k = next((k for k in known if re.fullmatch(k["signature"], v.signature)), None)
        if k is not None:
            if k["id"] not in seen_known:
                seen_known.add(k["id"])
                lines.append("KNOWN-FINDING: property=%s %s [%s]" % (ctx.prop, k["what"], k["id"]))
            continue
        n += 1
        if n > 5:
            nviol += 1
            continue
        path = os.path.join(WORK, "replay", "%s-%d.json" % (ctx.prop, n))
        rep = dict(v.replay)
        rep.update({"property": ctx.prop, "clause": v.clause, "signature": v.signature, "what": v.what,
                    "replay_cmd": "bin/check %s --replay %s" % (ctx.prop, path)})
        json.dump(rep, open(path, "w"), indent=1)
        lines.append("VIOLATION property=%s replay=%s" % (ctx.prop, path))
        ctx.log("violation:", v.clause, v.what)
        nviol += 1
    if nviol == 0 and ctx.broken:
        # a proof obligation or a correspondence no longer checks and the search found no (unlisted) failing input
        path = os.path.join(WORK, "replay", "%s-broken.json" % ctx.prop)
        json.dump({"property": ctx.prop, "failing_input": None,
                   "no_longer_checks": [{"kind": k, "name": nm, "detail": d} for k, nm, d in ctx.broken]},
                  open(path, "w"), indent=1)
        lines.append("VIOLATION property=%s replay=%s no-failing-input-found" % (ctx.prop, path))
        for k, nm, d in ctx.broken[:10]:
            ctx.log("broken:", k, nm, "--", d.splitlines()[0] if d else "")
        nviol += 1
    # every listed finding of this property is named on every run; one that shows only under a rare schedule (F23: about one
    # racing run in 400) is marked when this run's sample did not meet it
    for k in known:
        if k["id"] not in seen_known:
            lines.append("KNOWN-FINDING: property=%s %s [%s] (listed in known_findings.json; not met by this run's sample)" % (ctx.prop, k["what"], k["id"]))
    cov = dict(ctx.cov)
    cov["obligations"] = len(ctx.obligations)
    cov["discharged"] = len(ctx.discharged)
    cov["obligation_names"] = ctx.obligations
    cov["undischarged"] = sorted(set(ctx.obligations) - set(ctx.discharged))
    cov["checker_cmd"] = checker_cmd or "cd /verif/lean && lake build CoapVerif.Props.%s  (kernel check + #print axioms audit)" % ctx.prop
    cov["trusted_base"] = TRUSTED_BASE
    cov["no_longer_checks"] = [{"kind": k, "name": nm, "detail": d[:400]} for k, nm, d in ctx.broken]
    cov["known_findings_reproduced"] = sorted(seen_known)
    cov["known_findings_listed"] = sorted(k["id"] for k in known)
    cov["notes"] = ctx.notes
    ev = {"property_id": ctx.prop, "tier": ctx.tier, "seed": ctx.seed, "level": level, "coverage": cov,
          "assumptions": ctx.assumptions, "wall_s": round(time.time() - ctx.t0, 2), "violations": nviol}
    os.makedirs(os.path.join(VERIF, "evidence"), exist_ok=True)
    json.dump(ev, open(os.path.join(VERIF, "evidence", ctx.prop + ".json"), "w"), indent=1)
    for l in lines:
        print(l, flush=True)
    ctx.log("done: obligations %d/%d, evaluations %d, violations %d" %
            (len(ctx.discharged), len(ctx.obligations), ctx.cov["evaluations"], nviol))
    return 1 if nviol else 0


def standard_prepare(ctx, modules, hx=True, test=False, generated=None):
    """Steps 1-4 under the build lock. Returns dict of built artefacts (None where a build failed)."""
    art = {}
    with Lock():
        run_extractor(ctx, generated)
        art["proofs_ok"] = build_proofs(ctx, modules)
        art["driver"] = build_driver(ctx)
        art["hx"] = build_hx(ctx) if hx else None
        art["test"] = build_test(ctx) if test else None
    if ctx.tier == "thorough":
        leanchecker(ctx, modules)
    return art
