package udp_test

import (
	"bytes"
	"context"
	"net"
	"testing"
	"time"

	"github.com/plgd-dev/go-coap/v3/message"
	"github.com/plgd-dev/go-coap/v3/message/codes"
	"github.com/plgd-dev/go-coap/v3/message/pool"
	"github.com/plgd-dev/go-coap/v3/net/responsewriter"
	"github.com/plgd-dev/go-coap/v3/options"
	"github.com/plgd-dev/go-coap/v3/udp"
	"github.com/plgd-dev/go-coap/v3/udp/client"
	"github.com/plgd-dev/go-coap/v3/udp/coder"
)

// A confirmable request of the peer whose handler issues a nested request; the peer retransmits the request (no ACK yet)
// before it answers the nested request.
func TestDemoDupLock(t *testing.T) {
	peer, err := net.ListenUDP("udp4", &net.UDPAddr{IP: net.IPv4(127, 0, 0, 1)})
	if err != nil {
		t.Skip(err)
	}
	defer peer.Close()
	enc := func(m message.Message) []byte {
		buf := make([]byte, 1024)
		n, err := coder.DefaultCoder.Encode(m, buf)
		if err != nil {
			t.Fatal(err)
		}
		return buf[:n]
	}
	result := make(chan error, 1)
	took := make(chan time.Duration, 1)
	handler := func(w *responsewriter.ResponseWriter[*client.Conn], r *pool.Message) {
		if r.Code() != codes.GET {
			return
		}
		ctx, cancel := context.WithTimeout(context.Background(), 3*time.Second)
		defer cancel()
		start := time.Now()
		resp, err := w.Conn().Get(ctx, "/nested")
		if err == nil {
			w.Conn().ReleaseMessage(resp)
		}
		took <- time.Since(start)
		result <- err
		_ = w.SetResponse(codes.Content, message.TextPlain, bytes.NewReader([]byte("done")))
	}
	cc, err := udp.Dial(peer.LocalAddr().String(), options.WithHandlerFunc(handler))
	if err != nil {
		t.Fatal(err)
	}
	defer cc.Close()
	caddr := cc.LocalAddr().(*net.UDPAddr)
	reqA := enc(message.Message{Type: message.Confirmable, Code: codes.GET, MessageID: 0x1234, Token: message.Token{1}, Options: message.Options{{ID: message.URIPath, Value: []byte("a")}}})
	_, _ = peer.WriteToUDP(reqA, caddr)
	buf := make([]byte, 2048)
	for {
		_ = peer.SetReadDeadline(time.Now().Add(5 * time.Second))
		n, _, err := peer.ReadFromUDP(buf)
		if err != nil {
			t.Fatal(err)
		}
		var m message.Message
		m.Options = make(message.Options, 0, 8)
		if _, err := coder.DefaultCoder.Decode(buf[:n], &m); err != nil {
			continue
		}
		if m.Code == codes.GET { // the nested request
			// empty ACK for the nested request (the answer will be separate)
			_, _ = peer.WriteToUDP(enc(message.Message{Type: message.Acknowledgement, Code: codes.Empty, MessageID: m.MessageID}), caddr)
			time.Sleep(50 * time.Millisecond)
			_, _ = peer.WriteToUDP(reqA, caddr) // our retransmission of request A: no ACK for it came yet
			time.Sleep(50 * time.Millisecond)
			_, _ = peer.WriteToUDP(enc(message.Message{Type: message.NonConfirmable, Code: codes.Content, MessageID: 0x2222, Token: m.Token, Payload: []byte("x")}), caddr)
			break
		}
	}
	select {
	case err := <-result:
		d := <-took
		if err != nil {
			t.Fatalf("nested request failed after %v: %v (its response was sent 50 ms after the retransmission)", d, err)
		}
		t.Logf("nested request ok after %v", d)
	case <-time.After(6 * time.Second):
		t.Fatal("no result")
	}
}
