// Harness for C01: the real encoders/decoders of /repo behind the line protocol of checks/c01.py.
package main

import (
	"bufio"
	"fmt"
	"strconv"
	"strings"
	"time"

	"github.com/plgd-dev/go-coap/v3/message"
	"verifharness/codecx"
	"verifharness/internal/lp"
)

func errCode(k string) uint64 {
	switch k {
	case "ok":
		return 0
	case "tooSmall":
		return 1
	}
	return 2
}

func handle(f []string) string {
	if len(f) < 2 {
		return "bad-op"
	}
	op, cname := f[0], f[1]
	if op == "omar" {
		// Options.Marshal on its own: nil buffer (sizing pass) and every buffer length 0..len
		m, _, err := codecx.ParseMsg(f[2:])
		if err != nil {
			return "bad-op"
		}
		n0, e0 := m.Options.Marshal(nil)
		h := lp.FnvInit
		nsz, ncan := 0, 0
		full := "-"
		for capN := 0; capN <= n0; capN++ {
			win, arr := codecx.Window(capN)
			n, e := m.Options.Marshal(win)
			k := codecx.ErrKind(e)
			h = lp.Mix(lp.Mix(h, uint64(int64(n))), errCode(k))
			for _, b := range win {
				h = lp.Mix(h, uint64(b))
			}
			if codecx.CanaryOK(arr, capN) {
				ncan++
			}
			if capN < n0 {
				if n == n0 && k == "tooSmall" {
					nsz++
				}
			} else {
				full = fmt.Sprintf("%d %s %s", n, k, lp.Hex(win))
			}
		}
		return fmt.Sprintf("omar %d %s %d %d %s %s", n0, codecx.ErrKind(e0), nsz, ncan, lp.Hex64(h), full)
	}
	c, ok := codecx.CoderOf(cname)
	if !ok {
		return "bad-op"
	}
	switch op {
	case "size":
		m, _, err := codecx.ParseMsg(f[2:])
		if err != nil {
			return "bad-op"
		}
		n, e := c.Size(m)
		return fmt.Sprintf("size %d %s", n, codecx.ErrKind(e))
	case "enc":
		if len(f) < 3 {
			return "bad-op"
		}
		capN, err := strconv.Atoi(f[2])
		if err != nil {
			return "bad-op"
		}
		m, _, err := codecx.ParseMsg(f[3:])
		if err != nil {
			return "bad-op"
		}
		win, arr := codecx.Window(capN)
		n, e := c.Encode(m, win)
		can := "ok"
		if !codecx.CanaryOK(arr, capN) {
			can = "bad"
		}
		return fmt.Sprintf("enc %d %s %s %s", n, codecx.ErrKind(e), lp.Hex(win), can)
	case "encall":
		m, _, err := codecx.ParseMsg(f[2:])
		if err != nil {
			return "bad-op"
		}
		size, e := c.Size(m)
		if e != nil {
			return fmt.Sprintf("encall %d %s 0 0 0 - -", size, codecx.ErrKind(e))
		}
		h := lp.FnvInit
		nsz, ncan, nclean := 0, 0, 0
		full := "-"
		for capN := 0; capN <= size; capN++ {
			win, arr := codecx.Window(capN)
			n, e := c.Encode(m, win)
			k := codecx.ErrKind(e)
			h = lp.Mix(lp.Mix(h, uint64(int64(n))), errCode(k))
			for _, b := range win {
				h = lp.Mix(h, uint64(b))
			}
			if codecx.CanaryOK(arr, capN) {
				ncan++
			}
			if capN < size {
				if n == size && k == "tooSmall" {
					nsz++
				}
				if codecx.Clean(win) {
					nclean++
				}
			} else {
				full = fmt.Sprintf("%d %s %s", n, k, lp.Hex(win))
			}
		}
		return fmt.Sprintf("encall %d ok %d %d %d %s %s", size, nsz, ncan, nclean, lp.Hex64(h), full)
	case "rt":
		if len(f) < 3 {
			return "bad-op"
		}
		optCap, err := strconv.Atoi(f[2])
		if err != nil {
			return "bad-op"
		}
		m, _, err := codecx.ParseMsg(f[3:])
		if err != nil {
			return "bad-op"
		}
		size, e := c.Size(m)
		if e != nil {
			return fmt.Sprintf("rt %d %s -", size, codecx.ErrKind(e))
		}
		buf := make([]byte, size)
		n, e := c.Encode(m, buf)
		if e != nil {
			return fmt.Sprintf("rt %d %s -", n, codecx.ErrKind(e))
		}
		var d message.Message
		if optCap > 0 {
			d.Options = make(message.Options, 0, optCap)
		}
		dn, de := c.Decode(buf[:n], &d)
		if de != nil {
			return fmt.Sprintf("rt %d ok %s | dec %d %s -", n, lp.Hex(buf[:n]), dn, codecx.ErrKind(de))
		}
		return fmt.Sprintf("rt %d ok %s | dec %d ok %s", n, lp.Hex(buf[:n]), dn, codecx.FmtMsg(cname, &d))
	case "ptok":
		// the pooled entry point every transport uses: the token goes through pool.Message.SetToken
		m, _, err := codecx.ParseMsg(f[2:])
		if err != nil {
			return "bad-op"
		}
		tok := m.Token
		m.Token = nil
		src := codecx.NewPooled("fresh", 0)
		src.SetMessage(m)
		src.SetToken(tok)
		out, e := src.MarshalWithEncoder(c)
		back := lp.Hex(src.Token())
		if e != nil {
			return fmt.Sprintf("ptok %s - tok=%s", codecx.ErrKind(e), back)
		}
		return fmt.Sprintf("ptok ok %s tok=%s", lp.Hex(out), back)
	case "pool":
		if len(f) < 4 {
			return "bad-op"
		}
		kind := f[2]
		optCap, err := strconv.Atoi(f[3])
		if err != nil {
			return "bad-op"
		}
		m, _, err := codecx.ParseMsg(f[4:])
		if err != nil {
			return "bad-op"
		}
		return codecx.Guard(2*time.Second, func() string {
			src := codecx.NewPooled("fresh", 0)
			src.SetMessage(m)
			out, e := src.MarshalWithEncoder(c)
			if e != nil {
				return fmt.Sprintf("pool %s -", codecx.ErrKind(e))
			}
			wire := append([]byte(nil), out...)
			dst := codecx.NewPooled(kind, optCap)
			n, e := dst.UnmarshalWithDecoder(c, wire)
			if e != nil {
				return fmt.Sprintf("pool ok %s | dec %d %s -", lp.Hex(out), n, codecx.ErrKind(e))
			}
			got, e := codecx.Snapshot(dst)
			if e != nil {
				return "pool ok " + lp.Hex(out) + " | dec snapshot-failed"
			}
			return fmt.Sprintf("pool ok %s | dec %d ok %s", lp.Hex(out), n, codecx.FmtMsg(cname, &got))
		})
	}
	return "bad-op"
}

func main() {
	lp.Loop(func(f []string, w *bufio.Writer) {
		out := codecx.Direct(func() string { return handle(f) })
		w.WriteString(strings.TrimSpace(out))
		w.WriteByte('\n')
	})
}
