// Harness for C01 on the real entry points ("encoding … and decoding the result yields an equal message and consumes
// exactly the bytes produced", through the sessions that carry the encodings):
//
//	strm <client|server> <cache> <cuts|-> <n> <msg>*   the n messages are encoded with the real stream coder (pooled
//	      MarshalWithEncoder), concatenated, and written to a real tcp connection (tcp.Client over net.Pipe, or the
//	      connection a real tcp.Server makes) in chunks that end at the byte offsets <cuts> (comma separated) of the
//	      stream; <cache> = ConnectionCacheSize (the session's read size and nominal buffer size).  Output
//	      `strm <delivered> closed=<0|1> | <msg> | …` — what the handler received, in order.
//	udpx <n> <step>*   a real udp/client.Conn whose handler answers every request with 2.05, Content-Format 42 and the
//	      request's payload.  step `r:<mid>:<tok>:<pay>` = a new confirmable POST, `d:<i>` = a duplicate of the i-th `r`
//	      step (lost ACK).  Output `udpx <k> <datagram>*` — every datagram the connection wrote, in order.
//	usrv <maxsize> <n> <msg>*   a real udp.Server on a loopback socket (options.WithMaxMessageSize(<maxsize>), 0 = default):
//	      every message is encoded with the real datagram coder and sent as ONE datagram from a raw socket; output
//	      `usrv <delivered> | <msg> | …` — what the server's handler received (real time, waits for each delivery).
package c01rx

import (
	"bufio"
	"bytes"
	"context"
	"fmt"
	"strconv"
	"strings"
	"sync"
	"testing"
	"testing/synctest"
	"time"

	"github.com/plgd-dev/go-coap/v3/message"
	"github.com/plgd-dev/go-coap/v3/message/codes"
	"github.com/plgd-dev/go-coap/v3/message/pool"
	"github.com/plgd-dev/go-coap/v3/net/responsewriter"
	"github.com/plgd-dev/go-coap/v3/options"
	tcpclient "github.com/plgd-dev/go-coap/v3/tcp/client"
	tcpcoder "github.com/plgd-dev/go-coap/v3/tcp/coder"
	udpclient "github.com/plgd-dev/go-coap/v3/udp/client"
	udpcoder "github.com/plgd-dev/go-coap/v3/udp/coder"
	udpserver "github.com/plgd-dev/go-coap/v3/udp/server"
	"verifharness/codecx"
	"verifharness/internal/lp"
	"verifharness/internal/mem"
)

type rec struct {
	mu    sync.Mutex
	coder string
	msgs  []string
}

func (r *rec) handle(m *pool.Message) {
	s, err := codecx.Snapshot(m)
	l := "snapshot-failed"
	if err == nil {
		l = codecx.FmtMsg(r.coder, &s)
	}
	r.mu.Lock()
	r.msgs = append(r.msgs, l)
	r.mu.Unlock()
}

func runStream(t *testing.T, viaServer bool, cache int, cuts []int, msgs []message.Message) (out string) {
	// encode with the real pooled marshal path
	var stream []byte
	for _, m := range msgs {
		pm := pool.NewMessage(context.Background())
		pm.SetMessage(m)
		b, err := pm.MarshalWithEncoder(tcpcoder.DefaultCoder)
		if err != nil {
			return "strm encode-error " + codecx.ErrKind(err)
		}
		stream = append(stream, b...)
	}
	synctest.Test(t, func(t *testing.T) {
		r := &rec{coder: "tcp"}
		handler := func(_ *responsewriter.ResponseWriter[*tcpclient.Conn], req *pool.Message) { r.handle(req) }
		var cc *tcpclient.Conn
		var peer *mem.TCPPeer
		var err error
		stop := func() {}
		if viaServer {
			cc, peer, stop, err = mem.NewTCPConnViaServer("c01rx-peer", options.WithReceivedMessageQueueSize(256),
				options.WithMaxMessageSize(1<<20), options.WithConnectionCacheSize(uint16(cache)), options.WithHandlerFunc(handler))
		} else {
			cc, peer, err = mem.NewTCPConn(mem.TCPOpts{Mutate: func(cfg *tcpclient.Config) {
				cfg.ReceivedMessageQueueSize = 256
				cfg.MaxMessageSize = 1 << 20
				cfg.ConnectionCacheSize = uint16(cache)
				cfg.BlockwiseEnable = false
				cfg.Handler = handler
			}})
		}
		if err != nil {
			out = "conn-error"
			return
		}
		synctest.Wait()
		prev := 0
		for _, c := range append(cuts, len(stream)) {
			if c <= prev || c > len(stream) {
				continue
			}
			_ = peer.Write(append([]byte(nil), stream[prev:c]...))
			synctest.Wait()
			prev = c
		}
		closed := 0
		select {
		case <-cc.Done():
			closed = 1
		default:
		}
		r.mu.Lock()
		out = fmt.Sprintf("strm %d closed=%d", len(r.msgs), closed)
		if len(r.msgs) > 0 {
			out += " | " + strings.Join(r.msgs, " | ")
		}
		r.mu.Unlock()
		_ = cc.Close()
		if viaServer {
			stop()
		} else {
			peer.Close()
		}
		synctest.Wait()
	})
	return out
}

type step struct {
	dup     int // -1 = new request
	mid     int32
	tok     []byte
	payload []byte
}

func runUDPExchange(t *testing.T, steps []step) (out string) {
	synctest.Test(t, func(t *testing.T) {
		cc, sess := mem.NewUDPConn(mem.UDPOpts{Mutate: func(cfg *udpclient.Config) {
			cfg.Handler = func(w *responsewriter.ResponseWriter[*udpclient.Conn], req *pool.Message) {
				body, _ := req.ReadBody()
				_ = w.SetResponse(codes.Content, message.AppOctets, bytes.NewReader(append([]byte(nil), body...)))
			}
		}})
		synctest.Wait()
		var news []step
		var sent []string
		buf := make([]byte, 65536)
		for _, s := range steps {
			rq := s
			if s.dup >= 0 {
				if s.dup >= len(news) {
					continue
				}
				rq = news[s.dup]
			} else {
				news = append(news, s)
			}
			m := message.Message{Type: message.Confirmable, MessageID: rq.mid, Code: codes.POST, Token: rq.tok,
				Options: message.Options{{ID: message.URIPath, Value: []byte("e")}}, Payload: rq.payload}
			n, err := udpcoder.DefaultCoder.Encode(m, buf)
			if err != nil {
				out = "udpx encode-error " + codecx.ErrKind(err)
				return
			}
			_ = cc.Process(nil, buf[:n])
			synctest.Wait()
			for _, d := range sess.TakeSent() {
				sent = append(sent, lp.Hex(d.Data))
			}
		}
		out = fmt.Sprintf("udpx %d", len(sent))
		if len(sent) > 0 {
			out += " " + strings.Join(sent, " ")
		}
		_ = cc.Close()
		synctest.Wait()
	})
	return out
}

func runUDPServer(maxSize int, msgs []message.Message) string {
	var extra []udpserver.Option
	if maxSize > 0 {
		extra = append(extra, options.WithMaxMessageSize(uint32(maxSize)))
	}
	rig, err := codecx.StartUDPRig(extra...)
	if err != nil {
		return "listen-error"
	}
	defer rig.Stop()
	peer, port, err := rig.Peer()
	if err != nil {
		return "dial-error"
	}
	defer func() { _ = peer.Close() }()
	buf := make([]byte, 70000)
	for i, m := range msgs {
		n, e := udpcoder.DefaultCoder.Encode(m, buf)
		if e != nil {
			return "usrv encode-error " + codecx.ErrKind(e)
		}
		if _, e := peer.Write(buf[:n]); e != nil {
			return "usrv write-error"
		}
		if !rig.Wait(i+1, 2*time.Second) {
			break
		}
	}
	got := rig.Of(port)
	out := fmt.Sprintf("usrv %d", len(got))
	if len(got) > 0 {
		out += " | " + strings.Join(got, " | ")
	}
	return out
}

func TestC01RX(t *testing.T) {
	err := lp.FileLoop(func(f []string, w *bufio.Writer) {
		res := func() (r string) {
			defer func() {
				if p := recover(); p != nil {
					r = "panic " + strings.ReplaceAll(fmt.Sprint(p), "\n", " ")
				}
			}()
			switch {
			case len(f) >= 5 && f[0] == "strm":
				cache, e1 := strconv.Atoi(f[2])
				n, e2 := strconv.Atoi(f[4])
				if e1 != nil || e2 != nil || (f[1] != "client" && f[1] != "server") {
					return "bad-op"
				}
				var cuts []int
				if f[3] != "-" {
					for _, c := range strings.Split(f[3], ",") {
						v, e := strconv.Atoi(c)
						if e != nil {
							return "bad-op"
						}
						cuts = append(cuts, v)
					}
				}
				rest := f[5:]
				var msgs []message.Message
				for i := 0; i < n; i++ {
					m, r2, e := codecx.ParseMsg(rest)
					if e != nil {
						return "bad-op"
					}
					msgs = append(msgs, m)
					rest = r2
				}
				if len(rest) != 0 {
					return "bad-op"
				}
				return runStream(t, f[1] == "server", cache, cuts, msgs)
			case len(f) >= 3 && f[0] == "usrv":
				maxSize, e1 := strconv.Atoi(f[1])
				n, e2 := strconv.Atoi(f[2])
				if e1 != nil || e2 != nil {
					return "bad-op"
				}
				rest := f[3:]
				var msgs []message.Message
				for i := 0; i < n; i++ {
					m, r2, e := codecx.ParseMsg(rest)
					if e != nil {
						return "bad-op"
					}
					msgs = append(msgs, m)
					rest = r2
				}
				if len(rest) != 0 {
					return "bad-op"
				}
				return runUDPServer(maxSize, msgs)
			case len(f) >= 2 && f[0] == "udpx":
				n, e := strconv.Atoi(f[1])
				if e != nil || len(f) != 2+n {
					return "bad-op"
				}
				var steps []step
				for _, s := range f[2:] {
					p := strings.Split(s, ":")
					switch {
					case len(p) == 2 && p[0] == "d":
						i, e := strconv.Atoi(p[1])
						if e != nil {
							return "bad-op"
						}
						steps = append(steps, step{dup: i})
					case len(p) == 4 && p[0] == "r":
						mid, e1 := strconv.Atoi(p[1])
						tok, e2 := lp.ParseHex(p[2])
						pay, e3 := lp.ParseHex(p[3])
						if e1 != nil || e2 != nil || e3 != nil {
							return "bad-op"
						}
						if len(tok) == 0 {
							tok = nil
						}
						if len(pay) == 0 {
							pay = nil
						}
						steps = append(steps, step{dup: -1, mid: int32(mid), tok: tok, payload: pay})
					default:
						return "bad-op"
					}
				}
				return runUDPExchange(t, steps)
			}
			return "bad-op"
		}()
		fmt.Fprintln(w, res)
	})
	if err != nil {
		t.Fatal(err)
	}
}
