// Harness for C02: the real decoders of /repo on arbitrary bytes behind the line protocol of checks/c02.py.
package main

import (
	"bufio"
	"bytes"
	"fmt"
	"strconv"
	"strings"
	"time"

	"github.com/plgd-dev/go-coap/v3/message"
	tcpcoder "github.com/plgd-dev/go-coap/v3/tcp/coder"
	"verifharness/codecx"
	"verifharness/internal/lp"
)

// decodeAndReencode: Decode; when accepted, Size+Encode the result and Decode that again.
func decodeAndReencode(cname string, c codecx.Coder, optCap int, data []byte) string {
	var d message.Message
	if optCap > 0 {
		d.Options = make(message.Options, 0, optCap)
	}
	n, e := c.Decode(data, &d)
	if e != nil {
		return fmt.Sprintf("dec %d %s -", n, codecx.ErrKind(e))
	}
	out := fmt.Sprintf("dec %d ok %s", n, codecx.FmtMsg(cname, &d))
	size, e := c.Size(d)
	if e != nil {
		return out + fmt.Sprintf(" | reenc %d %s -", size, codecx.ErrKind(e))
	}
	buf := make([]byte, size)
	rn, e := c.Encode(d, buf)
	if e != nil {
		return out + fmt.Sprintf(" | reenc %d %s -", rn, codecx.ErrKind(e))
	}
	out += fmt.Sprintf(" | reenc %d ok %s", rn, lp.Hex(buf[:rn]))
	var d2 message.Message
	if optCap > 0 {
		d2.Options = make(message.Options, 0, optCap)
	}
	n2, e := c.Decode(buf[:rn], &d2)
	if e != nil {
		return out + fmt.Sprintf(" | dec2 %d %s -", n2, codecx.ErrKind(e))
	}
	return out + fmt.Sprintf(" | dec2 %d ok %s", n2, codecx.FmtMsg(cname, &d2))
}

func handle(f []string) string {
	if len(f) < 2 {
		return "bad-op"
	}
	switch f[0] {
	case "dec":
		if len(f) != 4 {
			return "bad-op"
		}
		c, ok := codecx.CoderOf(f[1])
		optCap, e1 := strconv.Atoi(f[2])
		data, e2 := lp.ParseHex(f[3])
		if !ok || e1 != nil || e2 != nil {
			return "bad-op"
		}
		return codecx.Direct(func() string { return decodeAndReencode(f[1], c, optCap, data) })
	case "hdr":
		data, err := lp.ParseHex(f[1])
		if err != nil {
			return "bad-op"
		}
		return codecx.Direct(func() string {
			var h tcpcoder.MessageHeader
			n, e := tcpcoder.DefaultCoder.DecodeHeader(data, &h)
			if e != nil {
				return fmt.Sprintf("hdr %d %s", n, codecx.ErrKind(e))
			}
			return fmt.Sprintf("hdr %d ok %d %d %d %s", n, h.Length, h.MessageLength, uint8(h.Code), lp.Hex(h.Token))
		})
	case "pdec":
		if len(f) != 5 {
			return "bad-op"
		}
		c, ok := codecx.CoderOf(f[1])
		kind := f[2]
		optCap, e1 := strconv.Atoi(f[3])
		data, e2 := lp.ParseHex(f[4])
		if !ok || e1 != nil || e2 != nil || (kind != "fresh" && kind != "recycled" && kind != "loaded") {
			return "bad-op"
		}
		return codecx.Guard(2*time.Second, func() string {
			dst := codecx.NewPooled(kind, optCap)
			wire := append([]byte(nil), data...)
			n, e := dst.UnmarshalWithDecoder(c, wire)
			if e != nil {
				return fmt.Sprintf("pdec %d %s -", n, codecx.ErrKind(e))
			}
			before, e := codecx.Snapshot(dst)
			if e != nil {
				return "pdec snapshot-failed"
			}
			s1 := codecx.FmtMsg(f[1], &before)
			// the caller reuses its receive buffer
			for i := range wire {
				wire[i] = 0xEE
			}
			after, e := codecx.Snapshot(dst)
			if e != nil {
				return "pdec snapshot-failed"
			}
			alias := "ok"
			if s1 != codecx.FmtMsg(f[1], &after) || !bytes.Equal(before.Payload, after.Payload) {
				alias = "changed"
			}
			// re-encode from the SAME pooled message (a proxy forwarding what it received): the decoded message must not
			// change under its own re-encoding, and the re-encoding must decode to it
			out, e := dst.MarshalWithEncoder(c)
			if e != nil {
				return fmt.Sprintf("pdec %d ok %s alias=%s | remar %s - same=-", n, s1, alias, codecx.ErrKind(e))
			}
			reenc := append([]byte(nil), out...)
			again, e := codecx.Snapshot(dst)
			if e != nil {
				return "pdec snapshot-failed"
			}
			same := "ok"
			if s1 != codecx.FmtMsg(f[1], &again) {
				same = "changed"
			}
			return fmt.Sprintf("pdec %d ok %s alias=%s | remar ok %s same=%s", n, s1, alias, lp.Hex(reenc), same)
		})
	}
	return "bad-op"
}

func main() {
	lp.Loop(func(f []string, w *bufio.Writer) {
		out := codecx.Direct(func() string { return handle(f) })
		w.WriteString(strings.TrimSpace(out))
		w.WriteByte('\n')
	})
}
