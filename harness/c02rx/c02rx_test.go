// Harness for C02, receive paths ("a decoded message owns its bytes"): real connections fed from a REUSED
// buffer while earlier messages are still queued or inside their handler.
//
//		rxtcp <split> <nA> <nB> <frame>*   a tcp/client.Conn over net.Pipe (synctest bubble).  The peer pipelines the
//		      nA frames (written in chunks of <split> bytes, 0 = one write); the handler of the first message blocks, the
//		      others wait in the receive queue.  Then the nB frames (different content) are written: the session reads
//		      them into its stream buffer over the bytes of the first batch.  Then the handler is released.
//		rxudp <n> <datagram>*             udp/client.Conn.Process called n times with ONE buffer that is overwritten
//		      after every call, the first handler blocking meanwhile.
//
//		rxmon <tcp-client|tcp-server|udp> <split> <n> <frame>*   the same connections (tcp-server: the connection a real
//		      tcp.Server makes for an accepted stream, options only) with a REQUEST MONITOR that drops every message whose
//		      code is 0.04 (DELETE).  Stream frames are written in chunks of <split> bytes (0 = one write: a dropped frame and
//		      the frame behind it are parsed by the same processBuffer call).  Output `rxm <delivered> | <msg> | …`: a
//		      message decoded behind a dropped one must have the fields of a fresh decode of its own bytes.
//
//		usrv2 <delayms> <npeers> <k> (<peer>:<datagram>)*   a real udp.Server on a loopback socket whose OnNewConn callback
//		      sleeps <delayms> ms; the FIRST datagram of every peer is sent back to back (nothing is waited for), the remaining
//		      ones after those were delivered.  Output `usrv2 <total> | p0 <msg> ; <msg> | p1 … | unknown=<…>`: per peer, what
//		      the handler of that peer's connection received.
//
//	  rxack <n> <step>*   a real udp/client.Conn whose handler sets no response (the connection answers a confirmable request
//	        with an Empty ACK); steps `r:<mid>:<tok>:<pay>` = new confirmable request, `d:<i>` = duplicate of the i-th one
//	        (answered from the response cache: the cached datagram is decoded into a response message that already carries the
//	        request's token).  Output `rxack <k> <datagram>*` = everything the connection wrote.
//
// Output: `rx <delivered> | <msg 0 on handler entry> | <msg 0 after the overwrite> | <msg 1> | …` — every message
// as the application sees it after the later input has been read.
package c02rx

import (
	"bufio"
	"fmt"
	"net"
	"strconv"
	"strings"
	"sync"
	"testing"
	"testing/synctest"
	"time"

	"github.com/plgd-dev/go-coap/v3/message/codes"
	"github.com/plgd-dev/go-coap/v3/message/pool"
	"github.com/plgd-dev/go-coap/v3/net/responsewriter"
	"github.com/plgd-dev/go-coap/v3/options"
	tcpclient "github.com/plgd-dev/go-coap/v3/tcp/client"
	udpclient "github.com/plgd-dev/go-coap/v3/udp/client"
	"verifharness/codecx"
	"verifharness/internal/lp"
	"verifharness/internal/mem"
)

type recorder struct {
	mu      sync.Mutex
	coder   string
	n       int
	early   string
	late    []string
	started chan struct{}
	release chan struct{}
}

func newRecorder(coder string) *recorder {
	return &recorder{coder: coder, started: make(chan struct{}), release: make(chan struct{})}
}

func (r *recorder) snap(m *pool.Message) string {
	s, err := codecx.Snapshot(m)
	if err != nil {
		return "snapshot-failed"
	}
	return codecx.FmtMsg(r.coder, &s)
}

// handle is the application handler: the first message is looked at on entry, then the handler blocks until the
// harness has pushed the later input through the connection; every message is recorded when its handler resumes/runs.
func (r *recorder) handle(m *pool.Message) {
	r.mu.Lock()
	first := r.n == 0
	r.n++
	r.mu.Unlock()
	if first {
		e := r.snap(m)
		r.mu.Lock()
		r.early = e
		r.mu.Unlock()
		close(r.started)
		<-r.release
	}
	l := r.snap(m)
	r.mu.Lock()
	r.late = append(r.late, l)
	r.mu.Unlock()
}

func (r *recorder) line() string {
	r.mu.Lock()
	defer r.mu.Unlock()
	if r.n == 0 {
		return "rx 0"
	}
	return fmt.Sprintf("rx %d | %s | %s", len(r.late), r.early, strings.Join(r.late, " | "))
}

func chunks(b []byte, k int) [][]byte {
	if k <= 0 || k >= len(b) {
		return [][]byte{b}
	}
	var out [][]byte
	for len(b) > 0 {
		n := k
		if n > len(b) {
			n = len(b)
		}
		out = append(out, b[:n])
		b = b[n:]
	}
	return out
}

func runTCP(t *testing.T, split int, a, b [][]byte) (out string) {
	synctest.Test(t, func(t *testing.T) {
		rec := newRecorder("tcp")
		cc, peer, err := mem.NewTCPConn(mem.TCPOpts{Mutate: func(cfg *tcpclient.Config) {
			cfg.ReceivedMessageQueueSize = 128
			cfg.BlockwiseEnable = false
			cfg.Handler = func(_ *responsewriter.ResponseWriter[*tcpclient.Conn], req *pool.Message) { rec.handle(req) }
		}})
		if err != nil {
			out = "conn-error"
			return
		}
		synctest.Wait()
		var all []byte
		for _, f := range a {
			all = append(all, f...)
		}
		for _, c := range chunks(all, split) {
			_ = peer.Write(append([]byte(nil), c...))
			synctest.Wait()
		}
		// later traffic on the same connection: lands in the stream buffer the first batch was parsed from
		for _, f := range b {
			_ = peer.Write(append([]byte(nil), f...))
			synctest.Wait()
		}
		select {
		case <-rec.started:
			close(rec.release)
		default:
		}
		synctest.Wait()
		out = rec.line()
		_ = cc.Close()
		peer.Close()
		synctest.Wait()
	})
	return out
}

func runUDP(t *testing.T, dgrams [][]byte) (out string) {
	synctest.Test(t, func(t *testing.T) {
		rec := newRecorder("udp")
		cc, _ := mem.NewUDPConn(mem.UDPOpts{Mutate: func(cfg *udpclient.Config) {
			cfg.ReceivedMessageQueueSize = 128
			cfg.Handler = func(_ *responsewriter.ResponseWriter[*udpclient.Conn], req *pool.Message) { rec.handle(req) }
		}})
		synctest.Wait()
		buf := make([]byte, 4096) // the socket reader's one receive buffer
		for _, d := range dgrams {
			n := copy(buf, d)
			_ = cc.Process(nil, buf[:n])
			synctest.Wait()
			for i := range buf { // the next datagram (here: garbage) arrives in the same buffer
				buf[i] = 0xEE
			}
		}
		select {
		case <-rec.started:
			close(rec.release)
		default:
		}
		synctest.Wait()
		out = rec.line()
		_ = cc.Close()
		synctest.Wait()
	})
	return out
}

// plain is a non-blocking recorder: every delivered message as its handler sees it.
type plain struct {
	mu    sync.Mutex
	coder string
	msgs  []string
}

func (r *plain) handle(m *pool.Message) {
	s, err := codecx.Snapshot(m)
	l := "snapshot-failed"
	if err == nil {
		l = codecx.FmtMsg(r.coder, &s)
	}
	r.mu.Lock()
	r.msgs = append(r.msgs, l)
	r.mu.Unlock()
}

func (r *plain) line() string {
	r.mu.Lock()
	defer r.mu.Unlock()
	if len(r.msgs) == 0 {
		return "rxm 0"
	}
	return fmt.Sprintf("rxm %d | %s", len(r.msgs), strings.Join(r.msgs, " | "))
}

func dropDelete(code codes.Code) bool { return code == codes.DELETE }

func runMonTCP(t *testing.T, viaServer bool, split int, frames [][]byte) (out string) {
	synctest.Test(t, func(t *testing.T) {
		rec := &plain{coder: "tcp"}
		handler := func(_ *responsewriter.ResponseWriter[*tcpclient.Conn], req *pool.Message) { rec.handle(req) }
		monitor := tcpclient.RequestMonitorFunc(func(_ *tcpclient.Conn, req *pool.Message) (bool, error) {
			return dropDelete(req.Code()), nil
		})
		var cc *tcpclient.Conn
		var peer *mem.TCPPeer
		var err error
		stop := func() {}
		if viaServer {
			cc, peer, stop, err = mem.NewTCPConnViaServer("c02rx-peer", options.WithReceivedMessageQueueSize(128),
				options.WithHandlerFunc(handler), options.WithRequestMonitor(monitor))
		} else {
			cc, peer, err = mem.NewTCPConn(mem.TCPOpts{Mutate: func(cfg *tcpclient.Config) {
				cfg.ReceivedMessageQueueSize = 128
				cfg.BlockwiseEnable = false
				cfg.Handler = handler
				cfg.RequestMonitor = monitor
			}})
		}
		if err != nil {
			out = "conn-error"
			return
		}
		synctest.Wait()
		var all []byte
		for _, f := range frames {
			all = append(all, f...)
		}
		for _, c := range chunks(all, split) {
			_ = peer.Write(append([]byte(nil), c...))
			synctest.Wait()
		}
		out = rec.line()
		_ = cc.Close()
		if viaServer {
			stop()
		} else {
			peer.Close()
		}
		synctest.Wait()
	})
	return out
}

func runMonUDP(t *testing.T, dgrams [][]byte) (out string) {
	synctest.Test(t, func(t *testing.T) {
		rec := &plain{coder: "udp"}
		cc, _ := mem.NewUDPConn(mem.UDPOpts{Mutate: func(cfg *udpclient.Config) {
			cfg.ReceivedMessageQueueSize = 128
			cfg.Handler = func(_ *responsewriter.ResponseWriter[*udpclient.Conn], req *pool.Message) { rec.handle(req) }
		}, ConnOpts: []udpclient.Option{udpclient.WithRequestMonitor(func(_ *udpclient.Conn, req *pool.Message) (bool, error) {
			return dropDelete(req.Code()), nil
		})}})
		synctest.Wait()
		buf := make([]byte, 4096)
		for _, d := range dgrams {
			n := copy(buf, d)
			_ = cc.Process(nil, buf[:n])
			synctest.Wait()
			for i := range buf {
				buf[i] = 0xEE
			}
		}
		synctest.Wait()
		out = rec.line()
		_ = cc.Close()
		synctest.Wait()
	})
	return out
}

func runUDPServerPeers(delayMs, npeers int, sends [][2]any) string {
	rig, err := codecx.StartUDPRig(options.WithOnNewConn(func(*udpclient.Conn) {
		time.Sleep(time.Duration(delayMs) * time.Millisecond)
	}))
	if err != nil {
		return "listen-error"
	}
	defer rig.Stop()
	peers := make([]*net.UDPConn, npeers)
	ports := make([]int, npeers)
	for i := range peers {
		c, port, e := rig.Peer()
		if e != nil {
			return "dial-error"
		}
		defer func() { _ = c.Close() }()
		peers[i], ports[i] = c, port
	}
	seen := make([]bool, npeers)
	var later [][2]any
	sent := 0
	for _, sd := range sends {
		p := sd[0].(int)
		if seen[p] {
			later = append(later, sd)
			continue
		}
		seen[p] = true
		_, _ = peers[p].Write(sd[1].([]byte))
		sent++
	}
	rig.Wait(sent, 1500*time.Millisecond)
	for _, sd := range later {
		_, _ = peers[sd[0].(int)].Write(sd[1].([]byte))
		sent++
		rig.Wait(sent, time.Second)
	}
	var parts []string
	total := 0
	for i, port := range ports {
		got := rig.Of(port)
		total += len(got)
		parts = append(parts, fmt.Sprintf("p%d %s", i, strings.Join(got, " ; ")))
	}
	return fmt.Sprintf("usrv2 %d | %s | unknown=%s", total, strings.Join(parts, " | "), rig.Unknown(ports))
}

func runUDPAck(t *testing.T, steps []string) (out string) {
	synctest.Test(t, func(t *testing.T) {
		cc, sess := mem.NewUDPConn(mem.UDPOpts{Mutate: func(cfg *udpclient.Config) {
			cfg.Handler = func(_ *responsewriter.ResponseWriter[*udpclient.Conn], _ *pool.Message) {}
		}})
		synctest.Wait()
		type rq struct {
			mid      int
			tok, pay []byte
		}
		var news []rq
		var sent []string
		buf := make([]byte, 4096)
		bad := false
		for _, st := range steps {
			p := strings.Split(st, ":")
			var q rq
			switch {
			case len(p) == 2 && p[0] == "d":
				i, e := strconv.Atoi(p[1])
				if e != nil || i < 0 || i >= len(news) {
					bad = true
					continue
				}
				q = news[i]
			case len(p) == 4 && p[0] == "r":
				mid, e1 := strconv.Atoi(p[1])
				tok, e2 := lp.ParseHex(p[2])
				pay, e3 := lp.ParseHex(p[3])
				if e1 != nil || e2 != nil || e3 != nil {
					bad = true
					continue
				}
				q = rq{mid, tok, pay}
				news = append(news, q)
			default:
				bad = true
				continue
			}
			d := []byte{0x40 | byte(len(q.tok)), 0x02, byte(q.mid >> 8), byte(q.mid)}
			d = append(d, q.tok...)
			d = append(d, 0xb1, 'e')
			if len(q.pay) > 0 {
				d = append(append(d, 0xff), q.pay...)
			}
			n := copy(buf, d)
			_ = cc.Process(nil, buf[:n])
			synctest.Wait()
			for _, x := range sess.TakeSent() {
				sent = append(sent, lp.Hex(x.Data))
			}
		}
		if bad {
			out = "bad-op"
		} else {
			out = strings.TrimSpace(fmt.Sprintf("rxack %d %s", len(sent), strings.Join(sent, " ")))
		}
		_ = cc.Close()
		synctest.Wait()
	})
	return out
}

func parseHexList(f []string) ([][]byte, bool) {
	out := make([][]byte, 0, len(f))
	for _, s := range f {
		b, err := lp.ParseHex(s)
		if err != nil {
			return nil, false
		}
		out = append(out, b)
	}
	return out, true
}

func TestC02RX(t *testing.T) {
	err := lp.FileLoop(func(f []string, w *bufio.Writer) {
		res := func() (r string) {
			defer func() {
				if p := recover(); p != nil {
					r = "panic " + strings.ReplaceAll(fmt.Sprint(p), "\n", " ")
				}
			}()
			switch {
			case len(f) >= 4 && f[0] == "rxtcp":
				split, e1 := strconv.Atoi(f[1])
				na, e2 := strconv.Atoi(f[2])
				nb, e3 := strconv.Atoi(f[3])
				if e1 != nil || e2 != nil || e3 != nil || len(f) != 4+na+nb {
					return "bad-op"
				}
				fr, ok := parseHexList(f[4:])
				if !ok {
					return "bad-op"
				}
				return runTCP(t, split, fr[:na], fr[na:])
			case len(f) >= 4 && f[0] == "rxmon":
				split, e1 := strconv.Atoi(f[2])
				n, e2 := strconv.Atoi(f[3])
				if e1 != nil || e2 != nil || len(f) != 4+n {
					return "bad-op"
				}
				fr, ok := parseHexList(f[4:])
				if !ok {
					return "bad-op"
				}
				switch f[1] {
				case "tcp-client":
					return runMonTCP(t, false, split, fr)
				case "tcp-server":
					return runMonTCP(t, true, split, fr)
				case "udp":
					return runMonUDP(t, fr)
				}
				return "bad-op"
			case len(f) >= 4 && f[0] == "usrv2":
				delay, e1 := strconv.Atoi(f[1])
				np, e2 := strconv.Atoi(f[2])
				k, e3 := strconv.Atoi(f[3])
				if e1 != nil || e2 != nil || e3 != nil || len(f) != 4+k || np < 1 || np > 16 {
					return "bad-op"
				}
				var sends [][2]any
				for _, x := range f[4:] {
					ps, hx, ok := strings.Cut(x, ":")
					p, e := strconv.Atoi(ps)
					b, e2 := lp.ParseHex(hx)
					if !ok || e != nil || e2 != nil || p < 0 || p >= np {
						return "bad-op"
					}
					sends = append(sends, [2]any{p, b})
				}
				return runUDPServerPeers(delay, np, sends)
			case len(f) >= 2 && f[0] == "rxack":
				n, e := strconv.Atoi(f[1])
				if e != nil || len(f) != 2+n {
					return "bad-op"
				}
				return runUDPAck(t, f[2:])
			case len(f) >= 2 && f[0] == "rxudp":
				n, e := strconv.Atoi(f[1])
				if e != nil || len(f) != 2+n {
					return "bad-op"
				}
				d, ok := parseHexList(f[2:])
				if !ok {
					return "bad-op"
				}
				return runUDP(t, d)
			}
			return "bad-op"
		}()
		fmt.Fprintln(w, res)
	})
	if err != nil {
		t.Fatal(err)
	}
}
