// Harness for C03 (every response reaches exactly the request that carries its token).
//
// One scenario per input line:
//
//	scn <udp|tcp> <bw 0|1> <op> <op> ...
//
// ops (colon separated fields):
//
//	do:<caller>:<tokhex|nil>:<con|non>   start cc.Do in a goroutine with a caller-chosen token
//	peer:<kind>:<tokhex>:<mid>:<tag>     the peer emits one message; kind ∈ ack pig con non rst (udp) | resp (tcp)
//	                                     mid = @<caller> (the message ID of that caller's request) or a literal
//	blk:<tokhex>:<mid0>:<mid1>:<tag>     the peer answers block-wise in two blocks (only with bw = 1)
//	blkc:<tokhex>:<mid0>:<mid1>:<tag>    the same; on the stream transport the peer sends a further CSM (Max-Message-Size only, no
//	                                     Block-Wise-Transfer option) between the two blocks
//	obs:<caller>:<tokhex>                cc.DoObserve (GET /status, Observe 0) in a goroutine with a caller-chosen token; it returns with the
//	                                     first notification; later notifications are logged like messages for the default handler
//	onote:<tokhex>:<mid>:<seq>:<tag>     the peer sends a notification (Observe seq): piggybacked if mid = @<caller>, else non-confirmable
//	blkp:<tokhex>:<mid0>:<tag>           (udp, bw = 1) the peer is a state-less block-wise server: it sends block 0 of <tag>, then reads the
//	                                     request for block 1 and answers it by that request's Uri-Path (/r: the rest of <tag>; any other
//	                                     path: the rest of that resource's representation, `from-<path>`)
//	pipe:<tok>=<tag>,<tok>=<tag>,…       (tcp) the peer writes these responses back to back in one write (pipelined answers)
//
// A tag of the form <name>*<n> stands for a payload of <name> followed by n dots (long frames); it is reported in the same form.
//
//	auto:<caller>:<con|non>              a request built by the connection's own constructor (cc.NewGetRequest): the LIBRARY chooses the
//	                                     token (the connection's configured generator, message.GetToken by default); reported as
//	                                     the event auto:<caller>:<tokhex> in front of the op's segment
//	draw:<n>                             n tokens are drawn from the connection's generator (cc.GetToken) and not used: requests built
//	                                     and never sent, other connections of the process
//	many:<caller0>:<n>:<con|non>:<mid0>  n complete exchanges one after the other, callers caller0…, each `auto` followed by the peer's
//	                                     answer m<caller> (piggybacked for con, non-confirmable with message ID mid0+i for non, a
//	                                     response frame on tcp): 2n segments
//
// In the token field of a `peer` op `$<caller>` stands for the token the library chose for that caller: the peer echoes the token
// of the request it answers.
//
//	cancel:<caller>                      cancels the caller's request context
//	close                                closes the connection
//	settle                               nothing (observation point)
//	gate | open                          (udp) the connection's next empty-ACK writes block in the socket until `open`:
//	                                     the receive path that delivered a separate confirmable response is held up in its
//	                                     ACK while the caller already has (and releases) the response
//
// An op prefixed with '+' is not followed by a wait: the next op races with it (its segment is "+").
//
// After every op the bubble is run to quiescence (synctest.Wait) and one segment of observations is
// emitted; segments are joined with ';', events inside a segment with ','.  Events:
//
//	tx:<tokhex>                  a request datagram/frame carrying that token left the connection
//	ret:<caller>:ok:<tokhex>:<tag> | ret:<caller>:<err>     a call returned (sorted by caller)
//	dflt:<tokhex>:<tag>          a message reached the application's default handler
//
// The output line starts with `inj=<0|1>`: whether message.Token.Hash is injective on the tokens used.
package c03

import (
	"bufio"
	"bytes"
	"context"
	"errors"
	"fmt"
	"net"
	"sort"
	"strconv"
	"strings"
	"sync"
	"testing"
	"testing/synctest"
	"time"

	"github.com/plgd-dev/go-coap/v3/message"
	"github.com/plgd-dev/go-coap/v3/message/codes"
	"github.com/plgd-dev/go-coap/v3/message/pool"
	coapNet "github.com/plgd-dev/go-coap/v3/net"
	"github.com/plgd-dev/go-coap/v3/net/blockwise"
	"github.com/plgd-dev/go-coap/v3/net/responsewriter"
	"github.com/plgd-dev/go-coap/v3/options"
	pkgErrors "github.com/plgd-dev/go-coap/v3/pkg/errors"
	tcpclient "github.com/plgd-dev/go-coap/v3/tcp/client"
	tcpcoder "github.com/plgd-dev/go-coap/v3/tcp/coder"
	"github.com/plgd-dev/go-coap/v3/udp"
	udpclient "github.com/plgd-dev/go-coap/v3/udp/client"
	udpcoder "github.com/plgd-dev/go-coap/v3/udp/coder"
	"verifharness/internal/lp"
	"verifharness/internal/mem"
)

// doer is what both connection types offer to a caller.
type doer interface {
	AcquireMessage(ctx context.Context) *pool.Message
	ReleaseMessage(m *pool.Message)
	Do(req *pool.Message) (*pool.Message, error)
	Close() error
	NewGetRequest(ctx context.Context, path string, opts ...message.Option) (*pool.Message, error)
	GetToken() (message.Token, error)
}

type caller struct {
	id       int
	cancel   context.CancelFunc
	done     chan struct{}
	res      string
	reported bool
}

type world struct {
	mu          sync.Mutex
	events      []string // dflt events in arrival order
	callers     map[int]*caller
	order       []int
	mids        map[string]int32 // token hex -> message id of the request that carried it (udp)
	observe     func(req *pool.Message, f func(*pool.Message)) error
	lastBlkPath string   // Uri-Path of the last request sent that carries Block2
	carryTx     []string // tx events consumed in the middle of an op
}

func (w *world) logDflt(tok message.Token, body []byte) {
	w.mu.Lock()
	defer w.mu.Unlock()
	w.events = append(w.events, "dflt:"+lp.Hex(tok)+":"+tagOf(body))
}

func tagOf(body []byte) string {
	if len(body) == 0 {
		return "-"
	}
	n := 0
	for n < len(body) && body[len(body)-1-n] == '.' {
		n++
	}
	if n >= 64 {
		return fmt.Sprintf("%s*%d", body[:len(body)-n], n)
	}
	return string(body)
}

// expandTag: <name>*<n> -> name followed by n dots
func expandTag(tag string) []byte {
	if i := strings.LastIndex(tag, "*"); i > 0 {
		if n, err := strconv.Atoi(tag[i+1:]); err == nil && n >= 64 {
			return append([]byte(tag[:i]), bytes.Repeat([]byte{'.'}, n)...)
		}
	}
	return []byte(tag)
}

func errName(err error) string {
	switch {
	case err == nil:
		return "ok"
	case errors.Is(err, pkgErrors.ErrKeyAlreadyExists):
		return "exists"
	case errors.Is(err, context.Canceled) && !strings.Contains(err.Error(), "connection was closed"):
		return "ctx"
	case errors.Is(err, context.DeadlineExceeded):
		return "timeout"
	case strings.Contains(err.Error(), "connection was closed"):
		return "closed"
	case strings.Contains(err.Error(), "invalid token"):
		return "badToken"
	}
	return "other"
}

func (w *world) startDo(cc doer, id int, tok message.Token, typ string) {
	ctx, cancel := context.WithCancel(context.Background())
	c := &caller{id: id, cancel: cancel, done: make(chan struct{})}
	w.mu.Lock()
	w.callers[id] = c
	w.order = append(w.order, id)
	w.mu.Unlock()
	go func() {
		defer close(c.done)
		defer func() {
			if r := recover(); r != nil {
				c.res = fmt.Sprintf("ret:%d:panic", id)
			}
		}()
		req := cc.AcquireMessage(ctx)
		defer cc.ReleaseMessage(req)
		req.SetCode(codes.GET)
		if tok != nil {
			req.SetToken(tok)
		}
		_ = req.SetPath("/r")
		switch typ {
		case "con":
			req.SetType(message.Confirmable)
		case "non":
			req.SetType(message.NonConfirmable)
		}
		resp, err := cc.Do(req)
		if err != nil {
			c.res = fmt.Sprintf("ret:%d:%s", id, errName(err))
			return
		}
		body, _ := resp.ReadBody()
		c.res = fmt.Sprintf("ret:%d:ok:%s:%s", id, lp.Hex(resp.Token()), tagOf(body))
		cc.ReleaseMessage(resp)
	}()
}

// startAuto: the request comes from the connection's constructor, which asks the configured token generator; the token is
// returned (hex) so that the scripted peer can echo it.
func (w *world) startAuto(cc doer, id int, typ string) string {
	ctx, cancel := context.WithCancel(context.Background())
	c := &caller{id: id, cancel: cancel, done: make(chan struct{})}
	w.mu.Lock()
	w.callers[id] = c
	w.order = append(w.order, id)
	w.mu.Unlock()
	req, err := cc.NewGetRequest(ctx, "/r")
	if err != nil {
		c.res = fmt.Sprintf("ret:%d:other", id)
		close(c.done)
		return ""
	}
	switch typ {
	case "con":
		req.SetType(message.Confirmable)
	case "non":
		req.SetType(message.NonConfirmable)
	}
	tok := lp.Hex(req.Token())
	go func() {
		defer close(c.done)
		defer func() {
			if r := recover(); r != nil {
				c.res = fmt.Sprintf("ret:%d:panic", id)
			}
		}()
		defer cc.ReleaseMessage(req)
		resp, err := cc.Do(req)
		if err != nil {
			c.res = fmt.Sprintf("ret:%d:%s", id, errName(err))
			return
		}
		body, _ := resp.ReadBody()
		c.res = fmt.Sprintf("ret:%d:ok:%s:%s", id, lp.Hex(resp.Token()), tagOf(body))
		cc.ReleaseMessage(resp)
	}()
	return tok
}

func drawTokens(cc doer, n int) {
	for i := 0; i < n; i++ {
		if _, err := cc.GetToken(); err != nil {
			panic(err)
		}
	}
}

// startObs: cc.DoObserve with a caller-chosen token; the call returns with the first notification
func (w *world) startObs(cc doer, id int, tok message.Token, udp bool) {
	ctx, cancel := context.WithCancel(context.Background())
	c := &caller{id: id, cancel: cancel, done: make(chan struct{})}
	w.mu.Lock()
	w.callers[id] = c
	w.order = append(w.order, id)
	w.mu.Unlock()
	go func() {
		defer close(c.done)
		defer func() {
			if r := recover(); r != nil {
				c.res = fmt.Sprintf("ret:%d:panic", id)
			}
		}()
		req := cc.AcquireMessage(ctx)
		defer cc.ReleaseMessage(req)
		req.SetCode(codes.GET)
		req.SetToken(tok)
		_ = req.SetPath("/status")
		req.SetObserve(0)
		if udp {
			req.SetType(message.Confirmable)
		}
		n := 0
		first := ""
		gotFirst := make(chan struct{})
		err := w.observe(req, func(r *pool.Message) {
			body, _ := r.ReadBody()
			w.mu.Lock()
			n++
			if n == 1 {
				first = lp.Hex(r.Token()) + ":" + tagOf(body)
				close(gotFirst)
			} else {
				w.events = append(w.events, "dflt:"+lp.Hex(r.Token())+":"+tagOf(body))
			}
			w.mu.Unlock()
		})
		if err != nil {
			c.res = fmt.Sprintf("ret:%d:%s", id, errName(err))
			return
		}
		// DoObserve returns as soon as the registration is confirmed; the callback for that first notification runs on the
		// receive loop and may still be on its way
		select {
		case <-gotFirst:
		case <-ctx.Done():
		}
		w.mu.Lock()
		c.res = fmt.Sprintf("ret:%d:ok:%s", id, first)
		w.mu.Unlock()
	}()
}

// collect returns the segment of observations since the last call.
func (w *world) collect(tx []string) string {
	var ev []string
	ev = append(ev, tx...)
	w.mu.Lock()
	ids := append([]int(nil), w.order...)
	sort.Ints(ids)
	var rets []string
	for _, id := range ids {
		c := w.callers[id]
		if c.reported {
			continue
		}
		select {
		case <-c.done:
			c.reported = true
			rets = append(rets, c.res)
		default:
		}
	}
	ev = append(ev, rets...)
	ev = append(ev, w.events...)
	w.events = nil
	w.mu.Unlock()
	if len(ev) == 0 {
		return "-"
	}
	return strings.Join(ev, ",")
}

func injective(ops []string) bool {
	seen := map[uint64]string{}
	for _, op := range ops {
		f := strings.Split(strings.TrimPrefix(op, "+"), ":")
		var th string
		switch f[0] {
		case "do":
			th = f[2]
		case "peer":
			th = f[2]
		case "blk", "blkc", "blkp", "onote":
			th = f[1]
		case "obs":
			th = f[2]
		default:
			continue
		}
		if th == "nil" {
			continue
		}
		b, err := lp.ParseHex(th)
		if err != nil {
			continue
		}
		h := message.Token(b).Hash()
		if prev, ok := seen[h]; ok && prev != lp.Hex(b) {
			return false
		}
		seen[h] = lp.Hex(b)
	}
	return true
}

func parseTok(s string) message.Token {
	if s == "nil" {
		return nil
	}
	b, _ := lp.ParseHex(s)
	return message.Token(b)
}

// ---------------------------------------------------------------- UDP

func udpMsg(typ message.Type, code codes.Code, tok message.Token, mid int32, body []byte, opts ...message.Option) []byte {
	m := pool.NewMessage(context.Background())
	m.SetType(typ)
	m.SetCode(code)
	if len(tok) > 0 {
		m.SetToken(tok)
	}
	m.SetMessageID(mid)
	for _, o := range opts {
		m.SetOptionBytes(o.ID, o.Value)
	}
	if len(body) > 0 {
		m.SetBody(bytes.NewReader(body))
	}
	b, err := m.MarshalWithEncoder(udpcoder.DefaultCoder)
	if err != nil {
		panic(err)
	}
	return append([]byte(nil), b...)
}

func blockOpt(id message.OptionID, szx blockwise.SZX, num int64, more bool) message.Option {
	v, err := blockwise.EncodeBlockOption(szx, num, more)
	if err != nil {
		panic(err)
	}
	buf := make([]byte, 4)
	n, _ := message.EncodeUint32(buf, v)
	return message.Option{ID: id, Value: buf[:n]}
}

func runUDP(t *testing.T, bw bool, ops []string) (out string) {
	synctest.Test(t, func(t *testing.T) {
		w := &world{callers: map[int]*caller{}, mids: map[string]int32{}}
		cc, s := mem.NewUDPConn(mem.UDPOpts{Blockwise: bw, BlockwiseSZX: blockwise.SZX16, Mutate: func(cfg *udpclient.Config) {
			cfg.LimitClientParallelRequests = 0
			cfg.LimitClientEndpointParallelRequests = 0
			cfg.TransmissionNStart = 1000
			cfg.GetMID = func() int32 { return 0xffff/2 + 100 }
			cfg.Handler = func(_ *responsewriter.ResponseWriter[*udpclient.Conn], r *pool.Message) {
				body, _ := r.ReadBody()
				w.logDflt(r.Token(), body)
			}
		}})
		takeTx := func() []string {
			var tx []string
			for _, d := range s.TakeSent() {
				m := pool.NewMessage(context.Background())
				if _, err := m.UnmarshalWithDecoder(udpcoder.DefaultCoder, d.Data); err != nil {
					tx = append(tx, "tx:undecodable")
					continue
				}
				if m.Code() >= codes.GET && m.Code() <= codes.DELETE {
					if !m.HasOption(message.Block2) {
						w.mids[lp.Hex(m.Token())] = m.MessageID()
						tx = append(tx, "tx:"+lp.Hex(m.Token()))
					} else {
						tx = append(tx, "txblk:"+lp.Hex(m.Token()))
						if p, err := m.Path(); err == nil {
							w.lastBlkPath = p
						}
					}
				}
			}
			return tx
		}
		w.observe = func(req *pool.Message, f func(*pool.Message)) error {
			_, err := cc.DoObserve(req, f)
			return err
		}
		// a slow socket for empty acknowledgements (see ops gate / open)
		var gmu sync.Mutex
		var gateCh chan struct{}
		s.OnWrite = func(data []byte) {
			if len(data) >= 4 && (data[0]>>4)&3 == byte(message.Acknowledgement) && data[1] == 0 {
				gmu.Lock()
				ch := gateCh
				gmu.Unlock()
				if ch != nil {
					<-ch
				}
			}
		}
		openGate := func() {
			gmu.Lock()
			if gateCh != nil {
				close(gateCh)
				gateCh = nil
			}
			gmu.Unlock()
		}
		callerTok := map[int]string{}
		callerMid := map[int]int32{}
		lastDo := -1
		parseTok := func(s string) message.Token {
			if strings.HasPrefix(s, "$") {
				id, _ := strconv.Atoi(s[1:])
				return parseTok(callerTok[id])
			}
			return parseTok(s)
		}
		resolveMid := func(sm string) int32 {
			if strings.HasPrefix(sm, "@") {
				id, _ := strconv.Atoi(sm[1:])
				if mid, ok := callerMid[id]; ok {
					return mid
				}
				return 65000 // never used by the connection in a scenario
			}
			v, _ := strconv.Atoi(sm)
			return int32(v)
		}
		segs := []string{"inj=" + map[bool]string{true: "1", false: "0"}[injective(ops)]}
		var runOp func(op string)
		runOp = func(op string) {
			nowait := strings.HasPrefix(op, "+")
			op = strings.TrimPrefix(op, "+")
			f := strings.Split(op, ":")
			if f[0] == "many" && len(f) == 5 {
				c0, _ := strconv.Atoi(f[1])
				n, _ := strconv.Atoi(f[2])
				m0, _ := strconv.Atoi(f[4])
				for i := 0; i < n; i++ {
					runOp(fmt.Sprintf("auto:%d:%s", c0+i, f[3]))
					if f[3] == "con" {
						runOp(fmt.Sprintf("peer:pig:$%d:@%d:m%d", c0+i, c0+i, c0+i))
					} else {
						runOp(fmt.Sprintf("peer:non:$%d:%d:m%d", c0+i, (m0+i)&0xffff, c0+i))
					}
				}
				return
			}
			func() {
				defer func() {
					if r := recover(); r != nil {
						w.mu.Lock()
						w.events = append(w.events, fmt.Sprintf("panic:%v", r))
						w.mu.Unlock()
					}
				}()
				switch {
				case f[0] == "do" && len(f) == 4:
					id, _ := strconv.Atoi(f[1])
					tok := parseTok(f[2])
					callerTok[id] = lp.Hex(tok)
					lastDo = id
					w.startDo(cc, id, tok, f[3])
				case f[0] == "auto" && len(f) == 3:
					id, _ := strconv.Atoi(f[1])
					tok := w.startAuto(cc, id, f[2])
					callerTok[id] = tok
					lastDo = id
					w.carryTx = append(w.carryTx, fmt.Sprintf("auto:%d:%s", id, tok))
				case f[0] == "draw" && len(f) == 2:
					n, _ := strconv.Atoi(f[1])
					drawTokens(cc, n)
				case f[0] == "peer" && len(f) == 5:
					tok := parseTok(f[2])
					mid := resolveMid(f[3])
					body := []byte(f[4])
					var d []byte
					switch f[1] {
					case "ack":
						d = udpMsg(message.Acknowledgement, codes.Empty, nil, mid, nil)
					case "rst":
						d = udpMsg(message.Reset, codes.Empty, nil, mid, nil)
					case "pig":
						d = udpMsg(message.Acknowledgement, codes.Content, tok, mid, body)
					case "con":
						d = udpMsg(message.Confirmable, codes.Content, tok, mid, body)
					case "non":
						d = udpMsg(message.NonConfirmable, codes.Content, tok, mid, body)
					default:
						panic("bad peer kind")
					}
					if err := cc.Process(nil, d); err != nil {
						panic(err)
					}
				case f[0] == "obs" && len(f) == 3:
					id, _ := strconv.Atoi(f[1])
					tok := parseTok(f[2])
					callerTok[id] = lp.Hex(tok)
					lastDo = id
					w.startObs(cc, id, tok, true)
				case f[0] == "onote" && len(f) == 5:
					tok := parseTok(f[1])
					seq, _ := strconv.Atoi(f[3])
					buf := make([]byte, 4)
					n, _ := message.EncodeUint32(buf, uint32(seq))
					obsOpt := message.Option{ID: message.Observe, Value: buf[:n]}
					var d []byte
					if strings.HasPrefix(f[2], "@") {
						d = udpMsg(message.Acknowledgement, codes.Content, tok, resolveMid(f[2]), []byte(f[4]), obsOpt)
					} else {
						d = udpMsg(message.NonConfirmable, codes.Content, tok, resolveMid(f[2]), []byte(f[4]), obsOpt)
					}
					if err := cc.Process(nil, d); err != nil {
						panic(err)
					}
				case f[0] == "blkp" && len(f) == 4:
					tok := parseTok(f[1])
					m0, _ := strconv.Atoi(f[2])
					body := []byte(f[3])
					for len(body) < 17 {
						body = append(body, '.')
					}
					d0 := udpMsg(message.NonConfirmable, codes.Content, tok, int32(m0), body[:16], blockOpt(message.Block2, blockwise.SZX16, 0, true))
					if err := cc.Process(nil, d0); err != nil {
						panic(err)
					}
					synctest.Wait()
					w.lastBlkPath = ""
					w.carryTx = append(w.carryTx, takeTx()...)
					rest := body[16:]
					if w.lastBlkPath == "" {
						break // no request for the next block: nothing to serve
					}
					if w.lastBlkPath != "/r" {
						rest = []byte("from-" + strings.TrimPrefix(w.lastBlkPath, "/"))
					}
					d1 := udpMsg(message.NonConfirmable, codes.Content, tok, int32(m0+1), rest, blockOpt(message.Block2, blockwise.SZX16, 1, false))
					if err := cc.Process(nil, d1); err != nil {
						panic(err)
					}
				case (f[0] == "blk" || f[0] == "blkc") && len(f) == 5:
					tok := parseTok(f[1])
					m0, _ := strconv.Atoi(f[2])
					m1, _ := strconv.Atoi(f[3])
					body := []byte(f[4])
					for len(body) < 17 {
						body = append(body, '.')
					}
					d0 := udpMsg(message.NonConfirmable, codes.Content, tok, int32(m0), body[:16], blockOpt(message.Block2, blockwise.SZX16, 0, true))
					if err := cc.Process(nil, d0); err != nil {
						panic(err)
					}
					synctest.Wait()
					d1 := udpMsg(message.NonConfirmable, codes.Content, tok, int32(m1), body[16:], blockOpt(message.Block2, blockwise.SZX16, 1, false))
					if err := cc.Process(nil, d1); err != nil {
						panic(err)
					}
				case f[0] == "cancel" && len(f) == 2:
					id, _ := strconv.Atoi(f[1])
					if c := w.callers[id]; c != nil {
						c.cancel()
					}
				case f[0] == "close":
					_ = cc.Close()
				case f[0] == "gate":
					gmu.Lock()
					if gateCh == nil {
						gateCh = make(chan struct{})
					}
					gmu.Unlock()
				case f[0] == "open":
					openGate()
				case f[0] == "settle":
				default:
					panic("bad-op " + op)
				}
			}()
			if nowait {
				segs = append(segs, "+")
				return
			}
			synctest.Wait()
			tx := append(w.carryTx, takeTx()...)
			w.carryTx = nil
			if lastDo >= 0 {
				// the request datagram written since the last observation point that carries this caller's token
				if mid, ok := w.mids[callerTok[lastDo]]; ok && (f[0] == "do" || f[0] == "obs" || f[0] == "auto") {
					callerMid[lastDo] = mid
				}
			}
			w.mids = map[string]int32{}
			lastDo = -1
			segs = append(segs, w.collect(tx))
		}
		for _, op := range ops {
			runOp(op)
		}
		openGate()
		_ = cc.Close()
		for _, c := range w.callers {
			c.cancel()
		}
		synctest.Wait()
		out = strings.Join(segs, ";")
	})
	return out
}

// ---------------------------------------------------------------- TCP

func tcpMsg(code codes.Code, tok message.Token, body []byte, opts ...message.Option) []byte {
	m := pool.NewMessage(context.Background())
	m.SetCode(code)
	if len(tok) > 0 {
		m.SetToken(tok)
	}
	for _, o := range opts {
		m.SetOptionBytes(o.ID, o.Value)
	}
	if len(body) > 0 {
		m.SetBody(bytes.NewReader(body))
	}
	b, err := m.MarshalWithEncoder(tcpcoder.DefaultCoder)
	if err != nil {
		panic(err)
	}
	return append([]byte(nil), b...)
}

func runTCP(t *testing.T, bw bool, ops []string) (out string) {
	synctest.Test(t, func(t *testing.T) {
		w := &world{callers: map[int]*caller{}, mids: map[string]int32{}}
		cc, peer, err := mem.NewTCPConn(mem.TCPOpts{Mutate: func(cfg *tcpclient.Config) {
			cfg.LimitClientParallelRequests = 0
			cfg.LimitClientEndpointParallelRequests = 0
			cfg.BlockwiseEnable = bw
			cfg.BlockwiseSZX = blockwise.SZX16
			cfg.Handler = func(_ *responsewriter.ResponseWriter[*tcpclient.Conn], r *pool.Message) {
				body, _ := r.ReadBody()
				w.logDflt(r.Token(), body)
			}
		}})
		if err != nil {
			out = "conn-error"
			return
		}
		synctest.Wait()
		peer.TakeFrames() // the connection's CSM
		if bw {
			if err := peer.Write(tcpMsg(codes.CSM, nil, nil, message.Option{ID: message.TCPBlockWiseTransfer, Value: []byte{}})); err != nil {
				out = "conn-error"
				return
			}
			synctest.Wait()
		}
		takeTx := func() []string {
			var tx []string
			for _, d := range peer.TakeFrames() {
				m := pool.NewMessage(context.Background())
				if _, err := m.UnmarshalWithDecoder(tcpcoder.DefaultCoder, d); err != nil {
					tx = append(tx, "tx:undecodable")
					continue
				}
				if m.Code() >= codes.GET && m.Code() <= codes.DELETE {
					if !m.HasOption(message.Block2) {
						tx = append(tx, "tx:"+lp.Hex(m.Token()))
					} else {
						tx = append(tx, "txblk:"+lp.Hex(m.Token()))
					}
				}
			}
			return tx
		}
		segs := []string{"inj=" + map[bool]string{true: "1", false: "0"}[injective(ops)]}
		callerTok := map[int]string{}
		parseTok := func(s string) message.Token {
			if strings.HasPrefix(s, "$") {
				id, _ := strconv.Atoi(s[1:])
				return parseTok(callerTok[id])
			}
			return parseTok(s)
		}
		var runOp func(op string)
		runOp = func(op string) {
			nowait := strings.HasPrefix(op, "+")
			op = strings.TrimPrefix(op, "+")
			f := strings.Split(op, ":")
			if f[0] == "many" && len(f) == 5 {
				c0, _ := strconv.Atoi(f[1])
				n, _ := strconv.Atoi(f[2])
				for i := 0; i < n; i++ {
					runOp(fmt.Sprintf("auto:%d:con", c0+i))
					runOp(fmt.Sprintf("peer:resp:$%d:0:m%d", c0+i, c0+i))
				}
				return
			}
			func() {
				defer func() {
					if r := recover(); r != nil {
						w.mu.Lock()
						w.events = append(w.events, fmt.Sprintf("panic:%v", r))
						w.mu.Unlock()
					}
				}()
				switch {
				case f[0] == "do" && len(f) == 4:
					id, _ := strconv.Atoi(f[1])
					w.startDo(cc, id, parseTok(f[2]), "")
				case f[0] == "auto" && len(f) == 3:
					id, _ := strconv.Atoi(f[1])
					tok := w.startAuto(cc, id, "")
					callerTok[id] = tok
					w.carryTx = append(w.carryTx, fmt.Sprintf("auto:%d:%s", id, tok))
				case f[0] == "draw" && len(f) == 2:
					n, _ := strconv.Atoi(f[1])
					drawTokens(cc, n)
				case f[0] == "peer" && len(f) == 5 && f[1] == "resp":
					if err := peer.Write(tcpMsg(codes.Content, parseTok(f[2]), expandTag(f[4]))); err != nil {
						panic(err)
					}
				case f[0] == "pipe" && len(f) == 2:
					var all []byte
					for _, part := range strings.Split(f[1], ",") {
						kv := strings.SplitN(part, "=", 2)
						if len(kv) != 2 {
							panic("bad pipe")
						}
						all = append(all, tcpMsg(codes.Content, parseTok(kv[0]), expandTag(kv[1]))...)
					}
					if err := peer.Write(all); err != nil {
						panic(err)
					}
				case (f[0] == "blk" || f[0] == "blkc") && len(f) == 5:
					tok := parseTok(f[1])
					body := []byte(f[4])
					for len(body) < 17 {
						body = append(body, '.')
					}
					if err := peer.Write(tcpMsg(codes.Content, tok, body[:16], blockOpt(message.Block2, blockwise.SZX16, 0, true))); err != nil {
						panic(err)
					}
					synctest.Wait()
					if f[0] == "blkc" {
						// a further CSM that only updates Max-Message-Size: capabilities it does not mention keep their value
						buf := make([]byte, 4)
						n, _ := message.EncodeUint32(buf, 4096)
						if err := peer.Write(tcpMsg(codes.CSM, nil, nil, message.Option{ID: message.TCPMaxMessageSize, Value: buf[:n]})); err != nil {
							panic(err)
						}
						synctest.Wait()
					}
					if err := peer.Write(tcpMsg(codes.Content, tok, body[16:], blockOpt(message.Block2, blockwise.SZX16, 1, false))); err != nil {
						panic(err)
					}
				case f[0] == "cancel" && len(f) == 2:
					id, _ := strconv.Atoi(f[1])
					if c := w.callers[id]; c != nil {
						c.cancel()
					}
				case f[0] == "close":
					_ = cc.Close()
				case f[0] == "settle", f[0] == "gate", f[0] == "open":
				default:
					panic("bad-op " + op)
				}
			}()
			if nowait {
				segs = append(segs, "+")
				return
			}
			synctest.Wait()
			tx := append(w.carryTx, takeTx()...)
			w.carryTx = nil
			segs = append(segs, w.collect(tx))
		}
		for _, op := range ops {
			runOp(op)
		}
		_ = cc.Close()
		for _, c := range w.callers {
			c.cancel()
		}
		peer.Close()
		synctest.Wait()
		out = strings.Join(segs, ";")
	})
	return out
}

// runDiscovery: udp/server.DiscoveryRequest registers its token with the same register-if-absent operation. A second
// discovery with a token that is still in use must be refused and must leave both table entries of the first alone.
// Real loopback socket (not under synctest).
func runDiscovery() (out string) {
	defer func() {
		if r := recover(); r != nil {
			out = fmt.Sprintf("panic:%v", r)
		}
	}()
	l, err := coapNet.NewListenUDP("udp4", "127.0.0.1:0")
	if err != nil {
		return "skip:listen"
	}
	defer l.Close()
	s := udp.NewServer(options.WithMessagePool(pool.New(64, 2048)), options.WithErrors(func(error) {}))
	var wg sync.WaitGroup
	wg.Add(1)
	go func() { defer wg.Done(); _ = s.Serve(l) }()
	defer func() { s.Stop(); wg.Wait() }()
	time.Sleep(20 * time.Millisecond)
	silent, err := net.ListenUDP("udp4", &net.UDPAddr{IP: net.IPv4(127, 0, 0, 1)})
	if err != nil {
		return "skip:listen"
	}
	defer silent.Close()
	addr := silent.LocalAddr().String()
	mk := func(ctx context.Context) *pool.Message {
		req := pool.NewMessage(ctx)
		_ = req.SetupGet("/oic/res", message.Token{1, 2, 5})
		req.SetMessageID(1234)
		req.SetType(message.NonConfirmable)
		return req
	}
	recv := func(*udpclient.Conn, *pool.Message) {}
	ctx, cancel := context.WithTimeout(context.Background(), 150*time.Millisecond)
	defer cancel()
	done := make(chan error, 1)
	go func() { done <- s.DiscoveryRequest(mk(ctx), addr, recv) }()
	time.Sleep(40 * time.Millisecond)
	ctx2, cancel2 := context.WithTimeout(context.Background(), 30*time.Millisecond)
	defer cancel2()
	err2 := s.DiscoveryRequest(mk(ctx2), addr, recv)
	rq, hd := s.VerifDiscoverySizes()
	second := "accepted"
	if errors.Is(err2, pkgErrors.ErrKeyAlreadyExists) {
		second = "rejected"
	}
	first := "ok"
	if e := <-done; e != nil {
		first = "err"
	}
	rq2, hd2 := s.VerifDiscoverySizes()
	return fmt.Sprintf("during:%d,%d;second:%s;first:%s;final:%d,%d", rq, hd, second, first, rq2, hd2)
}

func TestC03(t *testing.T) {
	err := lp.FileLoop(func(f []string, w *bufio.Writer) {
		defer func() {
			if r := recover(); r != nil {
				fmt.Fprintf(w, "panic %v\n", r)
			}
		}()
		if len(f) == 2 && f[0] == "disc" && f[1] == "duptoken" {
			fmt.Fprintln(w, runDiscovery())
			return
		}
		if len(f) < 3 || f[0] != "scn" {
			fmt.Fprintln(w, "bad-op")
			return
		}
		bw := f[2] == "1"
		switch f[1] {
		case "udp":
			fmt.Fprintln(w, runUDP(t, bw, f[3:]))
		case "tcp":
			fmt.Fprintln(w, runTCP(t, bw, f[3:]))
		default:
			fmt.Fprintln(w, "bad-op")
		}
	})
	if err != nil {
		t.Fatal(err)
	}
}
