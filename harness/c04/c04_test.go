// Harness for C04 (block-wise transfer): two real blockwise.BlockWise instances joined by a relay whose every
// decision (deliver / duplicate / drop / swap / replay / inject) is an input line, inside a testing/synctest
// bubble (virtual clock for context deadlines and cache expiry).  One output line per input line: the events
// observed at quiescence after the operation.  Line protocol: see lean/Driver/C04.lean.
package c04

import (
	"bufio"
	"bytes"
	"context"
	crand "crypto/rand"
	"encoding/binary"
	"encoding/hex"
	"fmt"
	"io"
	"math/big"
	"strconv"
	"strings"
	"sync"
	"testing"
	"testing/synctest"
	"time"

	"github.com/plgd-dev/go-coap/v3/message"
	"github.com/plgd-dev/go-coap/v3/message/codes"
	"github.com/plgd-dev/go-coap/v3/message/pool"
	"github.com/plgd-dev/go-coap/v3/net/blockwise"
	"github.com/plgd-dev/go-coap/v3/net/responsewriter"
	"verifharness/internal/lp"
)

// ---- bodies and digests (identical in lean/Driver/C04.lean)

func bodyByte(seed, i int) byte { return byte((i*167 + (i/256)*59 + seed*101 + 13) % 256) }

func genBody(seed, off, n int) []byte {
	b := make([]byte, n)
	for j := range b {
		b[j] = bodyByte(seed, off+j)
	}
	return b
}

// A body of the line protocol is named by a seed specification: `<seed>` — byte i is bodyByte(seed, i) — or
// `<s1>:<k>:<s2>` — bytes [0, k) are those of body(s1), byte i >= k is bodyByte(s2, i): a representation that SHARES its
// first k bytes (whole blocks, when k is a multiple of the block size) with body(s1) and differs from it afterwards.
type seedSpec struct{ s1, k, s2 int }

func parseSeed(s string) (seedSpec, bool) {
	f := strings.Split(s, ":")
	switch len(f) {
	case 1:
		v, err := strconv.Atoi(f[0])
		return seedSpec{v, 0, v}, err == nil && v >= 0
	case 3:
		a, e1 := strconv.Atoi(f[0])
		k, e2 := strconv.Atoi(f[1])
		b, e3 := strconv.Atoi(f[2])
		return seedSpec{a, k, b}, e1 == nil && e2 == nil && e3 == nil && a >= 0 && k >= 0 && b >= 0
	}
	return seedSpec{}, false
}

func genBodySpec(spec string, off, n int) []byte {
	sp, ok := parseSeed(spec)
	if !ok {
		panic("bad seed specification " + spec)
	}
	b := make([]byte, n)
	for j := range b {
		if off+j < sp.k {
			b[j] = bodyByte(sp.s1, off+j)
		} else {
			b[j] = bodyByte(sp.s2, off+j)
		}
	}
	return b
}

func fnv(b []byte) uint64 {
	h := uint64(0xcbf29ce484222325)
	for _, x := range b {
		h = (h ^ uint64(x)) * 0x100000001b3
	}
	return h
}

// ---- message snapshots

type opt struct {
	id  int
	val []byte
}

type wmsg struct {
	code   int
	tok    string // decimal token number, see tokBytes
	b1, b2 *uint32
	s1, s2 *uint32
	etag   []byte // nil = absent
	other  []opt
	body   []byte
}

var two64 = new(big.Int).Lsh(big.NewInt(1), 64)

// tokBytes maps a token number of the line protocol to the token on the wire:
//   0                      -> empty token
//   n < 2^64               -> the 8 bytes of n, big-endian
//   2^64 + 256^k + v       -> the k bytes (1 <= k <= 7) of v < 256^k, big-endian
// so that tokens of every length, with leading / trailing zero bytes, are expressible and distinct numbers are distinct tokens.
func tokBytes(t string) message.Token {
	n, ok := new(big.Int).SetString(t, 10)
	if !ok || n.Sign() == 0 {
		return nil
	}
	if n.Cmp(two64) < 0 {
		b := make([]byte, 8)
		n.FillBytes(b)
		return b
	}
	m := new(big.Int).Sub(n, two64)
	for k := 1; k <= 7; k++ {
		lo := new(big.Int).Lsh(big.NewInt(1), uint(8*k))
		hi := new(big.Int).Lsh(big.NewInt(1), uint(8*k+1))
		if m.Cmp(lo) >= 0 && m.Cmp(hi) < 0 {
			b := make([]byte, k)
			new(big.Int).Sub(m, lo).FillBytes(b)
			return b
		}
	}
	panic("bad token number " + t)
}

func tokNum(t message.Token) string {
	if len(t) == 0 {
		return "0"
	}
	v := new(big.Int).SetBytes(t)
	if len(t) == 8 {
		return v.String()
	}
	if len(t) > 8 {
		panic("token longer than 8 bytes")
	}
	v.Add(v, new(big.Int).Lsh(big.NewInt(1), uint(8*len(t))))
	v.Add(v, two64)
	return v.String()
}

func readBody(m *pool.Message) []byte {
	r := m.Body()
	if r == nil {
		return nil
	}
	if _, err := r.Seek(0, io.SeekStart); err != nil {
		panic(err)
	}
	b, err := io.ReadAll(r)
	if err != nil {
		panic(err)
	}
	if _, err := r.Seek(0, io.SeekStart); err != nil {
		panic(err)
	}
	return b
}

func snapshot(m *pool.Message) wmsg {
	s := wmsg{code: int(m.Code()), tok: tokNum(m.Token())}
	u32 := func(id message.OptionID) *uint32 {
		v, err := m.GetOptionUint32(id)
		if err != nil {
			return nil
		}
		return &v
	}
	s.b1, s.b2, s.s1, s.s2 = u32(message.Block1), u32(message.Block2), u32(message.Size1), u32(message.Size2)
	for _, o := range m.Options() {
		switch o.ID {
		case message.Block1, message.Block2, message.Size1, message.Size2:
		case message.ETag:
			s.etag = append([]byte{}, o.Value...)
		default:
			s.other = append(s.other, opt{int(o.ID), append([]byte{}, o.Value...)})
		}
	}
	s.body = readBody(m)
	return s
}

func fmtBlk(v *uint32) string {
	if v == nil {
		return "-"
	}
	if *v > 0xffffff {
		return fmt.Sprintf("!%d", *v)
	}
	m := 0
	if *v&8 != 0 {
		m = 1
	}
	return fmt.Sprintf("%d/%d/%d", *v&7, *v>>4, m)
}

func fmtU32(v *uint32) string {
	if v == nil {
		return "-"
	}
	return strconv.FormatUint(uint64(*v), 10)
}

func hexOrDash(b []byte) string {
	if len(b) == 0 {
		return "-"
	}
	return hex.EncodeToString(b)
}

func (s wmsg) String() string {
	etag := "-"
	if s.etag != nil {
		etag = hexOrDash(s.etag)
		if len(s.etag) == 0 {
			etag = "00x"
		}
	}
	other := "-"
	if len(s.other) > 0 {
		parts := make([]string, len(s.other))
		for i, o := range s.other {
			parts[i] = fmt.Sprintf("%d:%s", o.id, hexOrDash(o.val))
		}
		other = strings.Join(parts, ",")
	}
	return fmt.Sprintf("%d %s %s %s %s %s %s %s %d %016x", s.code, s.tok, fmtBlk(s.b1), fmtBlk(s.b2), fmtU32(s.s1), fmtU32(s.s2),
		etag, other, len(s.body), fnv(s.body))
}

func (s wmsg) build(ctx context.Context) *pool.Message {
	m := pool.NewMessage(ctx)
	s.fill(m)
	return m
}

func (s wmsg) fill(m *pool.Message) {
	m.SetCode(codes.Code(s.code))
	m.SetToken(tokBytes(s.tok))
	if s.etag != nil {
		m.SetOptionBytes(message.ETag, s.etag)
	}
	for _, o := range s.other {
		m.AddOptionBytes(message.OptionID(o.id), o.val)
	}
	if s.b1 != nil {
		m.SetOptionUint32(message.Block1, *s.b1)
	}
	if s.b2 != nil {
		m.SetOptionUint32(message.Block2, *s.b2)
	}
	if s.s1 != nil {
		m.SetOptionUint32(message.Size1, *s.s1)
	}
	if s.s2 != nil {
		m.SetOptionUint32(message.Size2, *s.s2)
	}
	if len(s.body) > 0 {
		m.SetBody(bytes.NewReader(s.body))
	}
}

// ---- world

type endpoint struct {
	name string
	p    *pool.Pool
	bw   *blockwise.BlockWise[*endpoint]
	szx  blockwise.SZX
	max  uint32
}

func (e *endpoint) AcquireMessage(ctx context.Context) *pool.Message { return e.p.AcquireMessage(ctx) }
func (e *endpoint) ReleaseMessage(m *pool.Message)                    { e.p.ReleaseMessage(m) }

type packet struct {
	dst *endpoint
	m   wmsg
}

type world struct {
	mu      sync.Mutex
	events  []string
	a, b    *endpoint
	queue   []packet
	hist    []packet
	regs    map[string]wmsg         // "A/7" -> registered message
	waiters map[string]chan wmsg    // token handlers of pending Do calls of A
	cancels []context.CancelFunc
	doCancel map[string]context.CancelFunc // `do <tok> -`: calls without a deadline, ended by `cancel <tok>`
	connCtx context.Context // the connections' context: cancelled when the case ends
	// observations (`observe <side> <tok>`): what the layer's getSentRequestFromOutside serves; B's default resource
	// (`resource …`): how B's application answers a request whose token has no registered answer; the token source
	observed map[string]bool
	resource *wmsg
	tokens   *tokenSource
}

// tokenSource replaces crypto/rand.Reader while a case runs: message.GetToken (the only reader of randomness in the
// block-wise layer: the token of the follow-up GETs of a block-wise notification) gets the tokens the script queued
// (`fresh <tok>`) and then freshBase, freshBase+1, … — the same sequence the model driver uses.
type tokenSource struct {
	mu    sync.Mutex
	queue [][]byte
	drawn uint64
}

const freshBase = uint64(0xF0F0000000000000)

func (t *tokenSource) Read(p []byte) (int, error) {
	t.mu.Lock()
	defer t.mu.Unlock()
	if len(p) != 8 {
		for i := range p {
			p[i] = 0xA5
		}
		return len(p), nil
	}
	if len(t.queue) > 0 {
		copy(p, t.queue[0])
		t.queue = t.queue[1:]
		return 8, nil
	}
	binary.BigEndian.PutUint64(p, freshBase+t.drawn)
	t.drawn++
	return 8, nil
}

func (w *world) log(s string) { w.mu.Lock(); w.events = append(w.events, s); w.mu.Unlock() }

func (w *world) take() string {
	w.mu.Lock()
	defer w.mu.Unlock()
	if len(w.events) == 0 {
		return "none"
	}
	s := strings.Join(w.events, " ; ")
	w.events = nil
	return s
}

func (w *world) other(e *endpoint) *endpoint {
	if e == w.a {
		return w.b
	}
	return w.a
}

func (w *world) side(s string) *endpoint {
	if s == "A" {
		return w.a
	}
	return w.b
}

func (w *world) send(from *endpoint, m wmsg) {
	w.log("wire " + from.name + " " + m.String())
	w.mu.Lock()
	w.queue = append(w.queue, packet{w.other(from), m})
	w.mu.Unlock()
}

// next is the handler the block-wise layer hands complete messages to.
func (w *world) next(e *endpoint) func(rw *responsewriter.ResponseWriter[*endpoint], r *pool.Message) {
	return func(rw *responsewriter.ResponseWriter[*endpoint], r *pool.Message) {
		s := snapshot(r)
		w.log("dlv " + e.name + " " + s.String())
		if e == w.a {
			w.mu.Lock()
			ch, ok := w.waiters[s.tok]
			if ok {
				delete(w.waiters, s.tok)
			}
			w.mu.Unlock()
			if ok {
				ch <- s
			}
			return
		}
		if s.code >= int(codes.GET) && s.code <= int(codes.DELETE) {
			w.mu.Lock()
			reg, ok := w.regs["B/"+s.tok]
			if !ok && w.resource != nil {
				reg, ok = *w.resource, true
			}
			w.mu.Unlock()
			if ok {
				reg.tok = s.tok
				reg.fill(rw.Message())
			}
		}
	}
}

// recv: the network hands m to e (what a connection's receive path does around Handle).
func (w *world) recv(e *endpoint, m wmsg) {
	w.log("arr " + e.name + " " + m.String())
	// the receive path of a connection: the message (whose context is the connection's) is handled in a goroutine of
	// its own; a Handle call that is still blocked when everything else is at rest is reported (`stuck <side>`)
	done := make(chan struct{})
	go func() {
		defer close(done)
		defer func() {
			if r := recover(); r != nil {
				w.log("panic " + strings.ReplaceAll(fmt.Sprint(r), " ", "_"))
			}
		}()
		req := e.p.AcquireMessage(w.connCtx)
		m.fill(req)
		resp := e.p.AcquireMessage(w.connCtx)
		resp.SetToken(req.Token())
		rw := responsewriter.New(resp, e, req.Options()...)
		e.bw.Handle(rw, req, e.szx, e.max, w.next(e))
		if w.connCtx.Err() != nil {
			return // released by the end of the case, not by the layer
		}
		if rw.Message().IsModified() {
			w.send(e, snapshot(rw.Message()))
		}
		e.p.ReleaseMessage(rw.Message())
		e.p.ReleaseMessage(req)
	}()
	synctest.Wait()
	select {
	case <-done:
	default:
		w.log("stuck " + e.name)
	}
}

func newEndpoint(w *world, name string, szx int, max uint32, exp time.Duration) *endpoint {
	e := &endpoint{name: name, p: pool.New(64, 2048), szx: blockwise.SZX(szx), max: max}
	e.bw = blockwise.New(e, exp, func(error) { w.log("err " + name) }, func(token message.Token) (*pool.Message, bool) {
		// the connection's observation table: a copy of the registered request (code, token, options), as
		// net/observation Handler.GetObservationRequest makes it
		t := tokNum(token)
		w.mu.Lock()
		reg, ok := w.regs[name+"/"+t]
		ok = ok && w.observed[name+"/"+t]
		w.mu.Unlock()
		if !ok {
			return nil, false
		}
		reg.body = nil
		m := e.p.AcquireMessage(w.connCtx)
		reg.fill(m)
		return m, true
	})
	return e
}

func parseBlk(s string) *uint32 {
	if s == "-" {
		return nil
	}
	if strings.HasPrefix(s, "!") {
		v, _ := strconv.ParseUint(s[1:], 10, 32)
		u := uint32(v)
		return &u
	}
	f := strings.Split(s, "/")
	szx, _ := strconv.ParseUint(f[0], 10, 32)
	num, _ := strconv.ParseUint(f[1], 10, 32)
	v := uint32(num<<4) | uint32(szx)
	if f[2] != "0" {
		v |= 8
	}
	return &v
}

func parseU32(s string) *uint32 {
	if s == "-" {
		return nil
	}
	v, _ := strconv.ParseUint(s, 10, 32)
	u := uint32(v)
	return &u
}

func parseEtag(s string) []byte {
	if s == "-" {
		return nil
	}
	if s == "00x" {
		return []byte{}
	}
	b, _ := hex.DecodeString(s)
	return b
}

func parseOther(s string) []opt {
	if s == "-" {
		return nil
	}
	var out []opt
	for _, p := range strings.Split(s, ",") {
		kv := strings.SplitN(p, ":", 2)
		id, _ := strconv.Atoi(kv[0])
		var v []byte
		if kv[1] != "-" {
			v, _ = hex.DecodeString(kv[1])
		}
		out = append(out, opt{id, v})
	}
	return out
}

func atoi(s string) int { v, _ := strconv.Atoi(s); return v }

func (w *world) sizes() string {
	ra, sa := w.a.bw.VerifC04CacheLengths()
	rb, sb := w.b.bw.VerifC04CacheLengths()
	return fmt.Sprintf("sizes %d %d %d %d", ra, sa, rb, sb)
}

func (w *world) apply(f []string) (done bool) {
	switch f[0] {
	case "reg":
		m := wmsg{code: atoi(f[3]), etag: parseEtag(f[6]), other: parseOther(f[7]), body: genBodySpec(f[5], 0, atoi(f[4]))}
		m.tok = f[2]
		w.mu.Lock()
		w.regs[f[1]+"/"+f[2]] = m
		w.mu.Unlock()
		w.log("ok")
	case "observe":
		w.mu.Lock()
		_, ok := w.regs[f[1]+"/"+f[2]]
		if ok {
			w.observed[f[1]+"/"+f[2]] = true
		}
		w.mu.Unlock()
		if ok {
			w.log("ok")
		} else {
			w.log("bad-op")
		}
	case "fresh":
		t := tokBytes(f[1])
		if len(t) != 8 {
			w.log("bad-op")
			return
		}
		w.tokens.mu.Lock()
		w.tokens.queue = append(w.tokens.queue, t)
		w.tokens.mu.Unlock()
		w.log("ok")
	case "resource":
		m := wmsg{code: atoi(f[1]), etag: parseEtag(f[4]), other: parseOther(f[5]), body: genBodySpec(f[3], 0, atoi(f[2]))}
		w.mu.Lock()
		w.resource = &m
		w.mu.Unlock()
		w.log("ok")
	case "do":
		tok := f[1]
		w.mu.Lock()
		reg, ok := w.regs["A/"+f[1]]
		w.mu.Unlock()
		if !ok {
			w.log("bad-op")
			return
		}
		var ctx context.Context
		var cancel context.CancelFunc
		if f[2] == "-" {
			// a call without a deadline: it ends with its response or when the application gives up (`cancel <tok>`)
			ctx, cancel = context.WithCancel(context.Background())
			w.mu.Lock()
			w.doCancel[tok] = cancel
			w.mu.Unlock()
		} else {
			ctx, cancel = context.WithTimeout(context.Background(), time.Duration(atoi(f[2]))*time.Millisecond)
		}
		w.cancels = append(w.cancels, cancel)
		req := reg.build(ctx)
		go func() {
			resp, err := w.a.bw.Do(req, w.a.szx, w.a.max, func(bwReq *pool.Message) (*pool.Message, error) {
				ch := make(chan wmsg, 1)
				w.mu.Lock()
				if _, dup := w.waiters[tok]; dup {
					w.mu.Unlock()
					return nil, fmt.Errorf("token handler exists")
				}
				w.waiters[tok] = ch
				w.mu.Unlock()
				w.send(w.a, snapshot(bwReq))
				select {
				case r := <-ch:
					return r.build(ctx), nil
				case <-ctx.Done():
					w.mu.Lock()
					if w.waiters[tok] == ch {
						delete(w.waiters, tok)
					}
					w.mu.Unlock()
					return nil, ctx.Err()
				}
			})
			if err != nil {
				w.log(fmt.Sprintf("ret %s err", tok))
				return
			}
			w.log(fmt.Sprintf("ret %s ok %s", tok, snapshot(resp).String()))
		}()
	case "cancel":
		// the application of A abandons its pending call without a deadline (its context is cancelled)
		w.mu.Lock()
		cancel, ok := w.doCancel[f[1]]
		delete(w.doCancel, f[1])
		w.mu.Unlock()
		if ok {
			cancel()
		}
	case "write":
		e := w.side(f[1])
		w.mu.Lock()
		reg, ok := w.regs[f[1]+"/"+f[2]]
		w.mu.Unlock()
		if !ok {
			w.log("bad-op")
			return
		}
		req := reg.build(context.Background())
		err := e.bw.WriteMessage(req, e.szx, e.max, func(m *pool.Message) error {
			w.send(e, snapshot(m))
			return nil
		})
		if err != nil {
			w.log(fmt.Sprintf("wret %s %s err", f[1], f[2]))
		} else {
			w.log(fmt.Sprintf("wret %s %s ok", f[1], f[2]))
		}
	case "net":
		switch f[1] {
		case "deliver", "dup":
			if len(w.queue) == 0 {
				return
			}
			p := w.queue[0]
			if f[1] == "deliver" {
				w.queue = w.queue[1:]
			}
			w.hist = append(w.hist, p)
			w.recv(p.dst, p.m)
		case "drop":
			if len(w.queue) == 0 {
				return
			}
			w.hist = append(w.hist, w.queue[0])
			w.queue = w.queue[1:]
		case "swap":
			if len(w.queue) >= 2 {
				w.queue[0], w.queue[1] = w.queue[1], w.queue[0]
			}
		case "replay":
			k := atoi(f[2])
			if k < len(w.hist) {
				w.recv(w.hist[k].dst, w.hist[k].m)
			}
		default:
			w.log("bad-op")
		}
	case "inject":
		m := wmsg{code: atoi(f[2]), tok: f[3], b1: parseBlk(f[4]), b2: parseBlk(f[5]), s1: parseU32(f[6]), s2: parseU32(f[7]),
			etag: parseEtag(f[8]), other: parseOther(f[9]), body: genBodySpec(f[10], atoi(f[11]), atoi(f[12]))}
		w.recv(w.side(f[1]), m)
	case "sleep":
		time.Sleep(time.Duration(atoi(f[1])) * time.Millisecond)
	case "tick":
		w.side(f[1]).bw.CheckExpirations(time.Now())
		synctest.Wait()
		w.log(w.sizes())
	case "settle":
		w.log(fmt.Sprintf("queue %d", len(w.queue)))
	case "end":
		time.Sleep(3600 * time.Second)
		synctest.Wait()
		w.a.bw.CheckExpirations(time.Now())
		w.b.bw.CheckExpirations(time.Now())
		synctest.Wait()
		w.log(w.sizes())
		return true
	default:
		w.log("bad-op")
	}
	return false
}

var arity = map[string]int{"cancel": 2, "observe": 3, "fresh": 2, "resource": 6, "reg": 8, "do": 3, "write": 3, "inject": 13, "sleep": 2, "tick": 2, "settle": 1, "end": 1}

func wellFormed(f []string) bool {
	if len(f) == 0 {
		return false
	}
	if f[0] == "net" {
		return len(f) == 2 && (f[1] == "deliver" || f[1] == "dup" || f[1] == "drop" || f[1] == "swap") || len(f) == 3 && f[1] == "replay"
	}
	n, ok := arity[f[0]]
	if !ok || len(f) != n {
		return false
	}
	if at, has := map[string]int{"reg": 5, "resource": 3, "inject": 10}[f[0]]; has {
		_, ok = parseSeed(f[at])
	}
	return ok
}

func runCase(t *testing.T, cfg []string, ops [][]string) []string {
	out := make([]string, len(ops))
	synctest.Test(t, func(t *testing.T) {
		w := &world{doCancel: map[string]context.CancelFunc{}, regs: map[string]wmsg{}, waiters: map[string]chan wmsg{}, observed: map[string]bool{}, tokens: &tokenSource{}}
		savedReader := crand.Reader
		crand.Reader = w.tokens
		defer func() { crand.Reader = savedReader }()
		var connCancel context.CancelFunc
		w.connCtx, connCancel = context.WithCancel(context.Background())
		w.cancels = append(w.cancels, connCancel)
		w.a = newEndpoint(w, "A", atoi(cfg[1]), uint32(atoi(cfg[2])), time.Duration(atoi(cfg[3]))*time.Millisecond)
		w.b = newEndpoint(w, "B", atoi(cfg[4]), uint32(atoi(cfg[5])), time.Duration(atoi(cfg[6]))*time.Millisecond)
		ended := false
		for i, f := range ops {
			if ended || !wellFormed(f) {
				out[i] = "bad-op"
				continue
			}
			func() {
				defer func() {
					if r := recover(); r != nil {
						out[i] = fmt.Sprintf("panic %v", r)
					}
				}()
				ended = w.apply(f)
			}()
			synctest.Wait()
			if out[i] == "" {
				out[i] = w.take()
			} else {
				w.take()
			}
		}
		if !ended {
			// let pending calls end by their deadlines before the bubble is left
			time.Sleep(3600 * time.Second)
			synctest.Wait()
		}
		for _, c := range w.cancels {
			c()
		}
		synctest.Wait()
	})
	return out
}

func TestC04(t *testing.T) {
	var cfg []string
	var ops [][]string
	flush := func(w *bufio.Writer) {
		if cfg == nil {
			return
		}
		fmt.Fprintln(w, "ok")
		for _, l := range runCase(t, cfg, ops) {
			fmt.Fprintln(w, l)
		}
		cfg, ops = nil, nil
	}
	err := lp.FileLoop(func(f []string, w *bufio.Writer) {
		switch {
		case len(f) == 7 && f[0] == "cfg":
			flush(w)
			cfg = f
		case cfg != nil:
			ops = append(ops, f)
			if len(f) == 1 && f[0] == "end" {
				flush(w)
			}
		default:
			fmt.Fprintln(w, "bad-op")
		}
	})
	if err != nil {
		t.Fatal(err)
	}
	// a trailing case without `end`
	if cfg != nil {
		t.Fatal("input does not end with `end`")
	}
}
