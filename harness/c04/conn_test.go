// End-to-end part of the C04 harness (thorough tier): real udp and tcp client.Conn pairs (in-memory transports,
// synctest bubble) move bodies with Post / Get; the outcome is judged directly: what the peer's handler received and
// what the call returned must be exactly what was supplied, exactly once — or the call ends with an error.
// Output lines (file $VERIF_OUT): `conn <udp|tcp> <szxA> <szxB> <method> <qlen> <rlen> <drop> result=<ok|err|violates-…>`.
package c04

import (
	"bufio"
	"bytes"
	"context"
	"fmt"
	"io"
	"math/rand"
	"net"
	"os"
	"strconv"
	"strings"
	"sync"
	"sync/atomic"
	"testing"
	"testing/synctest"
	"time"

	"github.com/plgd-dev/go-coap/v3/message"
	"github.com/plgd-dev/go-coap/v3/message/codes"
	"github.com/plgd-dev/go-coap/v3/message/pool"
	"github.com/plgd-dev/go-coap/v3/net/blockwise"
	"github.com/plgd-dev/go-coap/v3/net/responsewriter"
	"github.com/plgd-dev/go-coap/v3/tcp"
	tcpclient "github.com/plgd-dev/go-coap/v3/tcp/client"
	tcpcoder "github.com/plgd-dev/go-coap/v3/tcp/coder"
	udpclient "github.com/plgd-dev/go-coap/v3/udp/client"
	"verifharness/internal/mem"
)

type seen struct {
	code int
	n    int
	h    uint64
}

type applog struct {
	mu   sync.Mutex
	reqs []seen
}

// answer implements the peer's application: the path tells what to answer with.
func answer(lg *applog, code codes.Code, path string, body []byte, set func(code codes.Code, body []byte)) {
	lg.mu.Lock()
	lg.reqs = append(lg.reqs, seen{int(code), len(body), fnv(body)})
	lg.mu.Unlock()
	f := strings.Split(strings.Trim(path, "/"), "/")
	if len(f) != 3 {
		set(codes.BadRequest, nil)
		return
	}
	rlen, _ := strconv.Atoi(f[1])
	rseed, _ := strconv.Atoi(f[2])
	rc := codes.Changed
	if code == codes.GET {
		rc = codes.Content
	}
	set(rc, genBody(rseed, 0, rlen))
}

type tcpOpt func(cfg *tcpclient.Config)

func (o tcpOpt) TCPClientApply(cfg *tcpclient.Config) { o(cfg) }

type pair struct {
	closed  func() bool // the caller's connection has ended (tcp)
	overrun func() bool // the relay has carried more frames than any exchange of these sizes can need and has cut the connection
	post  func(ctx context.Context, path string, body []byte) (*pool.Message, error)
	write func(ctx context.Context, path string, body []byte, nr byte) error // one-way write of a POST with No-Response = nr (0: without)
	get   func(ctx context.Context, path string) (*pool.Message, error)
	close func()
}

func udpPair(szxA, szxB int, lg *applog, drop int) pair {
	var a, b *udpclient.Conn
	var sa, sb *mem.UDPSession
	type dg struct {
		to   *udpclient.Conn
		data []byte
	}
	ch := make(chan dg, 1024)
	done := make(chan struct{})
	n := 0
	go func() {
		for {
			select {
			case d := <-ch:
				n++
				if n == drop {
					continue
				}
				_ = d.to.Process(nil, d.data)
			case <-done:
				return
			}
		}
	}()
	a, sa = mem.NewUDPConn(mem.UDPOpts{Blockwise: true, BlockwiseSZX: blockwise.SZX(szxA), BlockwiseTimeout: 5 * time.Second})
	b, sb = mem.NewUDPConn(mem.UDPOpts{Blockwise: true, BlockwiseSZX: blockwise.SZX(szxB), BlockwiseTimeout: 5 * time.Second,
		Mutate: func(cfg *udpclient.Config) {
			cfg.Handler = func(w *responsewriter.ResponseWriter[*udpclient.Conn], r *pool.Message) {
				p, _ := r.Path()
				body := readBody(r)
				answer(lg, r.Code(), p, body, func(code codes.Code, rb []byte) {
					var rd io.ReadSeeker
					if len(rb) > 0 {
						rd = bytes.NewReader(rb)
					}
					_ = w.SetResponse(code, message.TextPlain, rd)
				})
			}
		}})
	// what udp.Client's periodic runner does: retransmissions and cache expiry
	go func() {
		for {
			select {
			case <-done:
				return
			case <-time.After(100 * time.Millisecond):
				now := time.Now()
				a.CheckExpirations(now)
				b.CheckExpirations(now)
			}
		}
	}()
	sa.OnWrite = func(data []byte) { ch <- dg{b, data} }
	sb.OnWrite = func(data []byte) { ch <- dg{a, data} }
	return pair{
		post: func(ctx context.Context, path string, body []byte) (*pool.Message, error) {
			return a.Post(ctx, path, message.TextPlain, bytes.NewReader(body))
		},
		write: func(ctx context.Context, path string, body []byte, nr byte) error {
			var opts []message.Option
			if nr != 0 {
				opts = append(opts, message.Option{ID: message.NoResponse, Value: []byte{nr}})
			}
			req, err := a.NewPostRequest(ctx, path, message.TextPlain, bytes.NewReader(body), opts...)
			if err != nil {
				return err
			}
			defer a.ReleaseMessage(req)
			return a.WriteMessage(req)
		},
		get:   func(ctx context.Context, path string) (*pool.Message, error) { return a.Get(ctx, path) },
		close: func() { _ = a.Close(); _ = b.Close(); close(done) },
	}
}

// csmFrame is a Capabilities and Settings Message (RFC 8323 section 5.3): Block-Wise-Transfer and / or Max-Message-Size
// (mms = 0: the option is not carried — "not announced", the base value 1152 then applies).
func csmFrame(bwt bool, mms uint32) []byte {
	m := pool.NewMessage(context.Background())
	m.SetCode(codes.CSM)
	m.SetToken(message.Token{1})
	if mms != 0 {
		m.SetOptionUint32(message.TCPMaxMessageSize, mms)
	}
	if bwt {
		m.AddOptionBytes(message.TCPBlockWiseTransfer, []byte{})
	}
	b, err := m.MarshalWithEncoder(tcpcoder.DefaultCoder)
	if err != nil {
		panic(err)
	}
	return append([]byte(nil), b...)
}

func csmBlockwise() []byte { return csmFrame(true, 0) }

// csmHello: what the relay tells a side about its peer before anything else (this library's own CSM carries no option at
// all, so a peer that announces capabilities is always a scripted one).  form: "bwt" — Block-Wise-Transfer only, no
// Max-Message-Size; "bwt+mms" — both in one CSM; "bwt,mms" / "mms,bwt" — two CSMs in that order.  mms is the peer's real limit.
func csmHello(form string, mms uint32) [][]byte {
	switch form {
	case "bwt+mms":
		return [][]byte{csmFrame(true, mms)}
	case "bwt,mms":
		return [][]byte{csmFrame(true, 0), csmFrame(false, mms)}
	case "mms,bwt":
		return [][]byte{csmFrame(false, mms), csmFrame(true, 0)}
	}
	return [][]byte{csmFrame(true, 0)}
}

func tcpPair(szxA, szxB int, maxA, maxB uint32, lg *applog) (pair, error) {
	return tcpPairCSM(szxA, szxB, maxA, maxB, "bwt", "bwt", 0, lg)
}

// tcpPairCSM: as tcpPair; helloA is the form of the CSM(s) that A receives about B (and helloB vice versa); budget > 0
// bounds the number of frames the relay carries: one more and it cuts both connections and reports `overrun` — an exchange
// that is still exchanging frames then is not going to end ("never by hanging": under the virtual clock a ping-pong of
// frames that makes no progress never lets a deadline pass).
func tcpPairCSM(szxA, szxB int, maxA, maxB uint32, helloA, helloB string, budget int, lg *applog) (pair, error) {
	a1, a2 := net.Pipe()
	b1, b2 := net.Pipe()
	// relay: what A writes goes to B and vice versa; each side first gets a CSM announcing block-wise transfer
	var frames atomic.Int64
	var overrun atomic.Bool
	pump := func(src, dst net.Conn, hello [][]byte) {
		// net.Pipe writes are atomic per call and every message is one write, so the extra frames cannot split another
		go func() {
			for _, h := range hello {
				if _, err := dst.Write(h); err != nil {
					return
				}
			}
		}()
		buf := make([]byte, 65536)
		for {
			n, err := src.Read(buf)
			if n > 0 {
				if budget > 0 && frames.Add(1) > int64(budget) {
					overrun.Store(true)
					_ = a2.Close()
					_ = b2.Close()
					return
				}
				if _, werr := dst.Write(buf[:n]); werr != nil {
					return
				}
			}
			if err != nil {
				_ = dst.Close()
				return
			}
		}
	}
	go pump(a2, b2, csmHello(helloB, maxA)) // B is told about A
	go pump(b2, a2, csmHello(helloA, maxB)) // A is told about B
	mk := func(c net.Conn, szx int, max uint32, handler bool) (*tcpclient.Conn, error) {
		return tcp.Client(c, tcpOpt(func(cfg *tcpclient.Config) {
			cfg.MessagePool = pool.New(64, 2048)
			cfg.Errors = func(error) {}
			cfg.PeriodicRunner = func(func(now time.Time) bool) {}
			cfg.CloseSocket = true
			cfg.BlockwiseEnable = true
			cfg.BlockwiseSZX = blockwise.SZX(szx)
			cfg.BlockwiseTransferTimeout = 5 * time.Second
			cfg.MaxMessageSize = max
			cfg.CSMExchangeTimeout = 0
			if handler {
				cfg.Handler = func(w *responsewriter.ResponseWriter[*tcpclient.Conn], r *pool.Message) {
					p, _ := r.Path()
					body := readBody(r)
					answer(lg, r.Code(), p, body, func(code codes.Code, rb []byte) {
						var rd io.ReadSeeker
						if len(rb) > 0 {
							rd = bytes.NewReader(rb)
						}
						_ = w.SetResponse(code, message.TextPlain, rd)
					})
				}
			}
		}))
	}
	a, err := mk(a1, szxA, maxA, false)
	if err != nil {
		return pair{}, err
	}
	b, err := mk(b1, szxB, maxB, true)
	if err != nil {
		_ = a.Close()
		return pair{}, err
	}
	return pair{
		overrun: overrun.Load,
		closed:  func() bool { return a.Context().Err() != nil },
		post: func(ctx context.Context, path string, body []byte) (*pool.Message, error) {
			return a.Post(ctx, path, message.TextPlain, bytes.NewReader(body))
		},
		write: func(ctx context.Context, path string, body []byte, nr byte) error {
			var opts []message.Option
			if nr != 0 {
				opts = append(opts, message.Option{ID: message.NoResponse, Value: []byte{nr}})
			}
			req, err := a.NewPostRequest(ctx, path, message.TextPlain, bytes.NewReader(body), opts...)
			if err != nil {
				return err
			}
			defer a.ReleaseMessage(req)
			return a.WriteMessage(req)
		},
		get: func(ctx context.Context, path string) (*pool.Message, error) { return a.Get(ctx, path) },
		close: func() {
			_ = a.Close()
			_ = b.Close()
			_ = a2.Close()
			_ = b2.Close()
		},
	}, nil
}

type connCase struct {
	transport  string
	szxA, szxB int
	maxA, maxB uint32
	method     string
	qlen, rlen int
	drop       int
	nr         byte // method "write": value of the No-Response option of the request (0: none)
	// tcp: the form of the CSM(s) each side receives about its peer ("" = "bwt": Block-Wise-Transfer, no Max-Message-Size)
	helloA, helloB string
}

// frameBudget: generous bound on the frames a fault-free exchange of these sizes needs over a stream: one request and one
// response frame per block of the smaller size, both bodies, negotiation retries, the CSMs — times three.
func frameBudget(c connCase) int {
	unit := func(szx int) int {
		if szx >= 7 {
			return 1024
		}
		return 16 << szx
	}
	m := unit(c.szxA)
	if unit(c.szxB) < m {
		m = unit(c.szxB)
	}
	return 3*(2*(c.qlen/m+c.rlen/m+4)+8) + 16
}

func runConnCase(t *testing.T, c connCase, seed int) string {
	result := "err"
	synctest.Test(t, func(t *testing.T) {
		lg := &applog{}
		var p pair
		if c.transport == "udp" {
			p = udpPair(c.szxA, c.szxB, lg, c.drop)
		} else {
			var err error
			p, err = tcpPairCSM(c.szxA, c.szxB, c.maxA, c.maxB, c.helloA, c.helloB, frameBudget(c), lg)
			if err != nil {
				result = "err-setup"
				return
			}
		}
		synctest.Wait()
		ctx, cancel := context.WithTimeout(context.Background(), 60*time.Second)
		qbody := genBody(seed, 0, c.qlen)
		rseed := seed + 17
		path := fmt.Sprintf("/c04/%d/%d", c.rlen, rseed)
		var resp *pool.Message
		var err error
		done := make(chan struct{})
		go func() {
			defer close(done)
			defer func() {
				if r := recover(); r != nil {
					err = fmt.Errorf("panic %v", r)
					result = "violates-panic"
				}
			}()
			if c.method == "get" {
				resp, err = p.get(ctx, path)
			} else if c.method == "write" {
				err = p.write(ctx, path, qbody, c.nr)
				time.Sleep(30 * time.Second) // the remaining blocks follow the peer's 2.31s
			} else {
				resp, err = p.post(ctx, path, qbody)
			}
		}()
		<-done
		cancel()
		if p.overrun != nil && p.overrun() && result != "violates-panic" {
			// fault-free stream, and after far more frames than the bodies have blocks the exchange was still going on
			result = fmt.Sprintf("violates-hang-the-exchange-has-not-ended-after-%d-frames-(%d+%d-bytes-to-move)", frameBudget(c), c.qlen, c.rlen)
		} else if result != "violates-panic" {
			lg.mu.Lock()
			reqs := append([]seen(nil), lg.reqs...)
			lg.mu.Unlock()
			want := seen{int(codes.POST), c.qlen, fnv(qbody)}
			if c.method == "get" {
				want = seen{int(codes.GET), 0, fnv(nil)}
			}
			// every request the application saw must be the supplied one (a GET may be seen again for later blocks
			// when the server keeps no state; a POST must be seen at most once)
			for _, s := range reqs {
				if s != want {
					result = fmt.Sprintf("violates-handler-got-%d-bytes-of-%d", s.n, c.qlen)
				}
			}
			if c.method != "get" && len(reqs) > 1 && !strings.HasPrefix(result, "violates") {
				result = fmt.Sprintf("violates-handler-called-%d-times", len(reqs))
			}
			if c.method == "write" {
				switch {
				case strings.HasPrefix(result, "violates"):
				case err != nil:
					result = "err"
				case len(reqs) == 0 && p.closed != nil && p.closed():
					// the peer refused a block and ended the connection: the only way a one-way exchange can end with an
					// error after WriteMessage has returned — the application sees its connection go
					result = "err-connection-ended"
				case len(reqs) == 0:
					result = "violates-one-way-write-returned-nil-without-any-fault-but-the-body-never-reached-the-peer's-application"
				default:
					result = "ok"
				}
			} else if err == nil && !strings.HasPrefix(result, "violates") {
				body := readBody(resp)
				exp := genBody(rseed, 0, c.rlen)
				switch {
				case resp.Code() == codes.RequestEntityIncomplete || resp.Code() == codes.Continue:
					result = "err" // the layer's own signal: the exchange did not complete
				case !bytes.Equal(body, exp):
					result = fmt.Sprintf("violates-response-%d-bytes-of-%d", len(body), c.rlen)
				case len(reqs) != 1 && c.method != "get":
					result = "violates-response-without-request"
				default:
					result = "ok"
				}
			}
		}
		p.close()
		synctest.Wait()
	})
	return result
}

func TestC04Conn(t *testing.T) {
	outp := os.Getenv("VERIF_OUT")
	if outp == "" {
		t.Skip("VERIF_OUT not set")
	}
	seed, _ := strconv.Atoi(os.Getenv("VERIF_SEED"))
	rng := rand.New(rand.NewSource(int64(seed)))
	f, err := os.Create(outp)
	if err != nil {
		t.Fatal(err)
	}
	defer f.Close()
	w := bufio.NewWriter(f)
	defer w.Flush()
	size := func(szx int) int {
		if szx == 7 {
			return 1024
		}
		return 16 << szx
	}
	var cases []connCase
	for _, tr := range []string{"udp", "tcp"} {
		top := 6
		if tr == "tcp" {
			top = 7
		}
		for sa := 0; sa <= top; sa++ {
			for sb := 0; sb <= top; sb++ {
				if (sa+sb)%2 == 1 && rng.Intn(3) > 0 {
					continue
				}
				m := size(sa)
				if size(sb) < m {
					m = size(sb)
				}
				maxA, maxB := uint32(1152+rng.Intn(2)*1024), uint32(1152+rng.Intn(2)*1024)
				lens := []int{m - 1, m, m + 1, 2*m + 1, 3 * m}
				for _, method := range []string{"post", "get", "both"} {
					ln := lens[rng.Intn(len(lens))]
					if ln > 5000 {
						ln = 2*1024 + 1
					}
					c := connCase{transport: tr, szxA: sa, szxB: sb, maxA: maxA, maxB: maxB}
					switch method {
					case "post":
						c.method, c.qlen, c.rlen = "post", ln, 3
					case "get":
						c.method, c.qlen, c.rlen = "get", 0, ln
					default:
						c.method, c.qlen, c.rlen = "post", ln, ln+7
					}
					if tr == "udp" && rng.Intn(4) == 0 {
						c.drop = 1 + rng.Intn(6)
					}
					cases = append(cases, c)
				}
			}
		}
	}
	for i, c := range cases {
		res := runConnCase(t, c, seed*1000+i)
		fmt.Fprintf(w, "conn %s %d %d %s %d %d %d result=%s\n", c.transport, c.szxA, c.szxB, c.method, c.qlen, c.rlen, c.drop, res)
	}
}

// TestC04Csm (quick and thorough): block-wise over a stream is only entered towards a peer whose CSM announces
// Block-Wise-Transfer, and how large a BERT block may be depends on Max-Message-Size — which such a peer may announce in the
// same CSM, in another one, or NOT AT ALL (RFC 8323 section 5.3.1: the base value 1152 then applies).  Every form of the
// announcement x own / peer limits (equal, peer smaller, peer larger) x SZX 0..6 and BERT x download / upload / both /
// one-way write, fault-free, through the counting relay: the transfer completes with the exact body, or fails — within the
// frame budget (`hang`).  Output lines `csm <helloA> <helloB> <szxA> <szxB> <maxA> <maxB> <method> <qlen> <rlen> result=…`.
func TestC04Csm(t *testing.T) {
	outp := os.Getenv("VERIF_OUT")
	if outp == "" {
		t.Skip("VERIF_OUT not set")
	}
	seed, _ := strconv.Atoi(os.Getenv("VERIF_SEED"))
	only := os.Getenv("VERIF_SCENARIO")
	f, err := os.Create(outp)
	if err != nil {
		t.Fatal(err)
	}
	defer f.Close()
	w := bufio.NewWriter(f)
	defer w.Flush()
	unit := func(szx int, max uint32) int {
		if szx == 7 {
			return int(max/1024) * 1024
		}
		return 16 << szx
	}
	type sp struct{ a, b int }
	pairs := []sp{}
	for s := 0; s <= 7; s++ {
		pairs = append(pairs, sp{s, s})
	}
	pairs = append(pairs, sp{7, 6}, sp{6, 7}, sp{7, 2}, sp{3, 7})
	limits := [][2]uint32{{1152, 1152}, {2304, 1152}, {1152, 2304}, {3500, 3500}}
	forms := []string{"bwt", "bwt+mms", "bwt,mms", "mms,bwt"}
	i := 0
	for _, pr := range pairs {
		for _, lim := range limits {
			for _, form := range forms {
				for _, method := range []string{"get", "post", "both", "write"} {
					i++
					ua, ub := unit(pr.a, lim[0]), unit(pr.b, lim[1])
					c := connCase{transport: "tcp", szxA: pr.a, szxB: pr.b, maxA: lim[0], maxB: lim[1], helloA: form, helloB: form}
					up := []int{2*ua + 1, 3 * ua, ua + 1}[i%3]
					down := []int{2*ub + 1, 3 * ub, ub + 1}[i%3]
					switch method {
					case "get":
						c.method, c.rlen = "get", down
					case "post":
						c.method, c.qlen, c.rlen = "post", up, 3
					case "both":
						c.method, c.qlen, c.rlen = "post", up, down+7
					default:
						c.method, c.qlen = "write", up
					}
					name := fmt.Sprintf("%s %s %d %d %d %d %s %d %d", c.helloA, c.helloB, c.szxA, c.szxB, c.maxA, c.maxB, c.method, c.qlen, c.rlen)
					if only != "" && name != only {
						continue
					}
					res := runConnCase(t, c, seed*1000+i)
					fmt.Fprintf(w, "csm %s result=%s\n", name, res)
				}
			}
		}
	}
}

// TestC04Long: transfers whose block numbers cross 4095 -> 4096 (the Block option value then needs three bytes on the
// wire) between two real connections, i.e. through the real codecs: 4100 blocks of 16 bytes up, down and both ways, over
// the in-memory UDP and TCP transports, without faults.  Same judge as TestC04Conn.  Output lines `long <transport> …`.
func TestC04Long(t *testing.T) {
	outp := os.Getenv("VERIF_OUT")
	if outp == "" {
		t.Skip("VERIF_OUT not set")
	}
	seed, _ := strconv.Atoi(os.Getenv("VERIF_SEED"))
	f, err := os.Create(outp)
	if err != nil {
		t.Fatal(err)
	}
	defer f.Close()
	w := bufio.NewWriter(f)
	defer w.Flush()
	only := os.Getenv("VERIF_SCENARIO")
	const n = 4100*16 + 5
	cases := []connCase{
		{transport: "udp", method: "post", qlen: n, rlen: 3},
		{transport: "udp", method: "get", qlen: 0, rlen: n},
		{transport: "tcp", maxA: 1152, maxB: 1152, method: "post", qlen: n, rlen: n - 16},
		{transport: "tcp", maxA: 1152, maxB: 1152, method: "get", qlen: 0, rlen: n},
	}
	// one-way writes of three blocks, without and with a No-Response option (RFC 7967): the layer's own 2.31 must flow
	for _, tr := range []string{"udp", "tcp"} {
		for _, nr := range []byte{0, 2, 8, 16, 26} {
			cases = append(cases, connCase{transport: tr, maxA: 1152, maxB: 1152, method: "write", qlen: 2*16 + 5, rlen: int(nr), nr: nr})
		}
	}
	for i, c := range cases {
		name := fmt.Sprintf("%s %s %d %d", c.transport, c.method, c.qlen, c.rlen)
		if only != "" && name != only {
			continue
		}
		res := runConnCase(t, c, seed*10+i)
		fmt.Fprintf(w, "long %s result=%s\n", name, res)
	}
}
