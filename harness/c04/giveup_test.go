// A call that is given up in the middle of an upload, and the application's very next use of what it had handed to the
// call (C04: "a block-wise exchange that completes hands the receiving application exactly the bytes the sending
// application supplied").
//
// The application uploads a body block-wise through BlockWise.Do (POST, Block1).  Blocks 0..at go to the peer and are
// acknowledged; the 2.31 Continue for block `at` is handled by a goroutine of its own — as the goroutine that reads the
// connection does — and that goroutine has arrived at reading the next block from the request's body (the body is the
// application's io.ReadSeeker: a Read may take as long as it likes) when the application gives the call up: it cancels the
// call's context (`cancel`) or the context's deadline passes (`deadline`).  As soon as Do has returned the application
// retries, the usual way: `payload := bytes.NewReader(data); Post(ctx1, …, payload); on error Post(ctx2, …, payload)` —
// a fresh request with a fresh token over the SAME reader (`reader`), or the same request message given a fresh token
// (`message`).  The retry runs to completion against the peer's real layer, without any fault.
//
// What Do promises (and the unchanged code keeps by removing its entry under the table's write lock, which the
// continuation's look-at-the-request holds for reading): when Do has returned, nobody inside the layer looks at the
// request or its body any more.  The harness does not assume it: if Do returns while the continuation is still inside its
// Read, that Read is let go when the retry has made its k-th access to the body (k = 0..12: every position relative to the
// retry's own Seek / Read pairs of its first blocks); if Do does not return within a grace period (it waits for the
// continuation), the Read is let go and Do returns then.  Nothing is ever judged but the outcome:
//   * the retry — an exchange that completed (2.04) — must have handed the peer's application exactly the supplied bytes, once;
//   * whatever the abandoned upload handed the peer's application (nothing, normally) must be the supplied bytes too.
// Real time (a goroutine blocked on a sync.RWMutex is not durably blocked for testing/synctest), all scenarios in parallel.
// Output: `giveup <how> <reuse> <nblk> <at> <k> result=<ok…|err-…|violates-…>` in $VERIF_OUT.
package c04

import (
	"bufio"
	"bytes"
	"context"
	"fmt"
	"io"
	"os"
	"strconv"
	"strings"
	"sync"
	"testing"
	"time"

	"github.com/plgd-dev/go-coap/v3/message"
	"github.com/plgd-dev/go-coap/v3/message/codes"
	"github.com/plgd-dev/go-coap/v3/message/pool"
	"github.com/plgd-dev/go-coap/v3/net/blockwise"
	"github.com/plgd-dev/go-coap/v3/net/responsewriter"
)

// sharedBody is the application's body: an ordinary ReadSeeker over a byte slice.  Once armed, the next Read stops before it
// touches the reader (`inRead` is closed) and goes on when it is let go — by `letGo`, or, after `ownerBack(k)`, by the k-th
// later access of anybody else, which then waits until the stopped Read has finished before it does its own work (so the two
// never touch the reader at the same instant: the schedule is a sequential one).
type sharedBody struct {
	io sync.Mutex // the reader itself
	r  *bytes.Reader

	mu        sync.Mutex
	armed     bool
	fired     bool
	counting  bool
	countdown int
	gone      bool
	inRead    chan struct{}
	resume    chan struct{}
	staleDone chan struct{}
	staleAt   int64 // position the stopped Read found when it went on
	staleN    int
}

func newSharedBody(data []byte) *sharedBody {
	return &sharedBody{r: bytes.NewReader(data), inRead: make(chan struct{}), resume: make(chan struct{}), staleDone: make(chan struct{}), staleAt: -1}
}

func (b *sharedBody) arm() {
	b.mu.Lock()
	b.armed = true
	b.mu.Unlock()
}

func (b *sharedBody) letGo() {
	b.mu.Lock()
	if !b.gone {
		b.gone = true
		close(b.resume)
	}
	b.mu.Unlock()
}

func (b *sharedBody) ownerBack(k int) {
	b.mu.Lock()
	b.counting, b.countdown = true, k
	b.mu.Unlock()
}

// foreign: an access by somebody who is not the stopped Read
func (b *sharedBody) foreign() {
	b.mu.Lock()
	if !b.counting || b.gone {
		b.mu.Unlock()
		return
	}
	if b.countdown > 0 {
		b.countdown--
		b.mu.Unlock()
		return
	}
	b.gone = true
	close(b.resume)
	b.mu.Unlock()
	select {
	case <-b.staleDone:
	case <-time.After(5 * time.Second):
	}
}

func (b *sharedBody) Seek(off int64, whence int) (int64, error) {
	b.foreign()
	b.io.Lock()
	defer b.io.Unlock()
	return b.r.Seek(off, whence)
}

func (b *sharedBody) Read(p []byte) (int, error) {
	b.mu.Lock()
	if b.armed && !b.fired {
		b.fired = true
		b.mu.Unlock()
		close(b.inRead)
		select {
		case <-b.resume:
		case <-time.After(10 * time.Second):
		}
		b.io.Lock()
		pos, _ := b.r.Seek(0, io.SeekCurrent)
		n, err := b.r.Read(p)
		b.io.Unlock()
		b.mu.Lock()
		b.staleAt, b.staleN = pos, n
		b.mu.Unlock()
		close(b.staleDone)
		return n, err
	}
	b.mu.Unlock()
	b.foreign()
	b.io.Lock()
	defer b.io.Unlock()
	return b.r.Read(p)
}

type giveUpScenario struct {
	how   string // cancel | deadline
	reuse string // reader | message
	nblk  int
	at    int // the continuation that acknowledges block `at` is the one that is being handled when the call is given up
	k     int // if Do returns although that continuation is still reading: its Read goes on at the retry's k-th access to the body
}

func (s giveUpScenario) String() string {
	return fmt.Sprintf("%s %s %d %d %d", s.how, s.reuse, s.nblk, s.at, s.k)
}

func firstDiff(a, b []byte) int {
	n := len(a)
	if len(b) < n {
		n = len(b)
	}
	for i := 0; i < n; i++ {
		if a[i] != b[i] {
			return i
		}
	}
	return n
}

func runGiveUpScenario(sc giveUpScenario, seed int) string {
	const u = 16
	const grace = 60 * time.Millisecond
	data := genBody(seed, 0, (sc.nblk-1)*u+7)
	a := &endpoint{name: "A", p: pool.New(64, 2048), szx: blockwise.SZX16, max: 1152}
	a.bw = blockwise.New(a, time.Minute, func(error) {}, nil)
	b := &endpoint{name: "B", p: pool.New(64, 2048), szx: blockwise.SZX16, max: 1152}
	b.bw = blockwise.New(b, time.Minute, func(error) {}, nil)
	tok1 := message.Token{0x61, byte(seed), 0x01}
	tok2 := message.Token{0x61, byte(seed), 0x02}

	var mu sync.Mutex
	got := map[string][][]byte{}
	panicked := ""
	guardPanic := func() {
		if r := recover(); r != nil {
			mu.Lock()
			panicked = strings.ReplaceAll(fmt.Sprint(r), " ", "_")
			mu.Unlock()
		}
	}
	app := func(w *responsewriter.ResponseWriter[*endpoint], r *pool.Message) {
		body := append([]byte(nil), readBody(r)...)
		mu.Lock()
		got[string(r.Token())] = append(got[string(r.Token())], body)
		mu.Unlock()
		_ = w.SetResponse(codes.Changed, message.TextPlain, nil)
	}
	// one message to the peer's layer, its answer back
	toB := func(m *pool.Message) *pool.Message {
		resp := b.p.AcquireMessage(context.Background())
		resp.SetToken(m.Token())
		w := responsewriter.New(resp, b, m.Options()...)
		b.bw.Handle(w, m, b.szx, b.max, app)
		return w.Message()
	}
	// one message from the peer to the caller's layer: what the layer wants sent next, and what it hands on
	toA := func(m *pool.Message) (next *pool.Message, handed *pool.Message) {
		resp := a.p.AcquireMessage(context.Background())
		resp.SetToken(m.Token())
		w := responsewriter.New(resp, a, m.Options()...)
		a.bw.Handle(w, m, a.szx, a.max, func(_ *responsewriter.ResponseWriter[*endpoint], r *pool.Message) { handed = r })
		if w.Message() == resp {
			// the layer has nothing to send (a connection writes the response writer's message only when somebody set it)
			return nil, handed
		}
		return w.Message(), handed
	}

	body := newSharedBody(data)
	var ctx1 context.Context
	var cancel1 context.CancelFunc
	if sc.how == "deadline" {
		ctx1, cancel1 = context.WithTimeout(context.Background(), 150*time.Millisecond)
	} else {
		ctx1, cancel1 = context.WithCancel(context.Background())
	}
	defer cancel1()
	r1 := a.p.AcquireMessage(ctx1)
	r1.SetCode(codes.POST)
	r1.SetToken(tok1)
	_ = r1.SetPath("/c04/giveup")
	r1.SetContentFormat(message.AppOctets)
	r1.SetBody(body)

	// ---- the upload that is given up
	staleReturned := make(chan struct{})
	givenUp := make(chan struct{})
	reached := true
	doDone := make(chan error, 1)
	go func() {
		defer guardPanic()
		_, err := a.bw.Do(r1, a.szx, a.max, func(req *pool.Message) (*pool.Message, error) {
			defer close(givenUp)
			cur := req
			for j := 0; j < sc.at; j++ {
				ack := toB(cur)
				cur, _ = toA(ack)
				if cur == nil {
					reached = false
					return nil, io.ErrNoProgress
				}
			}
			ack := toB(cur)
			body.arm()
			go func() {
				defer close(staleReturned)
				defer guardPanic()
				toA(ack)
			}()
			select {
			case <-body.inRead:
			case <-time.After(3 * time.Second):
				reached = false
				return nil, io.ErrNoProgress
			}
			if sc.how == "cancel" {
				cancel1()
			}
			<-ctx1.Done()
			return nil, ctx1.Err()
		})
		doDone <- err
	}()
	early := false
	var err1 error
	select {
	case <-givenUp:
	case <-time.After(5 * time.Second):
	}
	select {
	case err1 = <-doDone:
		// Do has returned: the request and its body are the application's again
		select {
		case <-staleReturned:
		default:
			if reached {
				early = true
				body.ownerBack(sc.k)
			}
		}
	case <-time.After(grace):
		// Do waits for the continuation to finish with the request
		body.letGo()
		select {
		case err1 = <-doDone:
		case <-time.After(5 * time.Second):
			body.letGo()
			return "violates-hang-Do-has-not-returned-5s-after-its-context-ended"
		}
	}
	if !reached {
		body.letGo()
		return "err-the-continuation-never-read-the-body"
	}
	if err1 == nil {
		body.letGo()
		return "err-the-abandoned-call-returned-no-error"
	}

	// ---- the retry
	ctx2, cancel2 := context.WithTimeout(context.Background(), 20*time.Second)
	defer cancel2()
	var r2 *pool.Message
	if sc.reuse == "message" {
		r2 = r1
		r2.SetContext(ctx2)
		r2.SetToken(tok2)
	} else {
		r2 = a.p.AcquireMessage(ctx2)
		r2.SetCode(codes.POST)
		r2.SetToken(tok2)
		_ = r2.SetPath("/c04/giveup")
		r2.SetContentFormat(message.AppOctets)
		r2.SetBody(body)
	}
	var code codes.Code
	var err2 error
	func() {
		defer guardPanic()
		_, err2 = a.bw.Do(r2, a.szx, a.max, func(req *pool.Message) (*pool.Message, error) {
			cur := req
			for i := 0; i < 4*sc.nblk+8; i++ {
				ack := toB(cur)
				next, handed := toA(ack)
				if handed != nil {
					code = handed.Code()
					return handed, nil
				}
				if next == nil {
					return nil, io.ErrNoProgress
				}
				cur = next
			}
			return nil, io.ErrNoProgress
		})
	}()
	body.letGo()
	select {
	case <-staleReturned:
	case <-time.After(5 * time.Second):
	}

	mu.Lock()
	defer mu.Unlock()
	if panicked != "" {
		return "violates-panic-" + panicked
	}
	for _, bs := range got[string(tok1)] {
		if !bytes.Equal(bs, data) {
			return fmt.Sprintf("violates-abandoned-upload-handed-the-receiver-%d-bytes-first-difference-at-offset-%d-of-%d-supplied", len(bs), firstDiff(bs, data), len(data))
		}
	}
	note := ""
	if early {
		body.mu.Lock()
		note = fmt.Sprintf("-Do-returned-while-the-layer-was-reading-the-body-(that-read-took-%d-bytes-at-offset-%d)", body.staleN, body.staleAt)
		body.mu.Unlock()
	}
	bs := got[string(tok2)]
	if err2 != nil || code != codes.Changed {
		if len(bs) > 0 {
			return fmt.Sprintf("violates-retry-failed-but-the-receiver-was-handed-%d-bodies%s", len(bs), note)
		}
		return "err-retry-did-not-complete" + note
	}
	if len(bs) != 1 {
		return fmt.Sprintf("violates-retry-completed-2.04-and-the-receiver-was-handed-%d-bodies%s", len(bs), note)
	}
	if !bytes.Equal(bs[0], data) {
		return fmt.Sprintf("violates-retry-completed-2.04-and-the-receiver-was-handed-%d-bytes-first-difference-at-offset-%d-of-%d-supplied%s",
			len(bs[0]), firstDiff(bs[0], data), len(data), note)
	}
	return "ok" + note
}

func giveUpScenarios() []giveUpScenario {
	var out []giveUpScenario
	for _, how := range []string{"cancel", "deadline"} {
		for _, reuse := range []string{"reader", "message"} {
			for _, nblk := range []int{3, 4} {
				for _, at := range []int{0, nblk - 2} {
					for k := 0; k <= 12; k++ {
						out = append(out, giveUpScenario{how, reuse, nblk, at, k})
					}
				}
			}
		}
	}
	return out
}

func TestC04GiveUp(t *testing.T) {
	outp := os.Getenv("VERIF_OUT")
	if outp == "" {
		t.Skip("VERIF_OUT not set")
	}
	seed, _ := strconv.Atoi(os.Getenv("VERIF_SEED"))
	f, err := os.Create(outp)
	if err != nil {
		t.Fatal(err)
	}
	defer f.Close()
	w := bufio.NewWriter(f)
	defer w.Flush()
	only := os.Getenv("VERIF_SCENARIO") // replay: "<how> <reuse> <nblk> <at> <k>"
	var scs []giveUpScenario
	for _, sc := range giveUpScenarios() {
		if only == "" || sc.String() == only {
			scs = append(scs, sc)
		}
	}
	res := make([]string, len(scs))
	var wg sync.WaitGroup
	for i, sc := range scs {
		wg.Add(1)
		go func() {
			defer wg.Done()
			defer func() {
				if r := recover(); r != nil {
					res[i] = "violates-panic-" + strings.ReplaceAll(fmt.Sprint(r), " ", "_")
				}
			}()
			res[i] = runGiveUpScenario(sc, seed*100+int(fnv([]byte(sc.String()))%50))
		}()
	}
	wg.Wait()
	for i, sc := range scs {
		fmt.Fprintf(w, "giveup %s result=%s\n", sc.String(), res[i])
	}
}
