// The glue around the block-wise core (C04): the same property — exact bytes exactly once, or failure — on connections
// that the library's own entry points create through options only.
//
//   TestC04TcpServer  a real tcp.Server (options: block-wise on, a handler) serves an in-memory listener; 2–3 peers
//                     (net.Pipe ends with their own remote addresses) announce Block-Wise-Transfer in their CSM and run
//                     block-wise uploads / downloads under the SAME token, their blocks interleaved (A0 B0 A1 B1 …, and
//                     other orders).  Tokens are scoped to a connection: every peer's transfer must hand the server's
//                     handler exactly that peer's body once, and every peer must read exactly the body of its own path.
//   TestC04UdpDial    a real udp.Dial client (loopback socket, options.WithMaxMessageSize below the MTU) talks to a real
//                     udp server, or to a scripted one, whose answer datagram is LONGER than the client's maximum message
//                     size: Get must fail (the connection refuses the message) or return the exact body — never a body cut
//                     by the read buffer.
//
// Output ($VERIF_OUT): `tcpsrv <scenario> result=<ok|violates-…>` / `udpdial <scenario> result=<ok|err|violates-…>`.
package c04

import (
	"bufio"
	"bytes"
	"context"
	"fmt"
	"net"
	"os"
	"strconv"
	"strings"
	"sync"
	"testing"
	"testing/synctest"
	"time"

	"github.com/plgd-dev/go-coap/v3/message"
	"github.com/plgd-dev/go-coap/v3/message/codes"
	"github.com/plgd-dev/go-coap/v3/message/pool"
	"github.com/plgd-dev/go-coap/v3/mux"
	coapNet "github.com/plgd-dev/go-coap/v3/net"
	"github.com/plgd-dev/go-coap/v3/net/blockwise"
	"github.com/plgd-dev/go-coap/v3/net/responsewriter"
	"github.com/plgd-dev/go-coap/v3/options"
	"github.com/plgd-dev/go-coap/v3/tcp"
	tcpclient "github.com/plgd-dev/go-coap/v3/tcp/client"
	tcpcoder "github.com/plgd-dev/go-coap/v3/tcp/coder"
	"github.com/plgd-dev/go-coap/v3/udp"
	udpclient "github.com/plgd-dev/go-coap/v3/udp/client"
	udpcoder "github.com/plgd-dev/go-coap/v3/udp/coder"
	"verifharness/internal/mem"
)

type glueAddr string

func (a glueAddr) Network() string { return "mem" }
func (a glueAddr) String() string  { return string(a) }

// ---------------------------------------------------------------- tcp server, several connections, one token

type tcpSrvScenario struct {
	dir    string // up | down
	nconn  int
	order  string // lockstep | pairs | rotate
	nblk   int
	sameTk bool
	recsm  bool // every peer repeats its CSM in the middle of its transfer, this time without the Block-Wise-Transfer option
}

func (s tcpSrvScenario) String() string {
	if s.recsm {
		return fmt.Sprintf("%s %d %s %d %v recsm", s.dir, s.nconn, s.order, s.nblk, s.sameTk)
	}
	return fmt.Sprintf("%s %d %s %d %v", s.dir, s.nconn, s.order, s.nblk, s.sameTk)
}

// csmPlain is a CSM that only announces a maximum message size (RFC 8323 §5.3: a later CSM updates what it carries,
// options it does not carry keep their value; Block-Wise-Transfer, once announced, stays).
func csmPlain() []byte {
	m := pool.NewMessage(context.Background())
	m.SetCode(codes.CSM)
	m.SetToken(message.Token{2})
	m.SetOptionUint32(message.TCPMaxMessageSize, 1152)
	b, err := m.MarshalWithEncoder(tcpcoder.DefaultCoder)
	if err != nil {
		panic(err)
	}
	return append([]byte(nil), b...)
}

type tcpSrvPeer struct {
	name string
	peer *mem.TCPPeer
	tok  message.Token
	body []byte // upload: what this peer supplies; download: what its path serves
	path string
	got  []byte // download: what it assembled
	next int    // next block to send / ask for
	done bool
	code codes.Code
}

func tcpFrame(m *pool.Message) []byte {
	b, err := m.MarshalWithEncoder(tcpcoder.DefaultCoder)
	if err != nil {
		panic(err)
	}
	return append([]byte(nil), b...)
}

func tcpParse(frame []byte) *pool.Message {
	m := pool.NewMessage(context.Background())
	if _, err := m.UnmarshalWithDecoder(tcpcoder.DefaultCoder, frame); err != nil {
		panic(err)
	}
	return m
}

func runTcpSrvScenario(sc tcpSrvScenario, seed int) string {
	const u = 16
	type seenReq struct {
		remote string
		code   codes.Code
		body   []byte
	}
	var mu sync.Mutex
	var seen []seenReq
	bodies := map[string][]byte{} // path -> body served
	handler := func(w *responsewriter.ResponseWriter[*tcpclient.Conn], r *pool.Message) {
		body := readBody(r)
		mu.Lock()
		seen = append(seen, seenReq{w.Conn().RemoteAddr().String(), r.Code(), append([]byte(nil), body...)})
		mu.Unlock()
		switch r.Code() {
		case codes.GET:
			p, _ := r.Path()
			mu.Lock()
			b := bodies[p]
			mu.Unlock()
			_ = w.SetResponse(codes.Content, message.TextPlain, bytes.NewReader(b))
		default:
			_ = w.SetResponse(codes.Changed, message.TextPlain, nil)
		}
	}
	srv := tcp.NewServer(
		options.WithErrors(func(error) {}),
		options.WithMessagePool(pool.New(64, 2048)),
		options.WithPeriodicRunner(func(func(now time.Time) bool) {}),
		options.WithBlockwise(true, blockwise.SZX16, 5*time.Second),
		options.WithMaxMessageSize(1152),
		options.WithHandlerFunc(handler),
	)
	l := mem.NewListener()
	served := make(chan struct{})
	go func() { _ = srv.Serve(l); close(served) }()

	peers := make([]*tcpSrvPeer, sc.nconn)
	defer func() {
		// whatever happened: leave no goroutine behind in the bubble
		for _, p := range peers {
			if p != nil {
				p.peer.Close()
			}
		}
		srv.Stop()
		<-served
		synctest.Wait()
	}()
	for i := range peers {
		a, b := net.Pipe()
		name := fmt.Sprintf("peer%d", i)
		p := &tcpSrvPeer{name: name, peer: mem.NewTCPPeer(b), path: "/c04/" + name}
		p.tok = message.Token{0x77}
		if !sc.sameTk {
			p.tok = message.Token{0x77, byte(i)}
		}
		p.body = genBody(seed+i*13, 0, (sc.nblk-1)*u+5+i)
		bodies[p.path] = p.body
		l.Push(&mem.AddrConn{Conn: a, Local: glueAddr("server"), Remote: glueAddr(name)})
		peers[i] = p
		synctest.Wait()
		// the peer announces block-wise transfer (RFC 8323 §5.3.2); the server's own CSM is read and dropped
		_ = p.peer.Write(csmBlockwise())
		synctest.Wait()
		p.peer.TakeFrames()
	}
	step := func(p *tcpSrvPeer) {
		if p.done {
			return
		}
		if sc.recsm && p.next == 1 {
			_ = p.peer.Write(csmPlain())
			synctest.Wait()
		}
		m := pool.NewMessage(context.Background())
		m.SetToken(p.tok)
		_ = m.SetPath(p.path)
		if sc.dir == "up" {
			num := p.next
			if num >= sc.nblk {
				// the server acknowledged the last block with 2.31: it will never answer this upload
				p.done = true
				return
			}
			more := num < sc.nblk-1
			v, _ := blockwise.EncodeBlockOption(blockwise.SZX16, int64(num), more)
			m.SetCode(codes.PUT)
			m.SetOptionUint32(message.Block1, v)
			m.SetOptionUint32(message.Size1, uint32(len(p.body)))
			end := (num + 1) * u
			if end > len(p.body) {
				end = len(p.body)
			}
			m.SetBody(bytes.NewReader(p.body[num*u : end]))
		} else {
			m.SetCode(codes.GET)
			if p.next > 0 {
				v, _ := blockwise.EncodeBlockOption(blockwise.SZX16, int64(p.next), false)
				m.SetOptionUint32(message.Block2, v)
			}
		}
		_ = p.peer.Write(tcpFrame(m))
		synctest.Wait()
		for _, fr := range p.peer.TakeFrames() {
			r := tcpParse(fr)
			p.code = r.Code()
			if sc.dir == "up" {
				if r.Code() == codes.Continue {
					p.next++
				} else {
					p.done = true
				}
				continue
			}
			if r.Code() != codes.Content {
				p.done = true
				continue
			}
			p.got = append(p.got, readBody(r)...)
			blk, err := r.GetOptionUint32(message.Block2)
			if err != nil {
				p.done = true
				continue
			}
			_, _, more, _ := blockwise.DecodeBlockOption(blk)
			if more {
				p.next++
			} else {
				p.done = true
			}
		}
	}
	// interleavings of the peers' lock-step transfers
	for round := 0; round < 4*sc.nblk+4; round++ {
		switch sc.order {
		case "lockstep": // A0 B0 (C0) A1 B1 …
			for _, p := range peers {
				step(p)
			}
		case "pairs": // A0 A1 B0 B1 A2 A3 …
			for _, p := range peers {
				step(p)
				step(p)
			}
		default: // rotate: the peer served first changes every round
			for i := range peers {
				step(peers[(i+round)%len(peers)])
			}
		}
	}
	synctest.Wait()

	mu.Lock()
	defer mu.Unlock()
	for _, p := range peers {
		n := 0
		for _, s := range seen {
			if s.remote != p.name {
				continue
			}
			n++
			want := p.body
			if sc.dir == "down" {
				want = nil
			}
			if !bytes.Equal(s.body, want) {
				return fmt.Sprintf("violates-handler-got-%d-bytes-from-%s-which-supplied-%d", len(s.body), p.name, len(want))
			}
		}
		if sc.dir == "up" {
			if n > 1 {
				return fmt.Sprintf("violates-handler-called-%d-times-for-%s", n, p.name)
			}
			if p.code == codes.Changed && n != 1 {
				return fmt.Sprintf("violates-%s-got-2.04-but-handler-saw-%d-bodies", p.name, n)
			}
			if p.code != codes.Changed && p.code != codes.RequestEntityIncomplete {
				return fmt.Sprintf("violates-%s-ended-with-code-%d", p.name, int(p.code))
			}
			if p.code == codes.RequestEntityIncomplete {
				// every block was sent in order and acknowledged on its own connection: nothing may make the upload fail
				return fmt.Sprintf("violates-%s-upload-refused-4.08-without-any-fault", p.name)
			}
		} else {
			if p.code == codes.Content && !bytes.Equal(p.got, p.body) {
				return fmt.Sprintf("violates-%s-read-%d-bytes-of-%d", p.name, len(p.got), len(p.body))
			}
			if p.code != codes.Content {
				return fmt.Sprintf("violates-%s-download-ended-with-code-%d-without-any-fault", p.name, int(p.code))
			}
		}
	}
	return "ok"
}

// runTcpHighNum: a peer sends, out of the blue, a Block1 block with a block number that needs three option bytes on the
// wire (4096, 65535+1, 2^20-1), M = 1, 16 bytes.  Nothing is held for the token: the server must acknowledge with 2.31
// carrying the same number (or refuse); its handler must not be handed the 16 bytes as a body.  Then a Block2 request for
// such a block of a resource that is long enough (num 4096 of 4100 blocks) must return exactly that slice.
func runTcpHighNum(num int, seed int) string {
	const u = 16
	var mu sync.Mutex
	var handled [][]byte
	long := genBody(seed, 0, 4100*u+5)
	srv := tcp.NewServer(
		options.WithErrors(func(error) {}),
		options.WithMessagePool(pool.New(64, 2048)),
		options.WithPeriodicRunner(func(func(now time.Time) bool) {}),
		options.WithBlockwise(true, blockwise.SZX16, 5*time.Second),
		options.WithMaxMessageSize(1152),
		options.WithHandlerFunc(func(w *responsewriter.ResponseWriter[*tcpclient.Conn], r *pool.Message) {
			if r.Code() == codes.GET {
				_ = w.SetResponse(codes.Content, message.TextPlain, bytes.NewReader(long))
				return
			}
			mu.Lock()
			handled = append(handled, readBody(r))
			mu.Unlock()
			_ = w.SetResponse(codes.Changed, message.TextPlain, nil)
		}),
	)
	l := mem.NewListener()
	served := make(chan struct{})
	go func() { _ = srv.Serve(l); close(served) }()
	a, b := net.Pipe()
	peer := mem.NewTCPPeer(b)
	defer func() {
		peer.Close()
		srv.Stop()
		<-served
		synctest.Wait()
	}()
	l.Push(&mem.AddrConn{Conn: a, Local: glueAddr("server"), Remote: glueAddr("peer")})
	synctest.Wait()
	_ = peer.Write(csmBlockwise())
	synctest.Wait()
	peer.TakeFrames()
	m := pool.NewMessage(context.Background())
	m.SetCode(codes.PUT)
	m.SetToken(message.Token{0x99})
	_ = m.SetPath("/c04/high")
	v, _ := blockwise.EncodeBlockOption(blockwise.SZX16, int64(num), true)
	m.SetOptionUint32(message.Block1, v)
	m.SetBody(bytes.NewReader(genBody(seed, 0, u)))
	_ = peer.Write(tcpFrame(m))
	synctest.Wait()
	code := codes.Empty
	for _, fr := range peer.TakeFrames() {
		r := tcpParse(fr)
		code = r.Code()
		if r.Code() == codes.Continue {
			blk, err := r.GetOptionUint32(message.Block1)
			if err != nil || int(blk>>4) != num {
				return fmt.Sprintf("violates-2.31-for-block-%d-carries-number-%d", num, int(blk>>4))
			}
		}
	}
	mu.Lock()
	n := len(handled)
	mu.Unlock()
	if n != 0 {
		return fmt.Sprintf("violates-handler-got-the-%d-bytes-of-stray-block-%d-as-a-complete-body-answer-code-%d", u, num, int(code))
	}
	if num*u < len(long) {
		q := pool.NewMessage(context.Background())
		q.SetCode(codes.GET)
		q.SetToken(message.Token{0x9a})
		_ = q.SetPath("/c04/high")
		v2, _ := blockwise.EncodeBlockOption(blockwise.SZX16, int64(num), false)
		q.SetOptionUint32(message.Block2, v2)
		_ = peer.Write(tcpFrame(q))
		synctest.Wait()
		for _, fr := range peer.TakeFrames() {
			r := tcpParse(fr)
			if r.Code() != codes.Content {
				continue
			}
			got := readBody(r)
			end := (num + 1) * u
			if end > len(long) {
				end = len(long)
			}
			blk, err := r.GetOptionUint32(message.Block2)
			if err != nil || int(blk>>4) != num || !bytes.Equal(got, long[num*u:end]) {
				return fmt.Sprintf("violates-asked-for-block-%d-got-block-%d-%d-bytes", num, int(blk>>4), len(got))
			}
		}
	}
	return "ok"
}

// runTcpEarlyNeg: a peer negotiates the block size early (RFC 7959 section 2.4: a GET with Block2 = (SZX, 0, 0); likewise a
// PUT whose only block is (SZX, 0, 0)) with every wire encoding of the option value: the value 0 = (SZX16, block 0, last)
// is the EMPTY option value in its minimal encoding, and may come zero-padded to one, two or three bytes; SZX 1..7 are
// the one-byte values 0x01..0x07.  The server (block size 1024, bodies of 16..1023 bytes, i.e. less than its own block)
// must answer in blocks no larger than asked for: a first block of at most that size, a prefix of the body, flagged
// `more` unless it is the whole body.
func runTcpEarlyNeg(enc []byte, bt message.OptionID, bodyLen int, seed int) string {
	body := genBody(seed, 0, bodyLen)
	srv := tcp.NewServer(
		options.WithErrors(func(error) {}),
		options.WithMessagePool(pool.New(64, 2048)),
		options.WithPeriodicRunner(func(func(now time.Time) bool) {}),
		options.WithBlockwise(true, blockwise.SZX1024, 5*time.Second),
		options.WithMaxMessageSize(2048),
		options.WithHandlerFunc(func(w *responsewriter.ResponseWriter[*tcpclient.Conn], r *pool.Message) {
			code := codes.Content
			if r.Code() != codes.GET {
				code = codes.Changed
			}
			_ = w.SetResponse(code, message.TextPlain, bytes.NewReader(body))
		}),
	)
	l := mem.NewListener()
	served := make(chan struct{})
	go func() { _ = srv.Serve(l); close(served) }()
	a, b := net.Pipe()
	peer := mem.NewTCPPeer(b)
	defer func() {
		peer.Close()
		srv.Stop()
		<-served
		synctest.Wait()
	}()
	l.Push(&mem.AddrConn{Conn: a, Local: glueAddr("server"), Remote: glueAddr("peer")})
	synctest.Wait()
	_ = peer.Write(csmBlockwise())
	synctest.Wait()
	peer.TakeFrames()
	q := pool.NewMessage(context.Background())
	q.SetToken(message.Token{0x77, byte(len(enc))})
	_ = q.SetPath("/c04/early")
	if bt == message.Block2 {
		q.SetCode(codes.GET)
	} else {
		q.SetCode(codes.PUT)
		q.SetContentFormat(message.TextPlain)
		q.SetBody(bytes.NewReader(genBody(seed+1, 0, 8)))
	}
	q.SetOptionBytes(bt, enc)
	_ = peer.Write(tcpFrame(q))
	synctest.Wait()
	asked := 0
	if len(enc) > 0 {
		asked = int(enc[len(enc)-1] & 7)
	}
	for _, e := range enc[:max(0, len(enc)-1)] {
		if e != 0 {
			return "err-scenario"
		}
	}
	unit := 16 << asked
	if asked == 7 {
		unit = 1024 // BERT: multiples of 1024; the bodies here are smaller than one
	}
	var resp *pool.Message
	for _, fr := range peer.TakeFrames() {
		if r := tcpParse(fr); r != nil && (r.Code() == codes.Content || r.Code() == codes.Changed) {
			resp = r
		}
	}
	if resp == nil {
		return "err-no-response"
	}
	got := readBody(resp)
	blk, errB := resp.GetOptionUint32(message.Block2)
	switch {
	case len(got) > unit:
		if errB != nil {
			return fmt.Sprintf("violates-asked-for-blocks-of-%d-bytes-got-%d-bytes-of-%d-without-Block2", unit, len(got), bodyLen)
		}
		return fmt.Sprintf("violates-asked-for-blocks-of-%d-bytes-got-a-block-of-%d-bytes-szx-%d", unit, len(got), blk&7)
	case errB == nil && int(blk&7) > asked:
		return fmt.Sprintf("violates-asked-for-szx-%d-got-szx-%d", asked, blk&7)
	case len(got) > bodyLen || !bytes.Equal(got, body[:len(got)]):
		return fmt.Sprintf("violates-first-block-is-not-a-prefix-of-the-body-%d-bytes-of-%d", len(got), bodyLen)
	case len(got) < bodyLen && (errB != nil || blk&8 == 0 || blk>>4 != 0):
		return fmt.Sprintf("violates-%d-bytes-of-%d-presented-as-the-whole-body", len(got), bodyLen)
	}
	return "ok"
}

func TestC04TcpServer(t *testing.T) {
	outp := os.Getenv("VERIF_OUT")
	if outp == "" {
		t.Skip("VERIF_OUT not set")
	}
	seed, _ := strconv.Atoi(os.Getenv("VERIF_SEED"))
	f, err := os.Create(outp)
	if err != nil {
		t.Fatal(err)
	}
	defer f.Close()
	w := bufio.NewWriter(f)
	defer w.Flush()
	only := os.Getenv("VERIF_SCENARIO")
	for _, num := range []int{4095, 4096, 4099, 65535, 65536, 1<<20 - 1} {
		name := fmt.Sprintf("highnum %d", num)
		if only != "" && name != only {
			continue
		}
		res := "err"
		synctest.Test(t, func(*testing.T) {
			defer func() {
				if r := recover(); r != nil {
					res = "violates-panic-" + strings.ReplaceAll(fmt.Sprint(r), " ", "_")
				}
			}()
			res = runTcpHighNum(num, seed+num)
		})
		fmt.Fprintf(w, "tcpsrv %s result=%s\n", name, res)
	}
	encs := [][]byte{{}, {0}, {0, 0}, {0, 0, 0}, {1}, {2}, {3}, {4}, {5}, {6}, {7}, {0, 2}, {0, 0, 1}}
	for _, bt := range []message.OptionID{message.Block2, message.Block1} {
		for _, enc := range encs {
			for _, bodyLen := range []int{16, 17, 40, 700, 1023} {
				name := fmt.Sprintf("earlyneg block%d %d:%x %d", map[message.OptionID]int{message.Block1: 1, message.Block2: 2}[bt], len(enc), enc, bodyLen)
				if only != "" && name != only {
					continue
				}
				res := "err"
				synctest.Test(t, func(*testing.T) {
					defer func() {
						if r := recover(); r != nil {
							res = "violates-panic-" + strings.ReplaceAll(fmt.Sprint(r), " ", "_")
						}
					}()
					res = runTcpEarlyNeg(enc, bt, bodyLen, seed+bodyLen+len(enc))
				})
				fmt.Fprintf(w, "tcpsrv %s result=%s\n", name, res)
			}
		}
	}
	for _, dir := range []string{"up", "down"} {
		for _, nconn := range []int{2, 3} {
			for _, order := range []string{"lockstep", "pairs", "rotate"} {
				for _, nblk := range []int{2, 3, 4} {
					for _, same := range []bool{true, false} {
						sc := tcpSrvScenario{dir, nconn, order, nblk, same, false}
						if nconn == 2 && order == "lockstep" && nblk == 3 && !same {
							// once more with a CSM repeated mid-transfer (appended after the plain scenario below)
							defer func(sc tcpSrvScenario) {
								sc.recsm = true
								if only != "" && sc.String() != only {
									return
								}
								res := "err"
								synctest.Test(t, func(*testing.T) {
									defer func() {
										if r := recover(); r != nil {
											res = "violates-panic-" + strings.ReplaceAll(fmt.Sprint(r), " ", "_")
										}
									}()
									res = runTcpSrvScenario(sc, seed*100+int(fnv([]byte(sc.String()))%50))
								})
								fmt.Fprintf(w, "tcpsrv %s result=%s\n", sc.String(), res)
							}(sc)
						}
						if only != "" && sc.String() != only {
							continue
						}
						res := "err"
						synctest.Test(t, func(*testing.T) {
							defer func() {
								if r := recover(); r != nil {
									res = "violates-panic-" + strings.ReplaceAll(fmt.Sprint(r), " ", "_")
								}
							}()
							res = runTcpSrvScenario(sc, seed*100+int(fnv([]byte(sc.String()))%50))
						})
						fmt.Fprintf(w, "tcpsrv %s result=%s\n", sc.String(), res)
					}
				}
			}
		}
	}
}

// ---------------------------------------------------------------- udp.Dial client, answer longer than its maximum message size

type udpDialScenario struct {
	server  string // real | scripted
	maxSize int    // the client's options.WithMaxMessageSize
	cszx    int    // the client's block size exponent
	blen    int    // body length
}

func (s udpDialScenario) String() string {
	return fmt.Sprintf("%s %d %d %d", s.server, s.maxSize, s.cszx, s.blen)
}

func runUdpDialScenario(sc udpDialScenario, seed int) string {
	body := genBody(seed, 0, sc.blen)
	var addr string
	var stop func()
	if sc.server == "real" {
		r := mux.NewRouter()
		_ = r.Handle("/c04", mux.HandlerFunc(func(w mux.ResponseWriter, _ *mux.Message) {
			_ = w.SetResponse(codes.Content, message.TextPlain, bytes.NewReader(body))
		}))
		l, err := coapNet.NewListenUDP("udp4", "127.0.0.1:0")
		if err != nil {
			return "skipped-no-loopback"
		}
		s := udp.NewServer(options.WithMux(r), options.WithBlockwise(true, blockwise.SZX1024, 3*time.Second), options.WithErrors(func(error) {}))
		done := make(chan struct{})
		go func() { _ = s.Serve(l); close(done) }()
		addr = l.LocalAddr().String()
		stop = func() { s.Stop(); _ = l.Close(); <-done }
	} else {
		// a scripted peer: answers every GET with ONE datagram that carries the whole body as Block2 num 0, M = 0
		pc, err := net.ListenPacket("udp4", "127.0.0.1:0")
		if err != nil {
			return "skipped-no-loopback"
		}
		addr = pc.LocalAddr().String()
		quit := make(chan struct{})
		go func() {
			buf := make([]byte, 65536)
			for {
				_ = pc.SetReadDeadline(time.Now().Add(50 * time.Millisecond))
				n, from, err := pc.ReadFrom(buf)
				select {
				case <-quit:
					return
				default:
				}
				if err != nil {
					continue
				}
				req := pool.NewMessage(context.Background())
				if _, err := req.UnmarshalWithDecoder(udpcoder.DefaultCoder, buf[:n]); err != nil || req.Code() != codes.GET {
					continue
				}
				resp := pool.NewMessage(context.Background())
				resp.SetCode(codes.Content)
				resp.SetToken(req.Token())
				resp.SetType(message.Acknowledgement)
				resp.SetMessageID(req.MessageID())
				szx := blockwise.SZX1024
				v, _ := blockwise.EncodeBlockOption(szx, 0, false)
				resp.SetOptionUint32(message.Block2, v)
				resp.SetOptionUint32(message.Size2, uint32(len(body)))
				resp.SetBody(bytes.NewReader(body))
				out, err := resp.MarshalWithEncoder(udpcoder.DefaultCoder)
				if err == nil {
					_, _ = pc.WriteTo(out, from)
				}
			}
		}()
		stop = func() { close(quit); _ = pc.Close() }
	}
	defer stop()
	var cerrs []string
	var emu sync.Mutex
	cc, err := udp.Dial(addr,
		options.WithMaxMessageSize(uint32(sc.maxSize)),
		options.WithBlockwise(true, blockwise.SZX(sc.cszx), 2*time.Second),
		options.WithErrors(func(e error) { emu.Lock(); cerrs = append(cerrs, e.Error()); emu.Unlock() }),
	)
	if err != nil {
		return "skipped-dial-" + strings.ReplaceAll(err.Error(), " ", "_")
	}
	defer func() { _ = cc.Close() }()
	var _ *udpclient.Conn = cc
	ctx, cancel := context.WithTimeout(context.Background(), 1500*time.Millisecond)
	defer cancel()
	resp, err := cc.Get(ctx, "/c04")
	if err != nil {
		return "err" // refused / closed / timed out: the exchange failed, nothing was presented as a body
	}
	got := readBody(resp)
	if resp.Code() != codes.Content {
		return fmt.Sprintf("err-code-%d", int(resp.Code()))
	}
	if !bytes.Equal(got, body) {
		return fmt.Sprintf("violates-get-returned-%d-bytes-of-%d-as-complete-2.05", len(got), len(body))
	}
	return "ok"
}

func TestC04UdpDial(t *testing.T) {
	outp := os.Getenv("VERIF_OUT")
	if outp == "" {
		t.Skip("VERIF_OUT not set")
	}
	seed, _ := strconv.Atoi(os.Getenv("VERIF_SEED"))
	f, err := os.Create(outp)
	if err != nil {
		t.Fatal(err)
	}
	defer f.Close()
	w := bufio.NewWriter(f)
	defer w.Flush()
	only := os.Getenv("VERIF_SCENARIO")
	scs := []udpDialScenario{
		// within the limits: must be exact (non-vacuity of the judge)
		{"real", 1152, 6, 1024}, {"real", 1152, 4, 700}, {"scripted", 1152, 6, 1024}, {"real", 65536, 6, 3000},
		// the answer datagram is longer than the client's maximum message size and ends the body
		{"real", 1024, 6, 1024}, {"scripted", 1024, 6, 1024}, {"scripted", 600, 5, 1024}, {"scripted", 1024, 6, 1100},
		{"real", 600, 5, 1024}, {"scripted", 300, 4, 400}, {"real", 1024, 6, 2048},
	}
	var wg sync.WaitGroup
	res := make([]string, len(scs))
	for i, sc := range scs {
		if only != "" && sc.String() != only {
			res[i] = ""
			continue
		}
		wg.Add(1)
		go func() {
			defer wg.Done()
			defer func() {
				if r := recover(); r != nil {
					res[i] = "violates-panic-" + strings.ReplaceAll(fmt.Sprint(r), " ", "_")
				}
			}()
			res[i] = runUdpDialScenario(sc, seed*100+i)
		}()
	}
	wg.Wait()
	for i, sc := range scs {
		if res[i] != "" {
			fmt.Fprintf(w, "udpdial %s result=%s\n", sc.String(), res[i])
		}
	}
}

// ---------------------------------------------------------------- udp.Server.DiscoveryRequest with a query, stateless responders

type discoverScenario struct {
	nblk       int
	responders int
	accept     bool
}

func (s discoverScenario) String() string { return fmt.Sprintf("%d %d %v", s.nblk, s.responders, s.accept) }

// runDiscoverScenario: the request carries Uri-Query (and Accept); every responder is a raw socket that evaluates EVERY
// block request on its own (RFC 7959 stateless server): with the query it serves the queried representation, without it
// the plain one.  No ETag.  The receiver must get, from every responder, exactly the queried body, once.
func runDiscoverScenario(sc discoverScenario, seed int) string {
	const u = 16
	l, err := coapNet.NewListenUDP("udp4", "127.0.0.1:0")
	if err != nil {
		return "skipped-no-loopback"
	}
	defer l.Close()
	s := udp.NewServer(options.WithErrors(func(error) {}), options.WithBlockwise(true, blockwise.SZX16, 2*time.Second),
		options.WithHandlerFunc(func(*responsewriter.ResponseWriter[*udpclient.Conn], *pool.Message) {}))
	served := make(chan struct{})
	go func() { _ = s.Serve(l); close(served) }()
	defer func() {
		s.Stop()
		select {
		case <-served:
		case <-time.After(2 * time.Second):
		}
	}()
	time.Sleep(20 * time.Millisecond)
	bodyQ := genBody(seed, 0, (sc.nblk-1)*u+7)     // what `?rep=q` (and Accept 60) selects
	bodyPlain := genBody(seed+77, 0, (sc.nblk-1)*u+7) // what the same path serves without them
	var rwg sync.WaitGroup
	quit := make(chan struct{})
	var addrs []string
	for i := 0; i < sc.responders; i++ {
		pc, err := net.ListenUDP("udp4", &net.UDPAddr{IP: net.IPv4(127, 0, 0, 1)})
		if err != nil {
			return "skipped-no-loopback"
		}
		addrs = append(addrs, pc.LocalAddr().String())
		rwg.Add(1)
		go func(i int, pc *net.UDPConn) {
			defer rwg.Done()
			defer pc.Close()
			buf := make([]byte, 2048)
			mid := int32(9000 + 100*i)
			for {
				_ = pc.SetReadDeadline(time.Now().Add(30 * time.Millisecond))
				n, from, err := pc.ReadFromUDP(buf)
				select {
				case <-quit:
					return
				default:
				}
				if err != nil {
					continue
				}
				q := pool.NewMessage(context.Background())
				if _, err := q.UnmarshalWithDecoder(udpcoder.DefaultCoder, buf[:n]); err != nil || q.Code() != codes.GET {
					continue
				}
				if p, _ := q.Path(); p != "/c04/res" {
					continue
				}
				body := bodyPlain
				queries, _ := q.Queries()
				hasQ := len(queries) == 1 && queries[0] == "rep=q"
				acc, accErr := q.GetOptionUint32(message.Accept)
				if hasQ && (!sc.accept || (accErr == nil && acc == 60)) {
					body = bodyQ
				}
				num := 0
				if blk, err := q.GetOptionUint32(message.Block2); err == nil {
					num = int(blk >> 4)
				}
				if num*u > len(body) {
					continue
				}
				end := (num + 1) * u
				more := true
				if end >= len(body) {
					end, more = len(body), false
				}
				r := pool.NewMessage(context.Background())
				r.SetCode(codes.Content)
				r.SetToken(q.Token())
				r.SetContentFormat(message.TextPlain)
				v, _ := blockwise.EncodeBlockOption(blockwise.SZX16, int64(num), more)
				r.SetOptionUint32(message.Block2, v)
				r.SetOptionUint32(message.Size2, uint32(len(body)))
				r.SetBody(bytes.NewReader(body[num*u : end]))
				if q.Type() == message.Confirmable {
					r.SetType(message.Acknowledgement)
					r.SetMessageID(q.MessageID())
				} else {
					mid++
					r.SetType(message.NonConfirmable)
					r.SetMessageID(mid)
				}
				out, err := r.MarshalWithEncoder(udpcoder.DefaultCoder)
				if err == nil {
					_, _ = pc.WriteToUDP(out, from)
				}
			}
		}(i, pc)
	}
	defer func() { close(quit); rwg.Wait() }()

	type gotBody struct {
		remote string
		body   []byte
	}
	var mu sync.Mutex
	var got []gotBody
	var dwg sync.WaitGroup
	for i, a := range addrs {
		dwg.Add(1)
		go func(i int, a string) {
			defer dwg.Done()
			ctx, cancel := context.WithTimeout(context.Background(), 500*time.Millisecond)
			defer cancel()
			req := pool.NewMessage(ctx)
			req.SetCode(codes.GET)
			req.SetToken(message.Token{0xd1, 0x5c, byte(i), byte(seed)})
			req.SetType(message.NonConfirmable)
			req.SetMessageID(int32(4000 + i))
			_ = req.SetPath("/c04/res")
			req.AddQuery("rep=q")
			if sc.accept {
				req.SetOptionUint32(message.Accept, 60)
			}
			_ = s.DiscoveryRequest(req, a, func(cc *udpclient.Conn, resp *pool.Message) {
				b := readBody(resp)
				mu.Lock()
				got = append(got, gotBody{cc.RemoteAddr().String(), append([]byte(nil), b...)})
				mu.Unlock()
			})
		}(i, a)
	}
	dwg.Wait()
	mu.Lock()
	defer mu.Unlock()
	per := map[string]int{}
	for _, g := range got {
		per[g.remote]++
		if !bytes.Equal(g.body, bodyQ) {
			mixed := len(g.body) >= u && bytes.Equal(g.body[:u], bodyQ[:u])
			return fmt.Sprintf("violates-receiver-got-%d-bytes-not-the-queried-body-of-%d-firstblock-queried-%v", len(g.body), len(bodyQ), mixed)
		}
	}
	for _, a := range addrs {
		if per[a] > 1 {
			return fmt.Sprintf("violates-body-of-%s-delivered-%d-times", a, per[a])
		}
	}
	if len(got) == 0 {
		return "err" // nothing arrived in time: a failed exchange, not a wrong one
	}
	return "ok"
}

func TestC04Discover(t *testing.T) {
	outp := os.Getenv("VERIF_OUT")
	if outp == "" {
		t.Skip("VERIF_OUT not set")
	}
	seed, _ := strconv.Atoi(os.Getenv("VERIF_SEED"))
	f, err := os.Create(outp)
	if err != nil {
		t.Fatal(err)
	}
	defer f.Close()
	w := bufio.NewWriter(f)
	defer w.Flush()
	only := os.Getenv("VERIF_SCENARIO")
	var scs []discoverScenario
	for _, nblk := range []int{1, 2, 3, 4} {
		for _, resp := range []int{1, 2} {
			for _, acc := range []bool{false, true} {
				scs = append(scs, discoverScenario{nblk, resp, acc})
			}
		}
	}
	res := make([]string, len(scs))
	var wg sync.WaitGroup
	for i, sc := range scs {
		if only != "" && sc.String() != only {
			continue
		}
		wg.Add(1)
		go func() {
			defer wg.Done()
			defer func() {
				if r := recover(); r != nil {
					res[i] = "violates-panic-" + strings.ReplaceAll(fmt.Sprint(r), " ", "_")
				}
			}()
			res[i] = runDiscoverScenario(sc, seed*100+i)
		}()
	}
	wg.Wait()
	for i, sc := range scs {
		if res[i] != "" {
			fmt.Fprintf(w, "discover %s result=%s\n", sc.String(), res[i])
		}
	}
}
