// Concurrent part of the C04 harness: several goroutines work on ONE token of a real BlockWise instance while the
// application handler reads the delivered body slowly.  The per-entry guard (`messageGuard`) must keep a late
// duplicate / replay / a new transfer's first block away from the reassembled message until the handler has
// returned: what the handler reads must be exactly one of the supplied bodies, complete.
//
// Scenario (one line of $VERIF_OUT each, `guard <dir> <late kinds> <timing> result=<ok|violates-…>`):
//   upload (Block1, the instance is the server) or download (Block2, the instance is the client with its request cached);
//   all blocks but the last have arrived; the last block is handled by goroutine L whose payload is read slowly, so that
//   L holds the transfer; 1–3 late messages of the same token (duplicate of block 0, of a middle block, of the last block,
//   block 0 of a NEW transfer with another body) are handled by goroutines D1..Dn, started either while L still copies
//   (they find the entry in the cache and queue on the guard) or while the handler runs; the handler reads the body in
//   small chunks with sleeps in between.  Runs inside testing/synctest (deterministic) and, with VERIF_REALTIME=1 (the
//   race build), in real time.
package c04

import (
	"bufio"
	"bytes"
	"context"
	"fmt"
	"io"
	"math/rand"
	"os"
	"strconv"
	"strings"
	"sync"
	"testing"
	"testing/synctest"
	"time"

	"github.com/plgd-dev/go-coap/v3/message"
	"github.com/plgd-dev/go-coap/v3/message/codes"
	"github.com/plgd-dev/go-coap/v3/message/pool"
	"github.com/plgd-dev/go-coap/v3/net/blockwise"
	"github.com/plgd-dev/go-coap/v3/net/responsewriter"
)

// gatedReader is a payload whose first Read waits until it is released (io.Copy must not take a WriteTo shortcut).
type gatedReader struct {
	data    *bytes.Reader
	once    sync.Once
	reading chan struct{}
	release chan struct{}
}

func (g *gatedReader) Read(p []byte) (int, error) {
	g.once.Do(func() {
		close(g.reading)
		<-g.release
	})
	return g.data.Read(p)
}

func (g *gatedReader) Seek(off int64, whence int) (int64, error) { return g.data.Seek(off, whence) }

type guardScenario struct {
	dir    string   // up | down
	late   []string // dup0 | dupmid | duplast | new0
	timing string   // queued (late messages start while L copies) | handler (they start while the handler reads)
	nblk   int
}

func (s guardScenario) String() string {
	return fmt.Sprintf("%s %s %s %d", s.dir, strings.Join(s.late, "+"), s.timing, s.nblk)
}

func guardBlock(dir string, tok message.Token, body []byte, num, nblk int, seedOther string, payload io.ReadSeeker) *pool.Message {
	const u = 16
	more := num < nblk-1
	v, err := blockwise.EncodeBlockOption(blockwise.SZX16, int64(num), more)
	if err != nil {
		panic(err)
	}
	m := pool.NewMessage(context.Background())
	m.SetToken(tok)
	if dir == "up" {
		m.SetCode(codes.PUT)
		_ = m.SetPath("/c04/" + seedOther)
		m.SetOptionUint32(message.Block1, v)
		m.SetOptionUint32(message.Size1, uint32(len(body)))
	} else {
		m.SetCode(codes.Content)
		m.SetOptionUint32(message.MaxAge, uint32(len(seedOther)+60))
		m.SetOptionUint32(message.Block2, v)
		m.SetOptionUint32(message.Size2, uint32(len(body)))
	}
	if payload == nil {
		end := (num + 1) * u
		if end > len(body) {
			end = len(body)
		}
		payload = bytes.NewReader(body[num*u : end])
	}
	m.SetBody(payload)
	return m
}

// runGuardScenario returns "ok" or "violates-…".
func runGuardScenario(sc guardScenario, seed int, realtime bool) string {
	const u = 16
	tok := message.Token{0xc0, 0x4e, byte(seed)}
	bodyA := genBody(seed, 0, (sc.nblk-1)*u+9)
	bodyB := genBody(seed+101, 0, (sc.nblk-1)*u+5) // a new transfer under the same token (F10e: its block 0 restarts)
	ep := &endpoint{name: "X", p: pool.New(64, 2048), szx: blockwise.SZX16, max: 1152}
	ep.bw = blockwise.New(ep, time.Minute, func(error) {}, nil)

	var mu sync.Mutex
	var reads [][]byte
	panicked := ""
	guardPanic := func() {
		if r := recover(); r != nil {
			mu.Lock()
			panicked = fmt.Sprint(r)
			mu.Unlock()
		}
	}
	wait := func() {
		if realtime {
			time.Sleep(2 * time.Millisecond)
		} else {
			synctest.Wait()
		}
	}
	inHandler := make(chan struct{})
	var inHandlerOnce sync.Once
	handler := func(w *responsewriter.ResponseWriter[*endpoint], r *pool.Message) {
		inHandlerOnce.Do(func() { close(inHandler) })
		// read the body slowly, a few bytes at a time, as an application that parses while it reads
		var got []byte
		if b := r.Body(); b != nil {
			chunk := make([]byte, 5)
			for {
				time.Sleep(time.Millisecond)
				n, err := b.Read(chunk)
				got = append(got, chunk[:n]...)
				if err != nil {
					break
				}
			}
		}
		// … and once more from the start after a while (a handler may look at the body twice)
		time.Sleep(3 * time.Millisecond)
		again, _ := r.ReadBody()
		mu.Lock()
		reads = append(reads, got, append([]byte(nil), again...))
		mu.Unlock()
		if sc.dir == "up" {
			_ = w.SetResponse(codes.Changed, message.TextPlain, nil)
		}
	}
	handle := func(m *pool.Message) {
		resp := ep.p.AcquireMessage(context.Background())
		resp.SetToken(m.Token())
		w := responsewriter.New(resp, ep, m.Options()...)
		ep.bw.Handle(w, m, ep.szx, ep.max, handler)
	}
	ctx, cancel := context.WithCancel(context.Background())
	defer cancel()
	if sc.dir == "down" {
		// the instance is the client: its request is cached while Do waits for the response
		req := pool.NewMessage(ctx)
		req.SetCode(codes.GET)
		req.SetToken(tok)
		_ = req.SetPath("/c04/down")
		started := make(chan struct{})
		go func() {
			_, _ = ep.bw.Do(req, ep.szx, ep.max, func(*pool.Message) (*pool.Message, error) {
				close(started)
				<-ctx.Done()
				return nil, ctx.Err()
			})
		}()
		<-started
	}
	// all blocks but the last arrive in order
	for num := 0; num < sc.nblk-1; num++ {
		handle(guardBlock(sc.dir, tok, bodyA, num, sc.nblk, "a", nil))
	}
	// L: the last block, its payload is read slowly
	gr := &gatedReader{data: bytes.NewReader(bodyA[(sc.nblk-1)*u:]), reading: make(chan struct{}), release: make(chan struct{})}
	var wg sync.WaitGroup
	wg.Add(1)
	go func() {
		defer wg.Done()
		defer guardPanic()
		handle(guardBlock(sc.dir, tok, bodyA, sc.nblk-1, sc.nblk, "a", gr))
	}()
	<-gr.reading
	startLate := func() {
		for _, kind := range sc.late {
			var m *pool.Message
			switch kind {
			case "dup0":
				m = guardBlock(sc.dir, tok, bodyA, 0, sc.nblk, "a", nil)
			case "dupmid":
				m = guardBlock(sc.dir, tok, bodyA, 1, sc.nblk, "a", nil)
			case "duplast":
				m = guardBlock(sc.dir, tok, bodyA, sc.nblk-1, sc.nblk, "a", nil)
			case "new0":
				m = guardBlock(sc.dir, tok, bodyB, 0, sc.nblk, "bb", nil)
			}
			wg.Add(1)
			go func() {
				defer wg.Done()
				defer guardPanic()
				handle(m)
			}()
			wait() // the late message has looked the entry up and queues on the guard (or has finished)
		}
	}
	if sc.timing == "queued" {
		startLate()
		close(gr.release)
	} else {
		close(gr.release)
		<-inHandler
		startLate()
	}
	wg.Wait()
	cancel()
	wait()

	mu.Lock()
	defer mu.Unlock()
	if panicked != "" {
		return "violates-panic-" + strings.ReplaceAll(panicked, " ", "_")
	}
	if len(reads) == 0 {
		return "violates-nothing-delivered"
	}
	for i, got := range reads {
		if !bytes.Equal(got, bodyA) && !bytes.Equal(got, bodyB) {
			which := "streamed"
			if i%2 == 1 {
				which = "reread"
			}
			return fmt.Sprintf("violates-handler-%s-%d-bytes-of-%d", which, len(got), len(bodyA))
		}
	}
	return "ok"
}

func guardScenarios(rng *rand.Rand, thorough bool) []guardScenario {
	var out []guardScenario
	singles := [][]string{{"dup0"}, {"dupmid"}, {"duplast"}, {"new0"}}
	multi := [][]string{{"dup0", "dupmid"}, {"dupmid", "dup0"}, {"new0", "dup0"}, {"dup0", "duplast", "new0"}, {"duplast", "dup0"}}
	for _, dir := range []string{"up", "down"} {
		for _, timing := range []string{"queued", "handler"} {
			for _, nblk := range []int{2, 3, 4} {
				for _, l := range singles {
					out = append(out, guardScenario{dir, l, timing, nblk})
				}
				ms := multi
				if !thorough {
					ms = [][]string{multi[rng.Intn(len(multi))], multi[rng.Intn(len(multi))]}
				}
				for _, l := range ms {
					out = append(out, guardScenario{dir, l, timing, nblk})
				}
			}
		}
	}
	return out
}

func TestC04Guard(t *testing.T) {
	outp := os.Getenv("VERIF_OUT")
	if outp == "" {
		t.Skip("VERIF_OUT not set")
	}
	seed, _ := strconv.Atoi(os.Getenv("VERIF_SEED"))
	realtime := os.Getenv("VERIF_REALTIME") == "1"
	rng := rand.New(rand.NewSource(int64(seed)))
	f, err := os.Create(outp)
	if err != nil {
		t.Fatal(err)
	}
	defer f.Close()
	w := bufio.NewWriter(f)
	defer w.Flush()
	only := os.Getenv("VERIF_SCENARIO") // replay: "<dir> <late> <timing> <nblk>"
	for _, sc := range guardScenarios(rng, os.Getenv("VERIF_TIER") == "thorough") {
		if only != "" && sc.String() != only {
			continue
		}
		res := "err"
		run := func() {
			defer func() {
				if r := recover(); r != nil {
					res = fmt.Sprintf("violates-panic-%v", r)
				}
			}()
			res = runGuardScenario(sc, seed*100+int(fnv([]byte(sc.String()))%50), realtime)
		}
		if realtime {
			run()
		} else {
			synctest.Test(t, func(*testing.T) { run() })
		}
		fmt.Fprintf(w, "guard %s result=%s\n", sc.String(), res)
	}
}
