// Observe x block-wise x request options (C04 glue level, both tiers): a real udp / tcp client connection registers an
// observation through the convenience API Conn.Observe(ctx, path, f, opts...) with options that select the representation
// (Uri-Query, Accept, Uri-Host); the scripted peer pushes notifications whose bodies need several blocks and serves every
// block by the FULL option set of the request that asks for it (RFC 7959 section 2.6: blocks 1..n of a notification are
// fetched with plain GETs).  The peer puts its ETag on every message / on none / only on the pushed first block / only on
// the answers to plain GETs.  Judge: every notification handed to the application carries the Observe option of its first
// block and exactly the bytes the peer supplied for the registered option set under that sequence number.
// Output lines (file $VERIF_OUT): `observe <transport> <selector> <etag-policy> <blocks> result=<ok|err-…|violates-…>`.
package c04

import (
	"bufio"
	"bytes"
	"context"
	"fmt"
	"os"
	"strconv"
	"strings"
	"sync"
	"testing"
	"testing/synctest"
	"time"

	"github.com/plgd-dev/go-coap/v3/message"
	"github.com/plgd-dev/go-coap/v3/message/codes"
	"github.com/plgd-dev/go-coap/v3/message/pool"
	"github.com/plgd-dev/go-coap/v3/net/blockwise"
	"github.com/plgd-dev/go-coap/v3/net/responsewriter"
	tcpclient "github.com/plgd-dev/go-coap/v3/tcp/client"
	udpclient "github.com/plgd-dev/go-coap/v3/udp/client"
	udpcoder "github.com/plgd-dev/go-coap/v3/udp/coder"
	"verifharness/internal/mem"
)

type obsScenario struct {
	transport string // udp | tcp
	sel       string // none | query | query2 | accept | host | all: what besides the path selects the representation
	etag      string // none | all | push | get: which of the peer's messages carry the ETag of the representation
	nblk      int
}

func (s obsScenario) String() string { return fmt.Sprintf("%s %s %s %d", s.transport, s.sel, s.etag, s.nblk) }

// obsKey: the representation a GET addresses: every option that takes part in selecting it
func obsKey(q *pool.Message) string {
	p, _ := q.Path()
	qs, _ := q.Queries()
	key := p + "?" + strings.Join(qs, "&")
	if v, err := q.GetOptionUint32(message.Accept); err == nil {
		key += fmt.Sprintf("#%d", v)
	}
	if v, err := q.GetOptionBytes(message.URIHost); err == nil {
		key += "@" + string(v)
	}
	return key
}

type obsSeenT struct {
	hasObs bool
	seq    uint32
	body   []byte
}

func runObsScenario(sc obsScenario, seed int) string {
	const u = 16
	n := sc.nblk*u - 5
	rep := func(key string, ver int) []byte {
		return genBody(int(fnv([]byte(key))%150)+seed%40+ver*3, 0, n)
	}
	etagOf := func(key string, ver int) []byte { return []byte{0xe0 + byte(ver), byte(fnv([]byte(key)))} }

	var mu sync.Mutex
	var seen []obsSeenT
	cb := func(m *pool.Message) {
		s := obsSeenT{}
		if v, err := m.Observe(); err == nil {
			s.hasObs, s.seq = true, v
		}
		s.body = readBody(m)
		mu.Lock()
		seen = append(seen, s)
		mu.Unlock()
	}

	var opts message.Options
	add := func(id message.OptionID, v []byte) { opts = append(opts, message.Option{ID: id, Value: v}) }
	switch sc.sel {
	case "query":
		add(message.URIQuery, []byte("v=a"))
	case "query2":
		add(message.URIQuery, []byte("v=a"))
		add(message.URIQuery, []byte("w=1"))
	case "accept":
		add(message.Accept, []byte{42})
	case "host":
		add(message.URIHost, []byte("h1.example"))
	case "all":
		add(message.URIHost, []byte("h1.example"))
		add(message.URIQuery, []byte("v=a"))
		add(message.Accept, []byte{42})
	}

	// ---- the connection under test and the two primitives of the scripted peer
	var send func(m *pool.Message)
	var take func() []*pool.Message
	var observe func(ctx context.Context) (interface{ Cancel(context.Context, ...message.Option) error }, error)
	var closeAll func()
	mid := int32(2000)
	if sc.transport == "udp" {
		cc, us := mem.NewUDPConn(mem.UDPOpts{Blockwise: true, BlockwiseSZX: blockwise.SZX16, BlockwiseTimeout: 5 * time.Second,
			Mutate: func(cfg *udpclient.Config) {
				cfg.Handler = func(*responsewriter.ResponseWriter[*udpclient.Conn], *pool.Message) {}
			}})
		send = func(m *pool.Message) {
			b, err := m.MarshalWithEncoder(udpcoder.DefaultCoder)
			if err != nil {
				panic(err)
			}
			_ = cc.Process(nil, append([]byte(nil), b...))
		}
		take = func() []*pool.Message {
			var out []*pool.Message
			for _, d := range us.TakeSent() {
				q := pool.NewMessage(context.Background())
				if _, err := q.UnmarshalWithDecoder(udpcoder.DefaultCoder, d.Data); err == nil {
					out = append(out, q)
				}
			}
			return out
		}
		observe = func(ctx context.Context) (interface{ Cancel(context.Context, ...message.Option) error }, error) {
			return cc.Observe(ctx, "/c04/obs", cb, opts...)
		}
		closeAll = func() { _ = cc.Close() }
	} else {
		cc, tp, err := mem.NewTCPConn(mem.TCPOpts{Mutate: func(cfg *tcpclient.Config) {
			cfg.BlockwiseEnable = true
			cfg.BlockwiseSZX = blockwise.SZX16
			cfg.BlockwiseTransferTimeout = 5 * time.Second
			cfg.MaxMessageSize = 1152
			cfg.CSMExchangeTimeout = 0
			cfg.Handler = func(*responsewriter.ResponseWriter[*tcpclient.Conn], *pool.Message) {}
		}})
		if err != nil {
			return "err-setup"
		}
		_ = tp.Write(csmBlockwise())
		synctest.Wait()
		tp.TakeFrames()
		send = func(m *pool.Message) { _ = tp.Write(tcpFrame(m)) }
		take = func() []*pool.Message {
			var out []*pool.Message
			for _, fr := range tp.TakeFrames() {
				if q := tcpParse(fr); q != nil {
					out = append(out, q)
				}
			}
			return out
		}
		observe = func(ctx context.Context) (interface{ Cancel(context.Context, ...message.Option) error }, error) {
			return cc.Observe(ctx, "/c04/obs", cb, opts...)
		}
		closeAll = func() { _ = cc.Close(); tp.Close() }
	}

	// ---- the peer
	ver := 0
	var regKey string
	var regTok message.Token
	block := func(tok message.Token, key string, num int, withObs bool, withEtag bool) *pool.Message {
		body := rep(key, ver)
		m := pool.NewMessage(context.Background())
		m.SetCode(codes.Content)
		m.SetToken(tok)
		if withObs {
			m.SetObserve(uint32(2 + ver))
		}
		m.SetContentFormat(message.TextPlain)
		if withEtag {
			m.SetOptionBytes(message.ETag, etagOf(key, ver))
		}
		off := num * u
		if off > len(body) {
			off = len(body)
		}
		end := off + u
		if end > len(body) {
			end = len(body)
		}
		v, _ := blockwise.EncodeBlockOption(blockwise.SZX16, int64(num), end < len(body))
		m.SetOptionUint32(message.Block2, v)
		m.SetOptionUint32(message.Size2, uint32(len(body)))
		m.SetBody(bytes.NewReader(body[off:end]))
		return m
	}
	typed := func(m *pool.Message, q *pool.Message) *pool.Message {
		if sc.transport != "udp" {
			return m
		}
		if q != nil && q.Type() == message.Confirmable {
			m.SetType(message.Acknowledgement)
			m.SetMessageID(q.MessageID())
		} else {
			mid++
			m.SetType(message.NonConfirmable)
			m.SetMessageID(mid)
		}
		return m
	}
	serve := func() {
		for round := 0; round < 200; round++ {
			synctest.Wait()
			qs := take()
			if len(qs) == 0 {
				return
			}
			for _, q := range qs {
				if q.Code() != codes.GET {
					continue
				}
				key := obsKey(q)
				num := 0
				if blk, err := q.GetOptionUint32(message.Block2); err == nil {
					num = int(blk >> 4)
				}
				obsV, errO := q.Observe()
				switch {
				case errO == nil && obsV == 0:
					regKey, regTok = key, append(message.Token(nil), q.Token()...)
					send(typed(block(q.Token(), key, num, true, sc.etag == "all" || sc.etag == "push"), q))
				case errO == nil:
					m := pool.NewMessage(context.Background())
					m.SetCode(codes.Content)
					m.SetToken(q.Token())
					send(typed(m, q))
				default:
					send(typed(block(q.Token(), key, num, false, sc.etag == "all" || sc.etag == "get"), q))
				}
			}
		}
	}

	ctx, cancel := context.WithTimeout(context.Background(), 30*time.Second)
	defer cancel()
	var obs interface{ Cancel(context.Context, ...message.Option) error }
	var oerr error
	done := make(chan struct{})
	go func() {
		defer close(done)
		obs, oerr = observe(ctx)
	}()
	serve()
	<-done
	result := ""
	if oerr != nil {
		result = "err-observe"
	} else {
		for push := 0; push < 2; push++ {
			ver++
			send(typed(block(regTok, regKey, 0, true, sc.etag == "all" || sc.etag == "push"), nil))
			serve()
		}
	}
	synctest.Wait()
	if result == "" {
		mu.Lock()
		got := append([]obsSeenT(nil), seen...)
		mu.Unlock()
		switch {
		case len(got) == 0:
			result = "err-nothing-delivered"
		default:
			for i, s := range got {
				if !s.hasObs {
					result = fmt.Sprintf("violates-notification-%d-of-%d-bytes-handed-over-without-the-Observe-option-of-its-first-block", i, len(s.body))
					break
				}
				v := int(s.seq) - 2
				if v < 0 || v > ver {
					result = fmt.Sprintf("violates-notification-%d-carries-Observe-%d-that-no-first-block-carried", i, s.seq)
					break
				}
				want := rep(regKey, v)
				if !bytes.Equal(s.body, want) {
					d := 0
					for d < len(s.body) && d < len(want) && s.body[d] == want[d] {
						d++
					}
					result = fmt.Sprintf("violates-notification-%d-(Observe-%d)-body-%d-bytes-of-%d-first-difference-at-offset-%d", i, s.seq, len(s.body), len(want), d)
					break
				}
			}
			if result == "" {
				if len(got) == 3 {
					result = "ok"
				} else {
					result = fmt.Sprintf("err-%d-of-3-notifications-delivered", len(got))
				}
			}
		}
	}
	if obs != nil {
		go func() { _ = obs.Cancel(ctx, opts...) }()
		serve()
	}
	cancel()
	closeAll()
	synctest.Wait()
	return result
}

func TestC04Observe(t *testing.T) {
	outp := os.Getenv("VERIF_OUT")
	if outp == "" {
		t.Skip("VERIF_OUT not set")
	}
	seed, _ := strconv.Atoi(os.Getenv("VERIF_SEED"))
	f, err := os.Create(outp)
	if err != nil {
		t.Fatal(err)
	}
	defer f.Close()
	w := bufio.NewWriter(f)
	defer w.Flush()
	only := os.Getenv("VERIF_SCENARIO")
	for _, tr := range []string{"udp", "tcp"} {
		for _, sel := range []string{"none", "query", "query2", "accept", "host", "all"} {
			for _, et := range []string{"none", "all", "push", "get"} {
				for _, nblk := range []int{2, 4} {
					sc := obsScenario{tr, sel, et, nblk}
					if only != "" && sc.String() != only {
						continue
					}
					res := "err"
					synctest.Test(t, func(*testing.T) {
						defer func() {
							if r := recover(); r != nil {
								res = "violates-panic-" + strings.ReplaceAll(fmt.Sprint(r), " ", "_")
							}
						}()
						res = runObsScenario(sc, seed*100+int(fnv([]byte(sc.String()))%50))
					})
					fmt.Fprintf(w, "observe %s result=%s\n", sc.String(), res)
				}
			}
		}
	}
}
