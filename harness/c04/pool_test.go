// Message ownership inside the block-wise layer (C04, and the runs C12 / C13 can judge): a real BlockWise instance over
// a deterministic message pool — a LIFO free list with `Reset` on release, exactly what message/pool does, plus a
// lifecycle trace (acquire / release / handed to the handler) — in scenarios where two goroutines meet inside
// getCachedReceivedMessage, or the expiry sweep runs while a block is being appended.
//
//   racefirst   two goroutines handle the very same first block of token T at the same moment (rendezvous in the
//               pool's AcquireMessage, i.e. between "nothing held for T" and LoadOrStore); then first blocks of other
//               tokens arrive (they take whatever the pool hands out), then all transfers are completed interleaved.
//   sweepappend all blocks but the last have arrived; the last block's payload is read slowly (its goroutine holds the
//               entry) while CheckExpirations runs far in the future; then the block completes.
//   doabort     an application takes its request from the pool and uploads it block-wise through Do; while Do waits for the
//               answer to the first block (the caller still holds the request, Do keeps it registered in the sending
//               cache), the peer's answer makes the continuation fail: a 2.31 Continue without Block1 option
//               (`noblock1`), a 2.31 whose Block1 lies far behind the body (`farblock`), a GET with Block2 under the
//               same token (`getblock2`).  Other transfers then take what the pool hands out; then the call ends and the
//               application looks at its request and releases it.  The request is the caller's all the time: the layer
//               must not release it (the pool would Reset it and hand it to someone else) and the caller's own release
//               must be the only one.
// Judge: every body handed to the handler is exactly the body supplied under its token, once; no message is released
// twice; no message is handed to the handler (or still referenced by a delivery) after it went back to the pool.
// Output: `pool <scenario> result=<ok|violates-…>` in $VERIF_OUT; the lifecycle trace (one line per event,
// `scenario …` / `acq <id>` / `rel <id>` / `dlv <id>`) in $VERIF_TRACE if set.
package c04

import (
	"bufio"
	"bytes"
	"context"
	"fmt"
	"os"
	"strconv"
	"strings"
	"sync"
	"testing"
	"testing/synctest"
	"time"

	"github.com/plgd-dev/go-coap/v3/message"
	"github.com/plgd-dev/go-coap/v3/message/codes"
	"github.com/plgd-dev/go-coap/v3/message/pool"
	"github.com/plgd-dev/go-coap/v3/net/blockwise"
	"github.com/plgd-dev/go-coap/v3/net/responsewriter"
)

type trackPool struct {
	mu      sync.Mutex
	free    []*pool.Message
	ids     map[*pool.Message]int
	out     map[*pool.Message]bool // currently acquired
	owned   map[*pool.Message]bool // acquired by the application itself, which has not released it yet
	trace   []string
	faults  []string
	armed   bool
	waiting int
	gate    chan struct{}
}

func newTrackPool() *trackPool {
	return &trackPool{ids: map[*pool.Message]int{}, out: map[*pool.Message]bool{}, owned: map[*pool.Message]bool{}}
}

func (p *trackPool) id(m *pool.Message) int {
	if v, ok := p.ids[m]; ok {
		return v
	}
	p.ids[m] = len(p.ids) + 1
	return p.ids[m]
}

// arm: the next two acquisitions meet before either returns
func (p *trackPool) arm() {
	p.mu.Lock()
	p.armed, p.waiting, p.gate = true, 0, make(chan struct{})
	p.mu.Unlock()
}

func (p *trackPool) AcquireMessage(ctx context.Context) *pool.Message {
	p.mu.Lock()
	if p.armed {
		p.waiting++
		g := p.gate
		if p.waiting == 2 {
			p.armed = false
			close(g)
		}
		p.mu.Unlock()
		<-g
		p.mu.Lock()
	}
	var m *pool.Message
	if n := len(p.free); n > 0 {
		m = p.free[n-1]
		p.free = p.free[:n-1]
		m.SetContext(ctx)
	} else {
		m = pool.NewMessage(ctx)
	}
	p.out[m] = true
	p.trace = append(p.trace, fmt.Sprintf("acq %d", p.id(m)))
	p.mu.Unlock()
	return m
}

func (p *trackPool) ReleaseMessage(m *pool.Message) {
	p.mu.Lock()
	defer p.mu.Unlock()
	_, known := p.ids[m]
	p.trace = append(p.trace, fmt.Sprintf("rel %d", p.id(m)))
	if known && !p.out[m] {
		p.faults = append(p.faults, fmt.Sprintf("message-%d-released-twice", p.id(m)))
		return
	}
	if p.owned[m] {
		p.faults = append(p.faults, fmt.Sprintf("message-%d-released-by-the-layer-while-its-owner-the-caller-of-Do-still-holds-it", p.id(m)))
	}
	// (a message the harness made itself — the response writer's first message — is adopted by the pool on its release)
	delete(p.out, m)
	m.Reset()
	p.free = append(p.free, m)
}

// acquireOwned / releaseOwned: the application's own message (e.g. the request it passes to Do)
func (p *trackPool) acquireOwned(ctx context.Context) *pool.Message {
	m := p.AcquireMessage(ctx)
	p.mu.Lock()
	p.owned[m] = true
	p.mu.Unlock()
	return m
}

func (p *trackPool) releaseOwned(m *pool.Message) {
	p.mu.Lock()
	delete(p.owned, m)
	p.mu.Unlock()
	p.ReleaseMessage(m)
}

func (p *trackPool) delivered(m *pool.Message) {
	p.mu.Lock()
	defer p.mu.Unlock()
	p.trace = append(p.trace, fmt.Sprintf("dlv %d", p.id(m)))
	if _, known := p.ids[m]; known && !p.out[m] {
		p.faults = append(p.faults, fmt.Sprintf("handler-got-message-%d-that-is-back-in-the-pool", p.id(m)))
	}
}

type poolScenario struct {
	kind  string // racefirst | sweepappend | doabort
	dir   string // up | down; doabort: the answer that makes the continuation fail (noblock1 | farblock | getblock2)
	nblk  int
	other int // number of other tokens whose transfers run alongside
}

func (s poolScenario) String() string { return fmt.Sprintf("%s %s %d %d", s.kind, s.dir, s.nblk, s.other) }

func runPoolScenario(sc poolScenario, seed int) (string, []string) {
	const u = 16
	tp := newTrackPool()
	bw := blockwise.New(tp, time.Minute, func(error) {}, nil)
	ntok := 1 + sc.other
	toks := make([]message.Token, ntok)
	bodies := make([][]byte, ntok)
	for i := range toks {
		toks[i] = message.Token{0x50, byte(i + 1), byte(seed)}
		bodies[i] = genBody(seed+31*i, 0, (sc.nblk-1)*u+3+i)
	}
	var mu sync.Mutex
	got := map[string][][]byte{}
	handler := func(w *responsewriter.ResponseWriter[*trackPool], r *pool.Message) {
		tp.delivered(r)
		b := readBody(r)
		time.Sleep(time.Millisecond)
		again := readBody(r)
		mu.Lock()
		k := string(r.Token())
		got[k] = append(got[k], append([]byte(nil), b...))
		if !bytes.Equal(b, again) {
			got[k] = append(got[k], append([]byte(nil), again...))
		}
		mu.Unlock()
		if sc.dir == "up" || sc.kind == "doabort" {
			_ = w.SetResponse(codes.Changed, message.TextPlain, nil)
		}
	}
	handle := func(m *pool.Message) {
		resp := pool.NewMessage(context.Background()) // the harness's own messages do not come from the tracked pool
		resp.SetToken(m.Token())
		w := responsewriter.New(resp, tp, m.Options()...)
		bw.Handle(w, m, blockwise.SZX16, 1152, handler)
	}
	ctx, cancel := context.WithCancel(context.Background())
	defer cancel()
	if sc.dir == "down" {
		for i := range toks {
			req := pool.NewMessage(ctx)
			req.SetCode(codes.GET)
			req.SetToken(toks[i])
			_ = req.SetPath("/c04/pool")
			started := make(chan struct{})
			go func() {
				_, _ = bw.Do(req, blockwise.SZX16, 1152, func(*pool.Message) (*pool.Message, error) {
					close(started)
					<-ctx.Done()
					return nil, ctx.Err()
				})
			}()
			<-started
		}
	}
	blk := func(i, num int) *pool.Message { return guardBlock(sc.dir, toks[i], bodies[i], num, sc.nblk, "p", nil) }
	var wg sync.WaitGroup
	panicked := ""
	spawn := func(f func()) {
		wg.Add(1)
		go func() {
			defer wg.Done()
			defer func() {
				if r := recover(); r != nil {
					mu.Lock()
					panicked = strings.ReplaceAll(fmt.Sprint(r), " ", "_")
					mu.Unlock()
				}
			}()
			f()
		}()
	}
	switch sc.kind {
	case "doabort":
		req := tp.acquireOwned(ctx)
		req.SetCode(codes.PUT)
		req.SetToken(toks[0])
		_ = req.SetPath("/c04/pool")
		req.SetContentFormat(message.TextPlain)
		req.SetBody(bytes.NewReader(bodies[0]))
		started := make(chan struct{})
		doDone := make(chan struct{})
		go func() {
			defer close(doDone)
			_, _ = bw.Do(req, blockwise.SZX16, 1152, func(*pool.Message) (*pool.Message, error) {
				close(started)
				<-ctx.Done()
				return nil, ctx.Err()
			})
		}()
		<-started
		ans := pool.NewMessage(context.Background())
		ans.SetToken(toks[0])
		switch sc.dir {
		case "noblock1":
			ans.SetCode(codes.Continue)
		case "farblock":
			ans.SetCode(codes.Continue)
			v, _ := blockwise.EncodeBlockOption(blockwise.SZX16, 70000, true)
			ans.SetOptionUint32(message.Block1, v)
		default:
			ans.SetCode(codes.GET)
			v, _ := blockwise.EncodeBlockOption(blockwise.SZX16, 1, false)
			ans.SetOptionUint32(message.Block2, v)
		}
		spawn(func() { handle(ans) })
		wg.Wait()
		synctest.Wait()
		// other transfers take what the pool hands out
		for num := 0; num < sc.nblk; num++ {
			for i := 1; i < ntok; i++ {
				handle(guardBlock("up", toks[i], bodies[i], num, sc.nblk, "p", nil))
			}
		}
		// the call ends (its context is cancelled); the application looks at its request and gives it back
		cancel()
		<-doDone
		synctest.Wait()
		if req.Code() != codes.PUT || !bytes.Equal(req.Token(), toks[0]) || !bytes.Equal(readBody(req), bodies[0]) {
			tp.mu.Lock()
			tp.faults = append(tp.faults, fmt.Sprintf("request-%d-of-the-caller-of-Do-was-reset-or-reused-while-the-caller-held-it", tp.id(req)))
			tp.mu.Unlock()
		}
		tp.releaseOwned(req)
	case "racefirst":
		tp.arm()
		spawn(func() { handle(blk(0, 0)) })
		spawn(func() { handle(blk(0, 0)) })
		wg.Wait()
		// first blocks of the other transfers: they take what the pool hands out
		for i := 1; i < ntok; i++ {
			handle(blk(i, 0))
		}
		for num := 1; num < sc.nblk; num++ {
			for i := 0; i < ntok; i++ {
				handle(blk((i+num)%ntok, num))
			}
		}
	case "sweepappend":
		for i := 1; i < ntok; i++ {
			handle(blk(i, 0))
		}
		for num := 0; num < sc.nblk-1; num++ {
			handle(blk(0, num))
		}
		gr := &gatedReader{data: bytes.NewReader(bodies[0][(sc.nblk-1)*u:]), reading: make(chan struct{}), release: make(chan struct{})}
		spawn(func() { handle(guardBlock(sc.dir, toks[0], bodies[0], sc.nblk-1, sc.nblk, "p", gr)) })
		<-gr.reading
		// the housekeeping tick, long after every transfer's validity
		bw.CheckExpirations(time.Now().Add(2 * time.Hour))
		synctest.Wait()
		// new transfers start in the meantime (they take what the pool hands out)
		for i := 1; i < ntok; i++ {
			handle(blk(i, 0))
		}
		close(gr.release)
		wg.Wait()
		for num := 1; num < sc.nblk; num++ {
			for i := 1; i < ntok; i++ {
				handle(blk(i, num))
			}
		}
	}
	wg.Wait()
	cancel()
	synctest.Wait()
	tp.mu.Lock()
	trace := append([]string(nil), tp.trace...)
	faults := append([]string(nil), tp.faults...)
	tp.mu.Unlock()
	mu.Lock()
	defer mu.Unlock()
	if panicked != "" {
		return "violates-panic-" + panicked, trace
	}
	for i := range toks {
		if sc.kind == "doabort" && i == 0 {
			continue // the aborted upload of this side: nothing is delivered here
		}
		bs := got[string(toks[i])]
		for _, b := range bs {
			if !bytes.Equal(b, bodies[i]) {
				return fmt.Sprintf("violates-token-%d-handler-got-%d-bytes-not-the-%d-supplied", i, len(b), len(bodies[i])), trace
			}
		}
		if len(bs) > 1 {
			return fmt.Sprintf("violates-token-%d-delivered-%d-times", i, len(bs)), trace
		}
		if len(bs) == 0 && !(sc.kind == "sweepappend" && i > 0) {
			// every block of the transfer was handed over in order: it has to complete
			// (transfers started before the far-future sweep are legitimately gone, except the one being appended)
			return fmt.Sprintf("violates-token-%d-never-delivered", i), trace
		}
	}
	if len(faults) > 0 {
		return "violates-" + faults[0], trace
	}
	return "ok", trace
}

func TestC04Pool(t *testing.T) {
	outp := os.Getenv("VERIF_OUT")
	if outp == "" {
		t.Skip("VERIF_OUT not set")
	}
	seed, _ := strconv.Atoi(os.Getenv("VERIF_SEED"))
	f, err := os.Create(outp)
	if err != nil {
		t.Fatal(err)
	}
	defer f.Close()
	w := bufio.NewWriter(f)
	defer w.Flush()
	var tw *bufio.Writer
	if tp := os.Getenv("VERIF_TRACE"); tp != "" {
		tf, err := os.Create(tp)
		if err != nil {
			t.Fatal(err)
		}
		defer tf.Close()
		tw = bufio.NewWriter(tf)
		defer tw.Flush()
	}
	only := os.Getenv("VERIF_SCENARIO")
	for _, kind := range []string{"racefirst", "sweepappend", "doabort"} {
		dirs := []string{"up", "down"}
		if kind == "doabort" {
			dirs = []string{"noblock1", "farblock", "getblock2"}
		}
		for _, dir := range dirs {
			for _, nblk := range []int{2, 3, 4} {
				for _, other := range []int{0, 1, 3} {
					sc := poolScenario{kind, dir, nblk, other}
					if only != "" && sc.String() != only {
						continue
					}
					res := "err"
					var trace []string
					synctest.Test(t, func(*testing.T) {
						defer func() {
							if r := recover(); r != nil {
								res = "violates-panic-" + strings.ReplaceAll(fmt.Sprint(r), " ", "_")
							}
						}()
						res, trace = runPoolScenario(sc, seed*100+int(fnv([]byte(sc.String()))%50))
					})
					fmt.Fprintf(w, "pool %s result=%s\n", sc.String(), res)
					if tw != nil {
						fmt.Fprintf(tw, "scenario %s\n", sc.String())
						for _, l := range trace {
							fmt.Fprintln(tw, l)
						}
					}
				}
			}
		}
	}
}
