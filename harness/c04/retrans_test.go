// Concurrent block-wise uploads over ONE real datagram connection whose peer gets a RETRANSMISSION of a block
// (C04: "Duplicated … blocks never corrupt, truncate or extend a body, and concurrent transfers with different tokens
// never mix").
//
// Two or three applications upload different bodies (POST, Block1, 3 blocks of 16 bytes, different paths — the connection
// draws a token for each) through one udp client.Conn (in-memory session, virtual clock) with NSTART 1 or 2 to a real peer
// connection.  The relay loses ONE datagram: the first block of the idx-th upload on its way to the peer (`ab`: the peer never
// sees the original and gets the retransmission the connection makes from the copy it kept when the block was first
// written) or the first answer to the idx-th upload on its way back (`ba`: the peer sees the block again; uploads are told
// apart by their tokens on the wire).  Later blocks are not lost on purpose: the connection writes them without keeping a
// copy (`writeMessageAsync`), a lost one ends the upload with its deadline - an error, which the property allows.
// The second and third upload
// are started when the first one's first block is on its way (`staggered`: their first blocks are prepared while the first
// upload waits for its acknowledgement — queued behind NSTART, or sent) or all at the same instant (`together`).  The
// acknowledgement timeout passes on the virtual clock; the periodic tick drives the retransmission as udp.Client's runner
// does.  The test pins GOMAXPROCS to 1 so that whatever is recycled through a sync.Pool is recycled in the same order in
// every run.
// Judge: every body the peer's application is handed under a path is exactly the body supplied for that path, at most
// once; an upload whose Post returned 2.04 was handed on exactly once; a Post may end with an error.
// Output: `retrans <nstart> <dir> <idx> <start> <nupl> result=<ok|err…|violates-…>` in $VERIF_OUT.
package c04

import (
	"bufio"
	"bytes"
	"context"
	"fmt"
	"os"
	"runtime"
	"strconv"
	"strings"
	"sync"
	"testing"
	"testing/synctest"
	"time"

	"github.com/plgd-dev/go-coap/v3/message"
	"github.com/plgd-dev/go-coap/v3/message/codes"
	"github.com/plgd-dev/go-coap/v3/message/pool"
	"github.com/plgd-dev/go-coap/v3/net/blockwise"
	"github.com/plgd-dev/go-coap/v3/net/responsewriter"
	udpclient "github.com/plgd-dev/go-coap/v3/udp/client"
	"verifharness/internal/mem"
)

type retransScenario struct {
	nstart int
	dir    string // ab: a datagram of the caller is lost | ba: a datagram of the peer is lost
	idx    int    // of which upload (1 = the upload whose first block reached the wire first): the first datagram in that direction with its token
	start  string // staggered | together
	nupl   int
}

func (s retransScenario) String() string {
	return fmt.Sprintf("%d %s %d %s %d", s.nstart, s.dir, s.idx, s.start, s.nupl)
}

func runRetransScenario(t *testing.T, sc retransScenario, seed int) string {
	result := "err"
	synctest.Test(t, func(t *testing.T) {
		const u = 16
		bodies := make([][]byte, sc.nupl)
		paths := make([]string, sc.nupl)
		for i := range bodies {
			bodies[i] = genBody(seed+37*i+1, 0, 2*u+5+i)
			paths[i] = fmt.Sprintf("/c04/up/%d", i)
		}
		var mu sync.Mutex
		got := map[string][][]byte{}

		var a, b *udpclient.Conn
		var sa, sb *mem.UDPSession
		type dg struct {
			dir  string
			data []byte
		}
		ch := make(chan dg, 1024)
		done := make(chan struct{})
		lost := 0
		go func() {
			// the idx-th distinct token seen on the wire belongs to the idx-th upload that got a datagram out; the one datagram
			// that is lost is the first in direction sc.dir that carries it: the upload's first block, or the first answer to it
			var toks []string
			for {
				select {
				case d := <-ch:
					tok := ""
					if len(d.data) >= 4 && len(d.data) >= 4+int(d.data[0]&0x0f) {
						tok = string(d.data[4 : 4+int(d.data[0]&0x0f)])
					}
					ord := 0
					for i, x := range toks {
						if x == tok {
							ord = i + 1
						}
					}
					if ord == 0 && tok != "" {
						toks = append(toks, tok)
						ord = len(toks)
					}
					if os.Getenv("VERIF_DEBUG") != "" {
						fmt.Fprintf(os.Stderr, "%v %s tok#%d %x\n", time.Now().Format("05.000"), d.dir, ord, d.data)
					}
					if d.dir == sc.dir && ord == sc.idx && lost == 0 {
						lost++
						continue
					}
					if d.dir == "ab" {
						_ = b.Process(nil, d.data)
					} else {
						_ = a.Process(nil, d.data)
					}
				case <-done:
					return
				}
			}
		}()
		a, sa = mem.NewUDPConn(mem.UDPOpts{Blockwise: true, BlockwiseSZX: blockwise.SZX16, BlockwiseTimeout: 5 * time.Second,
			Mutate: func(cfg *udpclient.Config) {
				cfg.TransmissionNStart = uint32(sc.nstart)
				// several requests of one application at a time (the default of 1 would queue the uploads one behind the other)
				cfg.LimitClientParallelRequests = 8
				cfg.LimitClientEndpointParallelRequests = 8
			}})
		b, sb = mem.NewUDPConn(mem.UDPOpts{Blockwise: true, BlockwiseSZX: blockwise.SZX16, BlockwiseTimeout: 5 * time.Second,
			Mutate: func(cfg *udpclient.Config) {
				cfg.Handler = func(w *responsewriter.ResponseWriter[*udpclient.Conn], r *pool.Message) {
					p, _ := r.Path()
					body := append([]byte(nil), readBody(r)...)
					mu.Lock()
					got[p] = append(got[p], body)
					mu.Unlock()
					_ = w.SetResponse(codes.Changed, message.TextPlain, nil)
				}
			}})
		go func() {
			for {
				select {
				case <-done:
					return
				case <-time.After(100 * time.Millisecond):
					now := time.Now()
					a.CheckExpirations(now)
					b.CheckExpirations(now)
				}
			}
		}()
		sa.OnWrite = func(data []byte) { ch <- dg{"ab", data} }
		sb.OnWrite = func(data []byte) { ch <- dg{"ba", data} }
		synctest.Wait()

		ctx, cancel := context.WithTimeout(context.Background(), 60*time.Second)
		defer cancel()
		type res struct {
			code  codes.Code
			err   error
			panic string
		}
		out := make([]res, sc.nupl)
		var wg sync.WaitGroup
		for i := range bodies {
			wg.Add(1)
			go func() {
				defer wg.Done()
				defer func() {
					if r := recover(); r != nil {
						out[i].panic = strings.ReplaceAll(fmt.Sprint(r), " ", "_")
					}
				}()
				resp, err := a.Post(ctx, paths[i], message.AppOctets, bytes.NewReader(bodies[i]))
				if err != nil {
					out[i].err = err
					return
				}
				out[i].code = resp.Code()
			}()
			if sc.start == "staggered" {
				synctest.Wait() // the upload's first block is on its way (or lost, or queued)
			}
		}
		wg.Wait()
		time.Sleep(10 * time.Second) // late retransmissions and their answers
		synctest.Wait()
		_ = a.Close()
		_ = b.Close()
		close(done)
		synctest.Wait()

		mu.Lock()
		defer mu.Unlock()
		result = "ok"
		nerr := 0
		for i := range bodies {
			if out[i].panic != "" {
				result = "violates-panic-" + out[i].panic
				return
			}
			bs := got[paths[i]]
			for _, body := range bs {
				if !bytes.Equal(body, bodies[i]) {
					whose := ""
					for j := range bodies {
						d := firstDiff(body, bodies[i])
						if j != i && d < len(body) && d < len(bodies[j]) && body[d] == bodies[j][d] {
							whose = fmt.Sprintf("-where-upload-%d-has-that-byte", j)
						}
					}
					result = fmt.Sprintf("violates-upload-%d-handed-the-receiver-%d-bytes-first-difference-at-offset-%d-of-%d-supplied%s",
						i, len(body), firstDiff(body, bodies[i]), len(bodies[i]), whose)
					return
				}
			}
			if len(bs) > 1 {
				result = fmt.Sprintf("violates-upload-%d-handed-on-%d-times", i, len(bs))
				return
			}
			if out[i].err != nil || out[i].code != codes.Changed {
				if os.Getenv("VERIF_DEBUG") != "" {
					fmt.Fprintf(os.Stderr, "upload %d: code %v err %v\n", i, out[i].code, out[i].err)
				}
				nerr++
				continue
			}
			if len(bs) == 0 {
				result = fmt.Sprintf("violates-upload-%d-returned-2.04-but-nothing-was-handed-on", i)
				return
			}
		}
		if nerr > 0 {
			result = fmt.Sprintf("err-%d-of-%d-uploads-failed", nerr, sc.nupl)
		}
		if lost == 0 && result == "ok" {
			result = "ok-nothing-lost"
		}
	})
	return result
}

func retransScenarios() []retransScenario {
	var out []retransScenario
	for _, nstart := range []int{1, 2} {
		for _, dir := range []string{"ab", "ba"} {
			for _, nupl := range []int{2, 3} {
				for idx := 1; idx <= nupl; idx++ {
					for _, start := range []string{"staggered", "together"} {
						out = append(out, retransScenario{nstart, dir, idx, start, nupl})
					}
				}
			}
		}
	}
	return out
}

func TestC04Retrans(t *testing.T) {
	outp := os.Getenv("VERIF_OUT")
	if outp == "" {
		t.Skip("VERIF_OUT not set")
	}
	defer runtime.GOMAXPROCS(runtime.GOMAXPROCS(1))
	seed, _ := strconv.Atoi(os.Getenv("VERIF_SEED"))
	f, err := os.Create(outp)
	if err != nil {
		t.Fatal(err)
	}
	defer f.Close()
	w := bufio.NewWriter(f)
	defer w.Flush()
	only := os.Getenv("VERIF_SCENARIO") // replay: "<nstart> <dir> <idx> <start> <nupl>"
	for _, sc := range retransScenarios() {
		if only != "" && sc.String() != only {
			continue
		}
		res := runRetransScenario(t, sc, seed*100+int(fnv([]byte(sc.String()))%50))
		fmt.Fprintf(w, "retrans %s result=%s\n", sc.String(), res)
	}
}
