// Harness for C05 (MID de-duplication): one scenario per input line, run on a real udp/client.Conn
// over the in-memory session inside a testing/synctest bubble.
//
//	own <getmid> [<level>] | recv <con|non> <mid> <tokhex> <beh>[.<code>] | par <k> <con|non> <mid> <tokhex> <beh>[.<code>]
//	  | blk <con|non> <mid> <tokhex> <dur> <k> <con|non> | sleep <ns> | tick | flush | newconn
//
// level: how the connection under test comes into being —
//
//	hand     (default) udp/client.NewConnWithOpts over the in-memory session, configuration written by hand
//	dtlssrv  accepted by a real dtls.Server (dtls/server: createConn, Session) serving an in-memory listener; the
//	         peer is the other end of a net.Pipe (one Write = one datagram); `tick` is the function the server
//	         hands to its periodic runner
//	udpsrv   (TestC05UDPServer, real loopback sockets, real time, no synctest) made by a real udp.Server listening on
//	         0.0.0.0 (udp/server: getOrCreateConn, peer table); `newconn` = the application calls Server.NewConn(peer);
//	         only confirmable requests with behaviours that answer at once (every copy gets exactly one datagram)
//
// beh: hjm / hjr = the handler hijacks its request and re-uses it under another message ID and type, then answers like pb /
// releases it to the pool at once and answers like none;
// pb (2.05 + payload = handler invocation number), pbe (4.04, no payload), none, sep (no
// response through the writer; a NON response is sent by `flush`), empty (code 0.00), rst (the handler sets type Reset), rstc (Reset
// with code 4.04), ox / oc / oxc (like pb plus unknown elective / critical / both kinds of option numbers), ov-<id>-<len> (like pb
// plus option number <id> with a value of <len> bytes).  `.<code>`: the
// request's code (default 1 = GET; 5 FETCH, 6 PATCH, 7 iPATCH, 8 and 31 unassigned).  Datagrams are decoded by the harness's own
// parser (rawParse), not by the library's.
// blk: the handler first writes a confirmable message of its own (blocks until it is acknowledged,
// the reader loop is replaced) and then answers like pb; k copies arrive while it is blocked.
// Output: one segment per op, `h=<invocation numbers> s=<datagrams written>` (both sorted).
package c05

import (
	"bufio"
	"bytes"
	"context"
	"fmt"
	"net"
	"runtime"
	"sort"
	"strconv"
	"strings"
	"sync"
	"testing"
	"testing/synctest"
	"time"

	coapdtls "github.com/plgd-dev/go-coap/v3/dtls"
	dtlsserver "github.com/plgd-dev/go-coap/v3/dtls/server"
	"github.com/plgd-dev/go-coap/v3/message"
	"github.com/plgd-dev/go-coap/v3/message/codes"
	"github.com/plgd-dev/go-coap/v3/message/pool"
	"github.com/plgd-dev/go-coap/v3/net/responsewriter"
	"github.com/plgd-dev/go-coap/v3/options"
	udpclient "github.com/plgd-dev/go-coap/v3/udp/client"
	udpcoder "github.com/plgd-dev/go-coap/v3/udp/coder"
	"verifharness/internal/lp"
	"verifharness/internal/mem"
)

func typeName(t message.Type) string {
	switch t {
	case message.Confirmable:
		return "con"
	case message.NonConfirmable:
		return "non"
	case message.Acknowledgement:
		return "ack"
	case message.Reset:
		return "rst"
	}
	return fmt.Sprintf("t%d", int(t))
}

func parseType(s string) message.Type {
	if s == "con" {
		return message.Confirmable
	}
	return message.NonConfirmable
}

// splitBeh: a behaviour word may carry the request's code, `pb.5` = behaviour pb, request code 0.05 (FETCH); default GET.
func splitBeh(b string) (string, codes.Code) {
	if i := strings.IndexByte(b, '.'); i >= 0 {
		c, _ := strconv.Atoi(b[i+1:])
		return b[:i], codes.Code(c)
	}
	return b, codes.GET
}

func buildReq(typ message.Type, mid int32, tok []byte, behWord string) []byte {
	beh, code := splitBeh(behWord)
	m := pool.NewMessage(context.Background())
	m.SetCode(code)
	m.SetToken(tok)
	m.SetType(typ)
	m.SetMessageID(mid)
	if err := m.SetPath("/" + beh); err != nil {
		panic(err)
	}
	b, err := m.MarshalWithEncoder(udpcoder.DefaultCoder)
	if err != nil {
		panic(err)
	}
	return append([]byte(nil), b...)
}

func buildAck(mid int32) []byte {
	m := pool.NewMessage(context.Background())
	m.SetCode(codes.Empty)
	m.SetType(message.Acknowledgement)
	m.SetMessageID(mid)
	b, err := m.MarshalWithEncoder(udpcoder.DefaultCoder)
	if err != nil {
		panic(err)
	}
	return append([]byte(nil), b...)
}

// link is the path between the harness ("the peer") and the connection under test.
type link struct {
	inject   func(data []byte)   // a datagram from the peer arrives
	takeSent func() [][]byte     // datagrams the connection has written since the last call
	tick     func(now time.Time) // housekeeping
	close    func()
}

type scenario struct {
	cc      *udpclient.Conn
	lk      link
	mu      sync.Mutex
	counter int
	hlog    []int
	sep     []sepResp
	autoAck bool    // acknowledge the handler's own confirmable writes as soon as they are written
	unacked []int32 // MIDs of such writes made while autoAck was off
}

type sepResp struct {
	tok []byte
	n   int
}

func (sc *scenario) handler(w *responsewriter.ResponseWriter[*udpclient.Conn], r *pool.Message) {
	if p, err := r.Path(); err == nil && p == "/other" {
		// traffic of other peers (level udpsrv): answered, not part of the observed history
		_ = w.SetResponse(codes.Valid, message.TextPlain, nil)
		return
	}
	sc.mu.Lock()
	sc.counter++
	n := sc.counter
	sc.hlog = append(sc.hlog, n)
	sc.mu.Unlock()
	p, _ := r.Path()
	tok := append([]byte(nil), r.Token()...)
	if id, ln, ok := parseOv(strings.TrimPrefix(p, "/")); ok {
		// ov-<id>-<len>: like pb, and the reply carries one more option: number <id> with a value of <len> bytes (a legal
		// length for that option by its RFC; the lengths are the generator's business).  Whatever the first copy got, a
		// duplicate must get too - the cached reply travels through the library's encoder AND decoder.
		_ = w.SetResponse(codes.Content, message.TextPlain, bytes.NewReader([]byte(strconv.Itoa(n))))
		w.Message().AddOptionBytes(message.OptionID(id), seqBytes(ln, 0x21))
		return
	}
	switch strings.TrimPrefix(p, "/") {
	case "pb":
		_ = w.SetResponse(codes.Content, message.TextPlain, bytes.NewReader([]byte(strconv.Itoa(n))))
	case "pbe":
		_ = w.SetResponse(codes.NotFound, message.TextPlain, nil)
	case "none":
	case "hjm":
		// the handler takes the request over and re-uses it (e.g. forwards it upstream under another message ID and type)
		// before it answers like pb: reply and cache entry must still belong to the request as it ARRIVED
		r.Hijack()
		r.SetMessageID(int32((int(r.MessageID()) + 4097) & 0xffff))
		r.SetType(message.NonConfirmable)
		_ = w.SetResponse(codes.Content, message.TextPlain, bytes.NewReader([]byte(strconv.Itoa(n))))
	case "hjr":
		// the handler takes the request over and gives it back to the pool at once; it answers like none
		r.Hijack()
		w.Conn().ReleaseMessage(r)
	case "sep":
		sc.mu.Lock()
		sc.sep = append(sc.sep, sepResp{tok, n})
		sc.mu.Unlock()
	case "empty":
		_ = w.SetResponse(codes.Empty, message.TextPlain, nil)
	case "rst":
		// the handler rejects the request: a bare Reset (code stays 0.00)
		w.Message().SetType(message.Reset)
	case "rstc":
		// a Reset that carries a response code
		_ = w.SetResponse(codes.NotFound, message.TextPlain, nil)
		w.Message().SetType(message.Reset)
	case "ox", "oc", "oxc":
		// like pb, and the reply carries option numbers the library does not know: elective ones (even: Echo 252, Request-Tag 292
		// twice - empty and long -, a vendor number with a 300 byte value) and / or critical ones (odd: 2049 twice, 65001)
		_ = w.SetResponse(codes.Content, message.TextPlain, bytes.NewReader([]byte(strconv.Itoa(n))))
		for _, o := range unknownOpts(strings.TrimPrefix(p, "/")) {
			w.Message().AddOptionBytes(message.OptionID(o.id), o.val)
		}
	case "blk":
		cc := w.Conn()
		m := cc.AcquireMessage(cc.Context())
		m.SetType(message.Confirmable)
		m.SetCode(codes.Content)
		m.SetToken(append(append([]byte(nil), tok...), 0xee))
		m.SetBody(bytes.NewReader([]byte(strconv.Itoa(n))))
		_ = cc.WriteMessage(m) // blocks until acknowledged
		cc.ReleaseMessage(m)
		_ = w.SetResponse(codes.Content, message.TextPlain, bytes.NewReader([]byte(strconv.Itoa(n))))
	}
}

// parseOv: the behaviour word ov-<id>-<len>.
func parseOv(w string) (id, ln int, ok bool) {
	f := strings.Split(w, "-")
	if len(f) != 3 || f[0] != "ov" {
		return 0, 0, false
	}
	id, e1 := strconv.Atoi(f[1])
	ln, e2 := strconv.Atoi(f[2])
	return id, ln, e1 == nil && e2 == nil && id >= 0 && id < 65536 && ln >= 0 && ln <= 1100
}

type rawOpt struct {
	id  int
	val []byte
}

func seqBytes(n int, start byte) []byte {
	b := make([]byte, n)
	for i := range b {
		b[i] = start + byte(i)
	}
	return b
}

// unknownOpts: the options (in the order of their numbers) the handler kinds ox / oc / oxc add to their reply.
func unknownOpts(kind string) []rawOpt {
	el := []rawOpt{{252, seqBytes(8, 0x10)}, {292, nil}, {292, seqBytes(20, 0x40)}, {65000, seqBytes(300, 0)}}
	cr := []rawOpt{{2049, []byte("ab")}, {2049, nil}, {65001, seqBytes(14, 0x70)}}
	switch kind {
	case "ox":
		return el
	case "oc":
		return cr
	}
	return []rawOpt{el[0], el[1], el[2], cr[0], cr[1], el[3], cr[2]}
}

// rawParse decodes a CoAP datagram without the library's decoder (which is part of what is under test: the reply to a
// duplicate is re-decoded from the response cache): header, token, every option as it is on the wire, payload.
func rawParse(d []byte) (typ message.Type, code int, mid int, tok []byte, opts []rawOpt, pay []byte, ok bool) {
	if len(d) < 4 || d[0]>>6 != 1 {
		return
	}
	typ = message.Type((d[0] >> 4) & 3)
	tkl := int(d[0] & 0xf)
	code = int(d[1])
	mid = int(d[2])<<8 | int(d[3])
	if tkl > 8 || len(d) < 4+tkl {
		return
	}
	tok = d[4 : 4+tkl]
	i := 4 + tkl
	id := 0
	ext := func(v int) (int, bool) {
		switch v {
		case 13:
			if i >= len(d) {
				return 0, false
			}
			i++
			return int(d[i-1]) + 13, true
		case 14:
			if i+1 >= len(d) {
				return 0, false
			}
			i += 2
			return (int(d[i-2])<<8 | int(d[i-1])) + 269, true
		case 15:
			return 0, false
		}
		return v, true
	}
	for i < len(d) {
		if d[i] == 0xff {
			pay = d[i+1:]
			if len(pay) == 0 {
				return
			}
			break
		}
		b := d[i]
		i++
		delta, ok1 := ext(int(b >> 4))
		if !ok1 {
			return
		}
		ln, ok2 := ext(int(b & 0xf))
		if !ok2 || i+ln > len(d) {
			return
		}
		id += delta
		opts = append(opts, rawOpt{id, d[i : i+ln]})
		i += ln
	}
	ok = true
	return
}

func fmtRawOpts(opts []rawOpt) string {
	if len(opts) == 0 {
		return "-"
	}
	parts := make([]string, len(opts))
	for i, o := range opts {
		parts[i] = fmt.Sprintf("%d=%s", o.id, lp.Hex(o.val))
	}
	return strings.Join(parts, "+")
}

// observe returns the segment for what happened since the last observation.
func (sc *scenario) observe() string {
	sc.mu.Lock()
	h := sc.hlog
	sc.hlog = nil
	sc.mu.Unlock()
	hs := "-"
	if len(h) > 0 {
		sort.Ints(h)
		p := make([]string, len(h))
		for i, x := range h {
			p[i] = strconv.Itoa(x)
		}
		hs = strings.Join(p, ",")
	}
	var ds []string
	for _, d := range sc.lk.takeSent() {
		typ, code, mid, tok, opts, body, ok := rawParse(d)
		if !ok {
			ds = append(ds, "undecodable")
			continue
		}
		ds = append(ds, fmt.Sprintf("%s:%d:%d:%s:%s:%s", typeName(typ), code, mid, lp.Hex(tok), fmtRawOpts(opts), lp.Hex(body)))
	}
	sort.Strings(ds)
	ss := "-"
	if len(ds) > 0 {
		ss = strings.Join(ds, ",")
	}
	return "h=" + hs + " s=" + ss
}

// onWrite is the session's write hook: the handler's own confirmable message (token ending in 0xee) is
// acknowledged by the "peer" at once, unless the current op wants the handler to stay blocked for a while.
// (A goroutine waiting for the per-MID mutex is not durably blocked for synctest; with every blocked handler
// released automatically such waits always resolve and synctest.Wait stays usable.)
func (sc *scenario) onWrite(data []byte) {
	m := pool.NewMessage(context.Background())
	if _, err := m.UnmarshalWithDecoder(udpcoder.DefaultCoder, data); err != nil {
		return
	}
	t := m.Token()
	if m.Type() != message.Confirmable || len(t) == 0 || t[len(t)-1] != 0xee {
		return
	}
	mid := m.MessageID()
	sc.mu.Lock()
	auto := sc.autoAck
	if !auto {
		sc.unacked = append(sc.unacked, mid)
	}
	sc.mu.Unlock()
	if auto {
		go func() { sc.lk.inject(buildAck(mid)) }()
	}
}

// handLink: the connection is built by hand over the in-memory session.
func (sc *scenario) handLink(getmid int32) {
	var s *mem.UDPSession
	sc.cc, s = mem.NewUDPConn(mem.UDPOpts{Mutate: func(cfg *udpclient.Config) {
		cfg.Handler = sc.handler
		cfg.GetMID = func() int32 { return getmid }
	}})
	s.OnWrite = sc.onWrite
	sc.lk = link{
		inject: func(d []byte) { _ = sc.cc.Process(nil, d) },
		takeSent: func() [][]byte {
			var out [][]byte
			for _, x := range s.TakeSent() {
				out = append(out, x.Data)
			}
			return out
		},
		tick:  func(now time.Time) { sc.cc.CheckExpirations(now) },
		close: func() { _ = sc.cc.Close() },
	}
}

type memAddr string

func (a memAddr) Network() string { return "mem" }
func (a memAddr) String() string  { return string(a) }

// getMIDOpt sets Config.GetMID of a dtls server (there is no option constructor for it).
type getMIDOpt struct{ f func() int32 }

func (o getMIDOpt) DTLSServerApply(cfg *dtlsserver.Config) { cfg.GetMID = o.f }

// dtlsLink: the connection is the one a real dtls.Server creates for an accepted connection (no handshake: the
// listener hands out a plain net.Pipe end). Returns false if the server did not come up.
func (sc *scenario) dtlsLink(getmid int32) bool {
	var tickFn func(now time.Time) bool
	ch := make(chan *udpclient.Conn, 1)
	srv := coapdtls.NewServer(
		options.WithErrors(func(error) {}),
		options.WithMessagePool(pool.New(64, 2048)),
		options.WithPeriodicRunner(func(f func(now time.Time) bool) { tickFn = f }),
		options.WithInactivityMonitor(100000*time.Hour, func(*udpclient.Conn) {}),
		options.WithHandlerFunc(sc.handler),
		getMIDOpt{func() int32 { return getmid }},
		options.WithOnNewConn(func(cc *udpclient.Conn) { ch <- cc }),
	)
	l := mem.NewListener()
	served := make(chan struct{})
	go func() { _ = srv.Serve(l); close(served) }()
	a, b := net.Pipe()
	var mu sync.Mutex
	var got [][]byte
	readerDone := make(chan struct{})
	go func() {
		defer close(readerDone)
		buf := make([]byte, 65536)
		for {
			n, err := b.Read(buf)
			if n > 0 {
				d := append([]byte(nil), buf[:n]...)
				mu.Lock()
				got = append(got, d)
				mu.Unlock()
				sc.onWrite(d)
			}
			if err != nil {
				return
			}
		}
	}()
	l.Push(&mem.AddrConn{Conn: a, Local: memAddr("server"), Remote: memAddr("peer")})
	synctest.Wait()
	select {
	case sc.cc = <-ch:
	default:
	}
	sc.lk = link{
		inject: func(d []byte) { _, _ = b.Write(d) },
		takeSent: func() [][]byte {
			mu.Lock()
			defer mu.Unlock()
			o := got
			got = nil
			return o
		},
		tick: func(now time.Time) {
			if tickFn != nil {
				tickFn(now)
			}
		},
		close: func() {
			srv.Stop()
			_ = b.Close()
			<-readerDone
			<-served
		},
	}
	return sc.cc != nil && tickFn != nil
}

func runScenario(t *testing.T, line string) (out string) {
	ops := strings.Split(line, "|")
	var segs []string
	synctest.Test(t, func(t *testing.T) {
		sc := &scenario{}
		getmid := int32(0)
		level := "hand"
		first := strings.Fields(ops[0])
		if len(first) >= 2 && first[0] == "own" {
			v, _ := strconv.ParseInt(first[1], 10, 64)
			getmid = int32(v)
			if len(first) >= 3 {
				level = first[2]
			}
		}
		sc.autoAck = true
		switch level {
		case "hand":
			sc.handLink(getmid)
		case "dtlssrv":
			if !sc.dtlsLink(getmid) {
				sc.lk.close()
				synctest.Wait()
				segs = append(segs, "conn-error")
				return
			}
		default:
			segs = append(segs, "bad-level")
			return
		}
		defer func() {
			sc.lk.close()
			synctest.Wait()
		}()
		for _, op := range ops {
			f := strings.Fields(op)
			if len(f) == 0 {
				segs = append(segs, "bad-op")
				continue
			}
			switch f[0] {
			case "own":
				segs = append(segs, "h=- s=-")
				continue
			case "recv":
				mid, _ := strconv.ParseInt(f[2], 10, 32)
				tok, _ := lp.ParseHex(f[3])
				sc.lk.inject(buildReq(parseType(f[1]), int32(mid), tok, f[4]))
			case "par":
				k, _ := strconv.Atoi(f[1])
				mid, _ := strconv.ParseInt(f[3], 10, 32)
				tok, _ := lp.ParseHex(f[4])
				dg := buildReq(parseType(f[2]), int32(mid), tok, f[5])
				for i := 0; i < k; i++ {
					go func() { sc.lk.inject(dg) }()
				}
			case "blk":
				mid, _ := strconv.ParseInt(f[2], 10, 32)
				tok, _ := lp.ParseHex(f[3])
				dur, _ := strconv.ParseInt(f[4], 10, 64)
				k, _ := strconv.Atoi(f[5])
				sc.mu.Lock()
				sc.autoAck = false
				sc.mu.Unlock()
				sc.lk.inject(buildReq(parseType(f[1]), int32(mid), tok, "blk"))
				synctest.Wait() // the handler is blocked in its own confirmable write (durably: a select)
				time.Sleep(time.Duration(dur))
				synctest.Wait()
				// From here to the acknowledgement neither Wait nor Sleep may be used (see onWrite): the copies are
				// started and given the processor a number of times (the first one is picked up by the replacement
				// reader loop and stops at the per-MID mutex), then the handler is released.
				dg := buildReq(parseType(f[6]), int32(mid), tok, "blk")
				for i := 0; i < k; i++ {
					go func() { sc.lk.inject(dg) }()
				}
				for i := 0; i < 2000; i++ {
					runtime.Gosched()
				}
				sc.mu.Lock()
				sc.autoAck = true
				mids := sc.unacked
				sc.unacked = nil
				sc.mu.Unlock()
				for _, m := range mids {
					sc.lk.inject(buildAck(m))
				}
			case "sleep":
				d, _ := strconv.ParseInt(f[1], 10, 64)
				time.Sleep(time.Duration(d))
			case "tick":
				sc.lk.tick(time.Now())
			case "newconn":
				// only meaningful for a datagram server
			case "flush":
				sc.mu.Lock()
				sep := sc.sep
				sc.sep = nil
				sc.mu.Unlock()
				for _, r := range sep {
					m := sc.cc.AcquireMessage(sc.cc.Context())
					m.SetType(message.NonConfirmable)
					m.SetCode(codes.Content)
					m.SetToken(r.tok)
					m.SetBody(bytes.NewReader([]byte(strconv.Itoa(r.n))))
					_ = sc.cc.WriteMessage(m)
					sc.cc.ReleaseMessage(m)
				}
			default:
				segs = append(segs, "bad-op")
				continue
			}
			synctest.Wait()
			segs = append(segs, sc.observe())
		}
	})
	return strings.Join(segs, " | ")
}

func TestC05(t *testing.T) {
	err := lp.FileLoop(func(f []string, w *bufio.Writer) {
		defer func() {
			if r := recover(); r != nil {
				fmt.Fprintf(w, "panic %v\n", r)
			}
		}()
		fmt.Fprintln(w, runScenario(t, strings.Join(f, " ")))
		_ = w.Flush() // a fatal error of the library (e.g. an unlock of an unlocked mutex) in a later line must not take this output with it
	})
	if err != nil {
		t.Fatal(err)
	}
}
