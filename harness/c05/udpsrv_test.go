package c05

// Level `udpsrv` of the C05 harness: the connection under test is the one a real udp.Server makes for a peer in its
// peer table (udp/server: getOrCreateConn, getConn, NewConn), on a real socket bound to the wildcard address 0.0.0.0
// (the concrete destination address of every datagram comes from the control message).  Real loopback sockets cannot
// live in a synctest bubble: this level runs in real time and is therefore restricted to confirmable requests whose
// handler answers at once — every injected copy is answered by exactly one datagram, which is waited for.
//
//	own <getmid> udpsrv | recv con <mid> <tokhex> <beh>[.<code>] | par <k> con <mid> <tokhex> <beh>[.<code>] | newconn | tick
//	  | mrecv non <mid> <tokhex> <pb|pbe> | other <lo|if>
//
// mrecv: a MULTICAST copy of a non-confirmable request (the server has joined group 224.0.1.187 on the first multicast
// capable non-loopback interface; sent from a second socket of the peer through that interface with multicast loopback);
// other: some other peer exchanges one unicast request with the server through 127.0.0.1 (lo) or through the address of
// the multicast interface (if) - not part of the observed history.  Without such an interface a line with mrecv yields
// `no-multicast-interface`.

import (
	"bufio"
	"context"
	"fmt"
	"net"
	"strconv"
	"strings"
	"sync"
	"testing"
	"time"

	"github.com/plgd-dev/go-coap/v3/message/pool"
	coapNet "github.com/plgd-dev/go-coap/v3/net"
	"github.com/plgd-dev/go-coap/v3/options"
	"github.com/plgd-dev/go-coap/v3/udp"
	udpclient "github.com/plgd-dev/go-coap/v3/udp/client"
	udpserver "github.com/plgd-dev/go-coap/v3/udp/server"
	"verifharness/internal/lp"
)

func runUDPServerScenario(line string) string {
	ops := strings.Split(line, "|")
	first := strings.Fields(ops[0])
	if len(first) != 3 || first[0] != "own" || first[2] != "udpsrv" {
		return "bad-level"
	}
	l, err := coapNet.NewListenUDP("udp4", "0.0.0.0:0")
	if err != nil {
		return "listen-error " + err.Error()
	}
	defer func() { _ = l.Close() }()
	getmid, _ := strconv.ParseInt(first[1], 10, 64)
	iface, ifaceIP, haveMC := multicastInterface()
	needMC := strings.Contains(line, "mrecv")
	if needMC && !haveMC {
		return "no-multicast-interface"
	}
	lport := l.LocalAddr().(*net.UDPAddr).Port
	group := &net.UDPAddr{IP: net.IPv4(224, 0, 1, 187), Port: lport}
	if needMC {
		if errJ := l.JoinGroup(&iface, group); errJ != nil {
			return "no-multicast-interface " + errJ.Error()
		}
	}
	sc := &scenario{autoAck: true}
	var tickMu sync.Mutex
	var tickFn func(now time.Time) bool
	s := udp.NewServer(
		options.WithErrors(func(error) {}),
		options.WithMessagePool(pool.New(64, 2048)),
		options.WithHandlerFunc(sc.handler),
		udpGetMIDOpt{func() int32 { return int32(getmid) }},
		options.WithInactivityMonitor(100000*time.Hour, func(*udpclient.Conn) {}),
		options.WithPeriodicRunner(func(f func(now time.Time) bool) { tickMu.Lock(); tickFn = f; tickMu.Unlock() }),
	)
	var wg sync.WaitGroup
	wg.Add(1)
	go func() { defer wg.Done(); _ = s.Serve(l) }()
	defer func() { s.Stop(); wg.Wait() }()
	port := l.LocalAddr().(*net.UDPAddr).Port
	peer, err := net.DialUDP("udp4", nil, &net.UDPAddr{IP: net.IPv4(127, 0, 0, 1), Port: port})
	if err != nil {
		return "dial-error " + err.Error()
	}
	defer func() { _ = peer.Close() }()
	var mp *coapNet.UDPConn // second socket of the peer: source of the multicast copies
	if needMC {
		if mp, err = coapNet.NewListenUDP("udp4", ""); err != nil {
			return "peer-error " + err.Error()
		}
		defer func() { _ = mp.Close() }()
		if errL := mp.SetMulticastLoopback(true); errL != nil {
			return "no-multicast-interface " + errL.Error()
		}
	}
	var got [][]byte
	sc.lk = link{
		takeSent: func() [][]byte { o := got; got = nil; return o },
	}
	segs := []string{"h=- s=-"}
	for _, op := range ops[1:] {
		f := strings.Fields(op)
		if len(f) == 0 {
			segs = append(segs, "bad-op")
			continue
		}
		switch f[0] {
		case "recv":
			if f[1] != "con" {
				segs = append(segs, "bad-op")
				continue
			}
			mid, _ := strconv.ParseInt(f[2], 10, 32)
			tok, _ := lp.ParseHex(f[3])
			if _, err := peer.Write(buildReq(parseType(f[1]), int32(mid), tok, f[4])); err != nil {
				segs = append(segs, "write-error")
				continue
			}
			buf := make([]byte, 2048)
			_ = peer.SetReadDeadline(time.Now().Add(3 * time.Second))
			n, err := peer.Read(buf)
			if err != nil {
				segs = append(segs, "no-reply")
				continue
			}
			got = append(got, append([]byte(nil), buf[:n]...))
		case "par":
			// a burst of k copies from the peer's socket, then the k replies
			k, _ := strconv.Atoi(f[1])
			if f[2] != "con" || k < 1 {
				segs = append(segs, "bad-op")
				continue
			}
			mid, _ := strconv.ParseInt(f[3], 10, 32)
			tok, _ := lp.ParseHex(f[4])
			dg := buildReq(parseType("con"), int32(mid), tok, f[5])
			for i := 0; i < k; i++ {
				_, _ = peer.Write(dg)
			}
			bad := false
			for i := 0; i < k; i++ {
				buf := make([]byte, 2048)
				_ = peer.SetReadDeadline(time.Now().Add(3 * time.Second))
				n, err := peer.Read(buf)
				if err != nil {
					bad = true
					break
				}
				got = append(got, append([]byte(nil), buf[:n]...))
			}
			if bad {
				segs = append(segs, "no-reply")
				continue
			}
		case "mrecv":
			if f[1] != "non" || mp == nil {
				segs = append(segs, "bad-op")
				continue
			}
			mid, _ := strconv.ParseInt(f[2], 10, 32)
			tok, _ := lp.ParseHex(f[3])
			ctx, cancel := context.WithTimeout(context.Background(), 3*time.Second)
			errW := mp.WriteMulticast(ctx, group, buildReq(parseType("non"), int32(mid), tok, f[4]), coapNet.WithMulticastInterface(iface))
			if errW != nil {
				cancel()
				segs = append(segs, "write-error")
				continue
			}
			buf := make([]byte, 2048)
			n, _, errR := mp.ReadWithContext(ctx, buf)
			cancel()
			if errR != nil {
				segs = append(segs, "no-reply")
				continue
			}
			got = append(got, append([]byte(nil), buf[:n]...))
		case "other":
			ip := net.IPv4(127, 0, 0, 1)
			if f[1] == "if" {
				if !haveMC {
					segs = append(segs, "no-multicast-interface")
					continue
				}
				ip = ifaceIP
			}
			oc, errD := net.DialUDP("udp4", nil, &net.UDPAddr{IP: ip, Port: lport})
			if errD != nil {
				segs = append(segs, "dial-error")
				continue
			}
			_, _ = oc.Write(buildReq(parseType("con"), 4242, []byte{0x0f}, "other"))
			buf := make([]byte, 2048)
			_ = oc.SetReadDeadline(time.Now().Add(3 * time.Second))
			_, errR := oc.Read(buf)
			_ = oc.Close()
			if errR != nil {
				segs = append(segs, "no-reply")
				continue
			}
		case "newconn":
			var errN error
			for try := 0; try < 200; try++ { // Serve may not have registered its listener yet
				if _, errN = s.NewConn(peer.LocalAddr().(*net.UDPAddr)); errN == nil {
					break
				}
				time.Sleep(5 * time.Millisecond)
			}
			if errN != nil {
				segs = append(segs, "newconn-error")
				continue
			}
		case "tick":
			tickMu.Lock()
			fn := tickFn
			tickMu.Unlock()
			if fn != nil {
				fn(time.Now())
			}
		default:
			segs = append(segs, "bad-op")
			continue
		}
		segs = append(segs, sc.observe())
	}
	return strings.Join(segs, " | ")
}

// udpGetMIDOpt sets Config.GetMID of a udp server (there is no option constructor for it).
type udpGetMIDOpt struct{ f func() int32 }

func (o udpGetMIDOpt) UDPServerApply(cfg *udpserver.Config) { cfg.GetMID = o.f }

// multicastInterface: the first multicast capable interface that is up, not the loopback, and has an IPv4 address.
func multicastInterface() (net.Interface, net.IP, bool) {
	ifs, err := net.Interfaces()
	if err != nil {
		return net.Interface{}, nil, false
	}
	for _, i := range ifs {
		if i.Flags&net.FlagMulticast == 0 || i.Flags&net.FlagUp == 0 || i.Flags&net.FlagLoopback != 0 {
			continue
		}
		addrs, err := i.Addrs()
		if err != nil {
			continue
		}
		for _, a := range addrs {
			if n, ok := a.(*net.IPNet); ok && n.IP.To4() != nil {
				return i, n.IP.To4(), true
			}
		}
	}
	return net.Interface{}, nil, false
}

func TestC05UDPServer(t *testing.T) {
	err := lp.FileLoop(func(f []string, w *bufio.Writer) {
		defer func() {
			if r := recover(); r != nil {
				fmt.Fprintf(w, "panic %v\n", r)
			}
		}()
		fmt.Fprintln(w, runUDPServerScenario(strings.Join(f, " ")))
		_ = w.Flush()
	})
	if err != nil {
		t.Fatal(err)
	}
}
