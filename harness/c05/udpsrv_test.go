package c05

// Level `udpsrv` of the C05 harness: the connection under test is the one a real udp.Server makes for a peer in its
// peer table (udp/server: getOrCreateConn, getConn, NewConn), on a real socket bound to the wildcard address 0.0.0.0
// (the concrete destination address of every datagram comes from the control message).  Real loopback sockets cannot
// live in a synctest bubble: this level runs in real time and is therefore restricted to confirmable requests whose
// handler answers at once — every injected copy is answered by exactly one datagram, which is waited for.
//
//	own <getmid> udpsrv | recv con <mid> <tokhex> <pb|pbe|none|empty> | newconn | tick

import (
	"bufio"
	"fmt"
	"net"
	"strconv"
	"strings"
	"sync"
	"testing"
	"time"

	"github.com/plgd-dev/go-coap/v3/message/pool"
	coapNet "github.com/plgd-dev/go-coap/v3/net"
	"github.com/plgd-dev/go-coap/v3/options"
	"github.com/plgd-dev/go-coap/v3/udp"
	udpclient "github.com/plgd-dev/go-coap/v3/udp/client"
	"verifharness/internal/lp"
)

func runUDPServerScenario(line string) string {
	ops := strings.Split(line, "|")
	first := strings.Fields(ops[0])
	if len(first) != 3 || first[0] != "own" || first[2] != "udpsrv" {
		return "bad-level"
	}
	l, err := coapNet.NewListenUDP("udp4", "0.0.0.0:0")
	if err != nil {
		return "listen-error " + err.Error()
	}
	defer func() { _ = l.Close() }()
	sc := &scenario{autoAck: true}
	var tickMu sync.Mutex
	var tickFn func(now time.Time) bool
	s := udp.NewServer(
		options.WithErrors(func(error) {}),
		options.WithMessagePool(pool.New(64, 2048)),
		options.WithHandlerFunc(sc.handler),
		options.WithInactivityMonitor(100000*time.Hour, func(*udpclient.Conn) {}),
		options.WithPeriodicRunner(func(f func(now time.Time) bool) { tickMu.Lock(); tickFn = f; tickMu.Unlock() }),
	)
	var wg sync.WaitGroup
	wg.Add(1)
	go func() { defer wg.Done(); _ = s.Serve(l) }()
	defer func() { s.Stop(); wg.Wait() }()
	port := l.LocalAddr().(*net.UDPAddr).Port
	peer, err := net.DialUDP("udp4", nil, &net.UDPAddr{IP: net.IPv4(127, 0, 0, 1), Port: port})
	if err != nil {
		return "dial-error " + err.Error()
	}
	defer func() { _ = peer.Close() }()
	var got [][]byte
	sc.lk = link{
		takeSent: func() [][]byte { o := got; got = nil; return o },
	}
	segs := []string{"h=- s=-"}
	for _, op := range ops[1:] {
		f := strings.Fields(op)
		if len(f) == 0 {
			segs = append(segs, "bad-op")
			continue
		}
		switch f[0] {
		case "recv":
			if f[1] != "con" {
				segs = append(segs, "bad-op")
				continue
			}
			mid, _ := strconv.ParseInt(f[2], 10, 32)
			tok, _ := lp.ParseHex(f[3])
			if _, err := peer.Write(buildReq(parseType(f[1]), int32(mid), tok, f[4])); err != nil {
				segs = append(segs, "write-error")
				continue
			}
			buf := make([]byte, 2048)
			_ = peer.SetReadDeadline(time.Now().Add(3 * time.Second))
			n, err := peer.Read(buf)
			if err != nil {
				segs = append(segs, "no-reply")
				continue
			}
			got = append(got, append([]byte(nil), buf[:n]...))
		case "newconn":
			var errN error
			for try := 0; try < 200; try++ { // Serve may not have registered its listener yet
				if _, errN = s.NewConn(peer.LocalAddr().(*net.UDPAddr)); errN == nil {
					break
				}
				time.Sleep(5 * time.Millisecond)
			}
			if errN != nil {
				segs = append(segs, "newconn-error")
				continue
			}
		case "tick":
			tickMu.Lock()
			fn := tickFn
			tickMu.Unlock()
			if fn != nil {
				fn(time.Now())
			}
		default:
			segs = append(segs, "bad-op")
			continue
		}
		segs = append(segs, sc.observe())
	}
	return strings.Join(segs, " | ")
}

func TestC05UDPServer(t *testing.T) {
	err := lp.FileLoop(func(f []string, w *bufio.Writer) {
		defer func() {
			if r := recover(); r != nil {
				fmt.Fprintf(w, "panic %v\n", r)
			}
		}()
		fmt.Fprintln(w, runUDPServerScenario(strings.Join(f, " ")))
	})
	if err != nil {
		t.Fatal(err)
	}
}
