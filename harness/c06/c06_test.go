// Harness for C06 (retransmission of confirmable requests): one scenario per input line, run with
// real cc.Do calls on a udp/client.Conn over the in-memory session inside a synctest bubble.
//
//	cfg <ackTimeoutNs> <maxRetransmit> <nstart> [<level>] | send <id> <deadlineNs|-> [<kind>] | sleep <ns> | tick <aheadNs>
//	  | ack <id> | rst <id> | pig <id> <tag> | resp <id> <con|non> <tag> | cancel <id> | mut <id>
//	  | hsend <id> <deadlineNs|-> [<kind>] | burst <k>
//	  | ping <id> <deadlineNs|-> | wcon <id> <deadlineNs|-> [<wkind>]
//	  | hold | release
//
// hold: a request of the peer arrives whose application handler does not return before `release` (a slow handler: it does
// NOT issue a request itself, so the loop over the received messages is not handed over); what the peer sends meanwhile
// (`burst`, acknowledgements, responses) piles up in the queue of received messages (ReceivedMessageQueueSize, 16) and, beyond
// that, in the one reader that calls Conn.Process. release: the handler returns, everything that piled up is worked off.
//
// ping: Conn.Ping(ctx) - a confirmable Empty message with its own pending entry, no NSTART slot; `ack` / `rst` with its id are
// the pong. wcon: Conn.WriteMessage of a confirmable message that is NOT a request (wkind c<n> = 2.05 Content with an n-byte
// payload and the token of <id>, n<n> = the same as a notification with an Observe option, e = 4.04 without payload): clone,
// pending entry with the deadline of the context, no NSTART slot, returns when any message with its ID comes back. Both
// return `acked` on completion.
//
//	  | wreq <id> <deadlineNs|-> [<kind>] | obs <id> <deadlineNs|->
//
// The two other entrances of a confirmable REQUEST: wreq = Conn.WriteMessage of a confirmable request (one way: returns
// `acked` when a message with its ID comes back); obs = Conn.DoObserve (what Client.Observe calls): the registration GET goes
// out through Conn.WriteMessage, then the call waits for the first notification (`ok:<body>`). Level `bw`: like `hand` with
// the block-wise layer ON (the default of every constructor) - Conn.WriteMessage then goes through BlockWise.WriteMessage,
// which transmits a copy of its own.
//
// hsend: like send, but the request is issued from inside a handler of the connection (a request of the peer arrives, its
// handler calls Conn.Do and waits); burst: k unrelated messages from the peer. All datagrams from the peer reach the
// connection through one reader in order (levels hand / opt), so an `ack` after a burst is behind it.
//
// level: where the transmission parameters come from and who builds the connection —
//
//	hand     (default) the three fields of client.Config are written directly, connection over the in-memory session
//	opt      the fields are written by options.WithTransmission(nstart, ackTimeout, maxRetransmit).UDPClientApply
//	dtlssrv  a real dtls.Server configured with options.WithTransmission(…) accepts a connection from an in-memory
//	         listener (dtls/server: createConn copies the server's configuration); the confirmable request is issued
//	         from the server side on that connection; `tick` is the function the server gives its periodic runner.
//	         (The accepted connection keeps the default limit of one parallel request: single-request histories only.)
//
// kind (default g): g = GET without payload; q = GET with queries and Accept; p<n> = POST with an n-byte payload;
// u<n> = PUT with an n-byte payload, If-Match and a query; d = DELETE. Requests of different kinds outstanding together
// make a retransmission pass handle messages with and without body and with different option lists.
//
// Output, one segment per op: `tx=<id>.<t>.<=|!>,… ret=<id>.<result>.<t>,… oth=<type>.<code>,…`
// (t in ns since the start of the scenario; a retransmission is stamped with the `now` that was
// passed to CheckExpirations; `=` means byte-identical to the first transmission of that request).
package c06

import (
	"bufio"
	"bytes"
	"context"
	"encoding/binary"
	"errors"
	"fmt"
	"io"
	"net"
	"sort"
	"strconv"
	"strings"
	"sync"
	"testing"
	"testing/synctest"
	"time"

	coapdtls "github.com/plgd-dev/go-coap/v3/dtls"
	"github.com/plgd-dev/go-coap/v3/message"
	"github.com/plgd-dev/go-coap/v3/message/codes"
	"github.com/plgd-dev/go-coap/v3/message/pool"
	"github.com/plgd-dev/go-coap/v3/net/responsewriter"
	"github.com/plgd-dev/go-coap/v3/options"
	udpclient "github.com/plgd-dev/go-coap/v3/udp/client"
	udpcoder "github.com/plgd-dev/go-coap/v3/udp/coder"
	"verifharness/internal/lp"
	"verifharness/internal/mem"
)

func typeName(t message.Type) string {
	switch t {
	case message.Confirmable:
		return "con"
	case message.NonConfirmable:
		return "non"
	case message.Acknowledgement:
		return "ack"
	case message.Reset:
		return "rst"
	}
	return fmt.Sprintf("t%d", int(t))
}

type call struct {
	id     int
	req    *pool.Message
	cancel context.CancelFunc
	first  []byte
	mid    int32
	sent   bool
	kind   string // "" = request of Conn.Do, "ping", "wcon"
}

type retEntry struct {
	id  int
	res string
	t   int64
}

type scenario struct {
	cc      *udpclient.Conn
	lk      link
	base    time.Time
	mu      sync.Mutex
	calls   map[int]*call
	rets    []retEntry
	peerMID int32
	held    chan struct{} // op `hold`: the handler of the peer's /hold request waits for this channel (closed by `release`)
}

func tokenOf(id int) message.Token {
	b := make([]byte, 8)
	binary.BigEndian.PutUint64(b, uint64(id)+1)
	return b
}

func idOfToken(t message.Token) (int, bool) {
	if len(t) != 8 {
		return 0, false
	}
	v := binary.BigEndian.Uint64(t)
	if v == 0 || v > 1<<20 {
		return 0, false
	}
	return int(v - 1), true
}

func encode(m *pool.Message) []byte {
	b, err := m.MarshalWithEncoder(udpcoder.DefaultCoder)
	if err != nil {
		panic(err)
	}
	return append([]byte(nil), b...)
}

func (sc *scenario) inject(typ message.Type, code codes.Code, mid int32, tok message.Token, payload string, path ...string) {
	m := pool.NewMessage(context.Background())
	m.SetType(typ)
	m.SetCode(code)
	m.SetMessageID(mid)
	if tok != nil {
		m.SetToken(tok)
	}
	if len(path) == 1 && path[0] != "" {
		_ = m.SetPath(path[0])
	}
	if payload != "" {
		m.SetContentFormat(message.TextPlain)
		m.SetBody(bytes.NewReader([]byte(payload)))
	}
	sc.lk.inject(encode(m))
}

// runCall issues the request of call c with Conn.Do and records how the call ended.
func (sc *scenario) runCall(c *call) {
	resp, err := sc.cc.Do(c.req)
	res := ""
	if err != nil {
		res = classify(err)
	} else {
		body, _ := io.ReadAll(resp.Body())
		res = "ok:" + string(body)
		sc.cc.ReleaseMessage(resp)
	}
	sc.mu.Lock()
	sc.rets = append(sc.rets, retEntry{c.id, res, time.Since(sc.base).Nanoseconds()})
	sc.mu.Unlock()
}

// runWrite runs a call that completes without a response (Conn.Ping, Conn.WriteMessage) and records how it ended.
func (sc *scenario) runWrite(c *call, f func() error) {
	res := "acked"
	if err := f(); err != nil {
		res = classify(err)
	}
	sc.mu.Lock()
	sc.rets = append(sc.rets, retEntry{c.id, res, time.Since(sc.base).Nanoseconds()})
	sc.mu.Unlock()
}

// handler of the connection under test (levels hand / opt): a request for /h<id> makes the handler itself issue request
// <id> (op `hsend`) and wait for its result before it returns; everything else goes to the library's default handler.
func (sc *scenario) handler(def udpclient.HandlerFunc) udpclient.HandlerFunc {
	return func(w *responsewriter.ResponseWriter[*udpclient.Conn], r *pool.Message) {
		if p, err := r.Path(); err == nil && p == "/hold" {
			sc.mu.Lock()
			ch := sc.held
			sc.mu.Unlock()
			if ch != nil {
				select {
				case <-ch:
				case <-sc.cc.Done():
				}
			}
			return
		}
		if p, err := r.Path(); err == nil && strings.HasPrefix(p, "/h") {
			if id, errA := strconv.Atoi(p[2:]); errA == nil {
				sc.mu.Lock()
				c := sc.calls[id]
				sc.mu.Unlock()
				if c != nil {
					sc.runCall(c)
				}
				return
			}
		}
		def(w, r)
	}
}

// setupRequest fills req according to the kind letter of the `send` op.
func setupRequest(req *pool.Message, id int, kind string) error {
	path := "/r" + strconv.Itoa(id)
	tok := tokenOf(id)
	n := 0
	if len(kind) > 1 {
		n, _ = strconv.Atoi(kind[1:])
	}
	body := make([]byte, n)
	for i := range body {
		body[i] = byte('a' + (id+i)%26)
	}
	switch kind[0] {
	case 'q':
		if err := req.SetupGet(path, tok); err != nil {
			return err
		}
		req.AddQuery("a=" + strconv.Itoa(id))
		req.AddQuery("verbose")
		req.SetAccept(message.AppJSON)
		return nil
	case 'p':
		return req.SetupPost(path, tok, message.TextPlain, bytes.NewReader(body))
	case 'r':
		// a POST whose payload reader the application has already read (a checksum, a log line) before it issues the
		// request: the reader stands at its end, r<n>, or - R<n> - in its middle
		rd := bytes.NewReader(body)
		if err := req.SetupPost(path, tok, message.TextPlain, rd); err != nil {
			return err
		}
		_, _ = io.Copy(io.Discard, rd)
		return nil
	case 'R':
		rd := bytes.NewReader(body)
		if err := req.SetupPost(path, tok, message.TextPlain, rd); err != nil {
			return err
		}
		_, _ = rd.Seek(int64(n/2), io.SeekStart)
		return nil
	case 'u':
		if err := req.SetupPut(path, tok, message.AppOctets, bytes.NewReader(body)); err != nil {
			return err
		}
		req.SetOptionBytes(message.IfMatch, []byte{byte(id), 0x5a})
		req.AddQuery("v=" + strconv.Itoa(id))
		return nil
	case 'd':
		return req.SetupDelete(path, tok)
	}
	return req.SetupGet(path, tok)
}

func classify(err error) string {
	switch {
	case errors.Is(err, context.Canceled):
		return "ctx"
	case errors.Is(err, context.DeadlineExceeded):
		return "deadline"
	case strings.Contains(err.Error(), "invalid NStart"):
		return "nstart"
	case strings.Contains(err.Error(), "already exists"):
		return "exists"
	}
	return "other"
}

func (sc *scenario) observe(stamp int64, isTick bool) string {
	var tx, oth []string
	for _, d := range sc.lk.takeSent() {
		m := pool.NewMessage(context.Background())
		if _, err := m.UnmarshalWithDecoder(udpcoder.DefaultCoder, d.Data); err != nil {
			oth = append(oth, "undecodable")
			continue
		}
		id, ok := idOfToken(m.Token())
		sc.mu.Lock()
		c := sc.calls[id]
		isReq := m.Code() >= codes.GET && m.Code() <= codes.DELETE
		if ok && c != nil && (c.kind == "ping" || (c.kind == "wcon") == isReq) { // requests: "", wreq, obs
			c = nil
		}
		if m.Type() == message.Confirmable && m.Code() == codes.Empty && len(m.Token()) == 0 {
			// a ping of the connection under test: a retransmission carries the message ID of its first transmission,
			// a first transmission belongs to the ping issued last
			c, ok = nil, false
			var fresh *call
			for _, x := range sc.calls {
				if x.kind != "ping" {
					continue
				}
				if x.sent && x.mid == m.MessageID() {
					c, ok = x, true
				}
				if !x.sent && (fresh == nil || x.id > fresh.id) {
					fresh = x
				}
			}
			if c == nil && fresh != nil {
				c, ok = fresh, true
			}
			if c != nil {
				id = c.id
			}
		}
		sc.mu.Unlock()
		if ok && c != nil && m.Type() == message.Confirmable {
			same := "="
			if !c.sent {
				c.sent = true
				c.first = d.Data
				c.mid = m.MessageID()
			} else if !bytes.Equal(c.first, d.Data) {
				same = "!"
			}
			t := d.At.Sub(sc.base).Nanoseconds()
			if isTick {
				t = stamp
			}
			tx = append(tx, fmt.Sprintf("%06d.%d.%s", id, t, same))
			continue
		}
		oth = append(oth, fmt.Sprintf("%s.%d", typeName(m.Type()), m.Code()))
	}
	sort.Strings(tx)
	for i := range tx {
		tx[i] = strings.TrimLeft(tx[i][:6], "0") + tx[i][6:]
		if strings.HasPrefix(tx[i], ".") {
			tx[i] = "0" + tx[i]
		}
	}
	sort.Strings(oth)
	sc.mu.Lock()
	rets := sc.rets
	sc.rets = nil
	sc.mu.Unlock()
	sort.Slice(rets, func(i, j int) bool { return rets[i].id < rets[j].id })
	var rs []string
	for _, r := range rets {
		rs = append(rs, fmt.Sprintf("%d.%s.%d", r.id, r.res, r.t))
	}
	j := func(xs []string) string {
		if len(xs) == 0 {
			return "-"
		}
		return strings.Join(xs, ",")
	}
	return "tx=" + j(tx) + " ret=" + j(rs) + " oth=" + j(oth)
}

// link is the path between the harness ("the peer") and the connection under test.
type link struct {
	failNext func() // the next write of the transport fails while the connection stays usable (nil: not supported)
	inject   func(data []byte)
	takeSent func() []mem.Sent
	tick     func(now time.Time)
	close    func()
}

// handLink. Datagrams from the peer are handed to Conn.Process by ONE goroutine, in order, like the read loop of a
// session does on a socket: when Process blocks (the queue of received messages is full and nobody drains it) the
// datagrams behind it wait - an acknowledgement behind a burst is not seen before the burst got through.
func handLink(cc *udpclient.Conn, s *mem.UDPSession) link {
	var mu sync.Mutex
	var fifo [][]byte
	wake := make(chan struct{}, 1)
	stop := make(chan struct{})
	done := make(chan struct{})
	go func() {
		defer close(done)
		for {
			mu.Lock()
			var d []byte
			if len(fifo) > 0 {
				d = fifo[0]
				fifo = fifo[1:]
			}
			mu.Unlock()
			if d != nil {
				_ = cc.Process(nil, d)
				continue
			}
			select {
			case <-wake:
			case <-stop:
				return
			}
		}
	}()
	return link{
		failNext: func() { s.FailNext(1) },
		inject: func(d []byte) {
			mu.Lock()
			fifo = append(fifo, d)
			mu.Unlock()
			select {
			case wake <- struct{}{}:
			default:
			}
		},
		takeSent: s.TakeSent,
		tick:     func(now time.Time) { cc.CheckExpirations(now) },
		close: func() {
			_ = cc.Close()
			close(stop)
			<-done
		},
	}
}

type memAddr string

func (a memAddr) Network() string { return "mem" }
func (a memAddr) String() string  { return string(a) }

// dtlsServerLink: a real dtls.Server, configured through options only, accepts one connection (plain net.Pipe end: no
// handshake) from an in-memory listener; the connection under test is the one it hands to OnNewConn.
func dtlsServerLink(nstart uint32, ackTimeout time.Duration, maxRetransmit uint32) (*udpclient.Conn, link) {
	var tickFn func(now time.Time) bool
	ch := make(chan *udpclient.Conn, 1)
	srv := coapdtls.NewServer(
		options.WithErrors(func(error) {}),
		options.WithMessagePool(pool.New(64, 2048)),
		options.WithPeriodicRunner(func(f func(now time.Time) bool) { tickFn = f }),
		options.WithInactivityMonitor(100000*time.Hour, func(*udpclient.Conn) {}),
		options.WithTransmission(nstart, ackTimeout, maxRetransmit),
		// the server's default handler answers every unmatched message with 4.04; the client-side default used at the
		// other levels answers requests only, and none arrive here
		options.WithHandlerFunc(func(*responsewriter.ResponseWriter[*udpclient.Conn], *pool.Message) {}),
		options.WithOnNewConn(func(cc *udpclient.Conn) { ch <- cc }),
	)
	l := mem.NewListener()
	served := make(chan struct{})
	go func() { _ = srv.Serve(l); close(served) }()
	a, b := net.Pipe()
	var mu sync.Mutex
	var got []mem.Sent
	readerDone := make(chan struct{})
	go func() {
		defer close(readerDone)
		buf := make([]byte, 65536)
		for {
			n, err := b.Read(buf)
			if n > 0 {
				mu.Lock()
				got = append(got, mem.Sent{At: time.Now(), Data: append([]byte(nil), buf[:n]...)})
				mu.Unlock()
			}
			if err != nil {
				return
			}
		}
	}()
	l.Push(&mem.AddrConn{Conn: a, Local: memAddr("server"), Remote: memAddr("peer")})
	synctest.Wait()
	var cc *udpclient.Conn
	select {
	case cc = <-ch:
	default:
	}
	lk := link{
		inject: func(d []byte) { _, _ = b.Write(d) },
		takeSent: func() []mem.Sent {
			mu.Lock()
			defer mu.Unlock()
			o := got
			got = nil
			return o
		},
		tick: func(now time.Time) {
			if tickFn != nil {
				tickFn(now)
			}
		},
		close: func() {
			srv.Stop()
			_ = b.Close()
			<-readerDone
			<-served
		},
	}
	if tickFn == nil {
		cc = nil
	}
	return cc, lk
}

func runScenario(t *testing.T, line string) string {
	ops := strings.Split(line, "|")
	var segs []string
	synctest.Test(t, func(t *testing.T) {
		first := strings.Fields(ops[0])
		if (len(first) != 4 && len(first) != 5) || first[0] != "cfg" {
			segs = append(segs, "bad-op")
			return
		}
		ackTimeout, _ := strconv.ParseInt(first[1], 10, 64)
		maxRetransmit, _ := strconv.ParseUint(first[2], 10, 32)
		nstart, _ := strconv.ParseUint(first[3], 10, 32)
		level := "hand"
		if len(first) == 5 {
			level = first[4]
		}
		sc := &scenario{calls: map[int]*call{}, peerMID: 10000, base: time.Now()}
		switch level {
		case "hand", "opt", "bw":
			var s *mem.UDPSession
			sc.cc, s = mem.NewUDPConn(mem.UDPOpts{Blockwise: level == "bw", Mutate: func(cfg *udpclient.Config) {
				if level == "opt" {
					options.WithTransmission(uint32(nstart), time.Duration(ackTimeout), uint32(maxRetransmit)).UDPClientApply(cfg)
				} else {
					cfg.TransmissionAcknowledgeTimeout = time.Duration(ackTimeout)
					cfg.TransmissionMaxRetransmit = uint32(maxRetransmit)
					cfg.TransmissionNStart = uint32(nstart)
				}
				cfg.LimitClientParallelRequests = 0
				cfg.LimitClientEndpointParallelRequests = 0
				cfg.GetMID = func() int32 { return 0 }
				cfg.Handler = sc.handler(cfg.Handler)
			}})
			sc.lk = handLink(sc.cc, s)
		case "dtlssrv":
			sc.cc, sc.lk = dtlsServerLink(uint32(nstart), time.Duration(ackTimeout), uint32(maxRetransmit))
			if sc.cc == nil {
				sc.lk.close()
				synctest.Wait()
				segs = append(segs, "conn-error")
				return
			}
		default:
			segs = append(segs, "bad-level")
			return
		}
		defer func() {
			sc.lk.close()
			synctest.Wait()
		}()
		segs = append(segs, "tx=- ret=- oth=-")
		for _, op := range ops[1:] {
			f := strings.Fields(op)
			if len(f) == 0 {
				segs = append(segs, "bad-op")
				continue
			}
			var stamp int64
			isTick := false
			bad := false
			idArg := func() (*call, int) {
				id, _ := strconv.Atoi(f[1])
				sc.mu.Lock()
				defer sc.mu.Unlock()
				return sc.calls[id], id
			}
			switch f[0] {
			case "send", "sendf", "hsend":
				// sendf: the transport refuses the first transmission of this request (the call fails at once); nothing of
				// the exchange may stay behind - no later copy, no NSTART slot
				if f[0] == "sendf" {
					if sc.lk.failNext == nil {
						bad = true
						break
					}
					sc.lk.failNext()
				}
				_, id := idArg()
				ctx, cancel := context.WithCancel(context.Background())
				if f[2] != "-" {
					d, _ := strconv.ParseInt(f[2], 10, 64)
					var c2 context.CancelFunc
					ctx, c2 = context.WithDeadline(ctx, time.Now().Add(time.Duration(d)))
					_ = c2
				}
				req := sc.cc.AcquireMessage(ctx)
				kind := "g"
				if len(f) > 3 {
					kind = f[3]
				}
				if err := setupRequest(req, id, kind); err != nil {
					panic(err)
				}
				c := &call{id: id, req: req, cancel: cancel}
				sc.mu.Lock()
				sc.calls[id] = c
				sc.mu.Unlock()
				if f[0] == "hsend" {
					// the peer's request arrives; its handler (sc.handler) issues request id and waits for the result
					sc.peerMID++
					sc.inject(message.NonConfirmable, codes.GET, sc.peerMID, message.Token{0xfe, byte(id)}, "", "/h"+strconv.Itoa(id))
				} else {
					go sc.runCall(c)
				}
			case "ping":
				_, id := idArg()
				ctx, cancel := context.WithCancel(context.Background())
				if f[2] != "-" {
					d, _ := strconv.ParseInt(f[2], 10, 64)
					var c2 context.CancelFunc
					ctx, c2 = context.WithDeadline(ctx, time.Now().Add(time.Duration(d)))
					_ = c2
				}
				c := &call{id: id, cancel: cancel, kind: "ping"}
				sc.mu.Lock()
				sc.calls[id] = c
				sc.mu.Unlock()
				go sc.runWrite(c, func() error { return sc.cc.Ping(ctx) })
			case "wcon":
				_, id := idArg()
				ctx, cancel := context.WithCancel(context.Background())
				if f[2] != "-" {
					d, _ := strconv.ParseInt(f[2], 10, 64)
					var c2 context.CancelFunc
					ctx, c2 = context.WithDeadline(ctx, time.Now().Add(time.Duration(d)))
					_ = c2
				}
				kind := "c3"
				if len(f) > 3 {
					kind = f[3]
				}
				n := 0
				if len(kind) > 1 {
					n, _ = strconv.Atoi(kind[1:])
				}
				body := make([]byte, n)
				for i := range body {
					body[i] = byte('A' + (id+i)%26)
				}
				msg := sc.cc.AcquireMessage(ctx)
				msg.SetType(message.Confirmable)
				msg.SetToken(tokenOf(id))
				switch kind[0] {
				case 'e':
					msg.SetCode(codes.NotFound)
				case 'n':
					msg.SetCode(codes.Content)
					msg.SetObserve(uint32(7 + id))
				default:
					msg.SetCode(codes.Content)
				}
				if n > 0 {
					msg.SetContentFormat(message.TextPlain)
					msg.SetBody(bytes.NewReader(body))
				}
				c := &call{id: id, req: msg, cancel: cancel, kind: "wcon"}
				sc.mu.Lock()
				sc.calls[id] = c
				sc.mu.Unlock()
				go sc.runWrite(c, func() error { return sc.cc.WriteMessage(msg) })
			case "wreq", "obs":
				_, id := idArg()
				ctx, cancel := context.WithCancel(context.Background())
				if f[2] != "-" {
					d, _ := strconv.ParseInt(f[2], 10, 64)
					var c2 context.CancelFunc
					ctx, c2 = context.WithDeadline(ctx, time.Now().Add(time.Duration(d)))
					_ = c2
				}
				req := sc.cc.AcquireMessage(ctx)
				kind := "g"
				if len(f) > 3 {
					kind = f[3]
				}
				if f[0] == "obs" {
					kind = "g"
				}
				if err := setupRequest(req, id, kind); err != nil {
					panic(err)
				}
				req.SetType(message.Confirmable)
				c := &call{id: id, req: req, cancel: cancel, kind: f[0]}
				sc.mu.Lock()
				sc.calls[id] = c
				sc.mu.Unlock()
				if f[0] == "wreq" {
					go sc.runWrite(c, func() error { return sc.cc.WriteMessage(req) })
				} else {
					req.SetObserve(0)
					go func() {
						var mu sync.Mutex
						first := ""
						got := false
						gotc := make(chan struct{})
						_, err := sc.cc.DoObserve(req, func(n *pool.Message) {
							body, _ := io.ReadAll(n.Body())
							mu.Lock()
							if !got {
								got, first = true, string(body)
								close(gotc)
							}
							mu.Unlock()
						})
						res := ""
						if err != nil {
							res = classify(err)
						} else {
							// NewObservation returns as soon as the first notification is in its channel; the observer
							// function is called right after that, by the goroutine that delivered it
							select {
							case <-gotc:
							case <-sc.cc.Done():
							}
							mu.Lock()
							res = "ok:" + first
							mu.Unlock()
						}
						sc.mu.Lock()
						sc.rets = append(sc.rets, retEntry{c.id, res, time.Since(sc.base).Nanoseconds()})
						sc.mu.Unlock()
					}()
				}
			case "hold":
				sc.mu.Lock()
				if sc.held == nil {
					sc.held = make(chan struct{})
				}
				sc.mu.Unlock()
				sc.peerMID++
				sc.inject(message.NonConfirmable, codes.POST, sc.peerMID, message.Token{0xfc, byte(sc.peerMID)}, "slow", "/hold")
			case "release":
				sc.mu.Lock()
				if sc.held != nil {
					close(sc.held)
					sc.held = nil
				}
				sc.mu.Unlock()
			case "burst":
				// unrelated messages from the peer (responses nobody waits for): they only have to get through the queue
				k, _ := strconv.Atoi(f[1])
				for i := 0; i < k; i++ {
					sc.peerMID++
					sc.inject(message.NonConfirmable, codes.Content, sc.peerMID, message.Token{0xfd, byte(i), byte(i >> 8)}, "x", "")
				}
			case "sleep":
				d, _ := strconv.ParseInt(f[1], 10, 64)
				time.Sleep(time.Duration(d))
			case "tick":
				ahead, _ := strconv.ParseInt(f[1], 10, 64)
				now := time.Now().Add(time.Duration(ahead))
				stamp = now.Sub(sc.base).Nanoseconds()
				isTick = true
				sc.lk.tick(now)
			case "ack", "rst", "pig":
				c, _ := idArg()
				if c == nil {
					bad = true
					break
				}
				if !c.sent {
					// not transmitted yet: its message ID is unknown, so nothing can match it by ID, and a response
					// cannot precede the request: acknowledgement / reset go out with a foreign ID, a piggybacked
					// response is not injected at all
					if f[0] == "pig" {
						break
					}
					c = &call{id: c.id, mid: 65000}
				}
				switch f[0] {
				case "ack":
					sc.inject(message.Acknowledgement, codes.Empty, c.mid, nil, "")
				case "rst":
					sc.inject(message.Reset, codes.Empty, c.mid, nil, "")
				case "pig":
					sc.inject(message.Acknowledgement, codes.Content, c.mid, tokenOf(c.id), f[2])
				}
			case "resp":
				c, id := idArg()
				if c == nil || !c.sent {
					break // a response cannot precede the request
				}
				typ := message.NonConfirmable
				if f[2] == "con" {
					typ = message.Confirmable
				}
				sc.peerMID++
				sc.inject(typ, codes.Content, sc.peerMID, tokenOf(id), f[3])
			case "cancel":
				c, _ := idArg()
				if c == nil {
					bad = true
					break
				}
				c.cancel()
			case "mut":
				c, _ := idArg()
				if c == nil {
					bad = true
					break
				}
				// Editing the message while Do runs is not allowed by the API (the message belongs to the call; pool.Message
				// is not safe for concurrent use). It is done here nevertheless, also while the request still waits for its
				// NSTART slot (Do's goroutine is blocked in the semaphore then), to compare with the model's two sources:
				// first datagram from the caller's message, retransmissions from the clone taken when the call was made.
				if c.req == nil {
					break // a ping has no message of the caller
				}
				c.req.SetCode(codes.POST)
				c.req.AddQuery("mutated=1")
				c.req.SetBody(bytes.NewReader([]byte("changed")))
			default:
				bad = true
			}
			if bad {
				segs = append(segs, "bad-op")
				continue
			}
			synctest.Wait()
			segs = append(segs, sc.observe(stamp, isTick))
		}
	})
	return strings.Join(segs, " | ")
}

func TestC06(t *testing.T) {
	err := lp.FileLoop(func(f []string, w *bufio.Writer) {
		defer func() {
			if r := recover(); r != nil {
				fmt.Fprintf(w, "panic %v\n", r)
			}
		}()
		fmt.Fprintln(w, runScenario(t, strings.Join(f, " ")))
	})
	if err != nil {
		t.Fatal(err)
	}
}
